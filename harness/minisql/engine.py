"""minisql engine: compiles the AST into Python closures and executes them against in-memory tables.

Semantics implemented deliberately (see README / test_minisql.py):
  * NULL = None, three-valued logic, booleans are integers 0/1 in arithmetic;
  * unqualified names inside routines resolve to local variables / parameters BEFORE columns (MySQL rule);
  * SELECT ... INTO: 0 rows -> NOT FOUND condition (variables unchanged, CONTINUE handler runs), >1 rows -> error 1172;
  * scalar subquery with >1 row -> error 1242; with >1 column -> 1241;
  * unique keys -> error 1062; a failing statement is rolled back as a whole (statement atomicity, incl. trigger effects);
  * INSERT ... ON DUPLICATE KEY UPDATE with VALUES(col); ROW_COUNT() = 1 (insert) / 2 (changed) / 0 (unchanged) per row;
  * BEFORE triggers may SET NEW.x; AFTER triggers fire per row for every row of multi-row UPDATE / INSERT ... SELECT;
  * INSERT ... SELECT streams: select row i (incl. its @var assignments) is evaluated, then inserted/ODKU-updated, then row
    i+1 ... unless the target table is read directly by the SELECT, in which case the SELECT is buffered first (MySQL's
    OPTION_BUFFER_RESULT); target table only inside a *materialised* derived table -> streaming (MySQL excludes those from the
    unique-table test);
  * transactions: per-connection undo log; START TRANSACTION / COMMIT / ROLLBACK inside a procedure act on the connection's
    transaction exactly as MySQL does (START TRANSACTION implicitly commits what the caller had open);
  * RAND() from the engine's seeded PRNG; UTC_DATE() from the engine clock.
Anything else raises `Unsupported`.
"""
import datetime
import json
import math
import random

from . import ast as A
from .errors import (ER_BAD_FIELD, ER_CANT_EXECUTE_IN_READ_ONLY, ER_NO_DEFAULT, ER_NO_REFERENCED_ROW_2, ER_NO_SUCH_TABLE,
                     ER_NON_UNIQ, ER_OPERAND_COLUMNS, ER_ROW_IS_REFERENCED_2, ER_SIGNAL, ER_SP_CURSOR_NOT_OPEN,
                     ER_SP_DOES_NOT_EXIST, ER_SP_WRONG_NO_OF_ARGS, ER_SUBQUERY_NO_1_ROW, ER_TOO_MANY_ROWS,
                     ER_WRONG_VALUE_COUNT, MySQLError, Unsupported, dup_entry)
from .parser import AGGREGATES, SqlType, parse_statements
from .schema import load_schema
from .storage import Table, UndoLog
from .values import (FALLBACK, NOMATCH, coerce, compare, group_key, not_null_error, probe_key, sort_key, stored_key,
                     to_num, truth)

T_INT = SqlType('int', -2 ** 63, 2 ** 63 - 1, name='BIGINT')
EPOCH = datetime.date(1970, 1, 1)


# ----------------------------------------------------------------------------------------------------------------------
# runtime structures
# ----------------------------------------------------------------------------------------------------------------------
class Env:
    __slots__ = ('rows', 'parent', 'frame', 'sess', 'group', 'ins', 'out', 'params')

    def __init__(self, parent=None, sess=None, frame=None, params=None):
        self.parent = parent
        if parent is not None:
            self.frame = parent.frame
            self.sess = parent.sess
            self.params = parent.params
            self.ins = parent.ins
        else:
            self.frame = frame
            self.sess = sess
            self.params = params
            self.ins = None
        self.rows = None
        self.group = None
        self.out = None


class Frame:
    __slots__ = ('vars', 'new', 'old', 'handlers', 'cursors', 'name')

    def __init__(self, nvars, name):
        self.vars = [None] * nvars
        self.new = None
        self.old = None
        self.handlers = []
        self.cursors = {}
        self.name = name


class Result:
    __slots__ = ('rowcount', 'lastrowid', 'rows', 'colnames')

    def __init__(self, rowcount=0, lastrowid=0, rows=None, colnames=None):
        self.rowcount = rowcount
        self.lastrowid = lastrowid
        self.rows = rows
        self.colnames = colnames


# ----------------------------------------------------------------------------------------------------------------------
# compile-time structures
# ----------------------------------------------------------------------------------------------------------------------
class CE:
    """Compiled expression."""
    __slots__ = ('fn', 'refs', 'agg', 'col', 'cs', 'volatile', 'name', 'tabname', 'ty', 'alias_out')

    def __init__(self, fn, refs=frozenset(), agg=False, col=None, cs=False, volatile=False, name=None, tabname=None, ty=None):
        self.fn = fn
        self.refs = refs          # frozenset of (depth, slot)
        self.agg = agg            # contains an aggregate of the current query level
        self.col = col            # (slot, colidx) when a plain depth-0 column reference
        self.cs = cs              # case-sensitive collation (column declared with a _cs collation)
        self.volatile = volatile  # RAND(), @x := ..., stored function calls
        self.name = name
        self.tabname = tabname
        self.ty = ty


class Source:
    __slots__ = ('alias', 'names', 'nameidx', 'types', 'table', 'sub', 'lateral', 'kind', 'on', 'null_row', 'dispnames',
                 'eq_idxs', 'eq_fns', 'eq_types', 'filters_all', 'filters_rest', 'post', 'cacheable')

    def __init__(self, alias, dispnames, types, table=None, sub=None, lateral=False):
        self.alias = alias.lower()
        self.dispnames = list(dispnames)
        self.names = [n.lower() for n in dispnames]
        self.nameidx = {}
        for i, n in enumerate(self.names):
            self.nameidx.setdefault(n, []).append(i)
        self.types = list(types)
        self.table = table
        self.sub = sub
        self.lateral = lateral
        self.kind = None
        self.on = None
        self.null_row = [None] * len(self.names)
        self.eq_idxs = None
        self.eq_fns = None
        self.eq_types = None
        self.filters_all = []
        self.filters_rest = []
        self.post = []
        self.cacheable = False


class QScope:
    def __init__(self, parent, rscope):
        self.parent = parent
        self.rscope = rscope
        self.sources = []
        self.aliases = None       # select-list aliases for HAVING / ORDER BY / GROUP BY: name -> index
        self.alias_ces = None
        self.uses_outer = False   # set when a name resolved at depth >= 1 through this scope


class RScope:
    """Routine (block) scope for variables."""

    def __init__(self, parent=None, routine=None):
        self.parent = parent
        self.routine = routine if routine is not None else parent.routine
        self.vars = {}

    def declare(self, name, ty):
        idx = len(self.routine.vartypes)
        self.routine.vartypes.append(ty)
        self.routine.varnames.append(name)
        self.vars[name.lower()] = idx
        return idx

    def lookup(self, lname):
        s = self
        while s is not None:
            i = s.vars.get(lname)
            if i is not None:
                return i
            s = s.parent
        return None


class CRoutine:
    def __init__(self, kind, name):
        self.kind = kind
        self.name = name
        self.vartypes = []
        self.varnames = []
        self.params = []          # [(mode, idx, type)]
        self.returns = None
        self.body = None
        self.trigger_table = None
        self.timing = None
        self.cursors = {}
        self.cursor_asts = {}     # cursor name -> its SELECT (ast), for the statement gate of exec.FullCompiler.statement


def _pred(fn):
    def pred(env):
        v = fn(env)
        if v.__class__ is int:
            return v != 0
        return truth(v) is True
    return pred


def _split_and(node, out):
    if isinstance(node, A.Binary) and node.op == 'AND':
        _split_and(node.left, out)
        _split_and(node.right, out)
    else:
        out.append(node)
    return out


def _like_to_regex(pat):
    import re
    out = []
    i = 0
    while i < len(pat):
        c = pat[i]
        if c == '\\' and i + 1 < len(pat):
            out.append(re.escape(pat[i + 1]))
            i += 2
            continue
        if c == '%':
            out.append('.*')
        elif c == '_':
            out.append('.')
        else:
            out.append(re.escape(c))
        i += 1
    return re.compile(''.join(out) + r'\Z', re.S | re.I)


# ----------------------------------------------------------------------------------------------------------------------
# compiled SELECT
# ----------------------------------------------------------------------------------------------------------------------
class CSelect:
    def __init__(self):
        self.srcs = []
        self.where_tail = []      # predicates evaluated when all slots are bound (those referencing nothing / only outer)
        self.items = []           # list of fn
        self.colnames = []
        self.coltabs = []
        self.coltypes = []
        self.grouped = False
        self.group_fns = []
        self.having = None
        self.order = []           # [(fn, desc)]
        self.distinct = False
        self.limit = None
        self.offset = None
        self.into = None
        self.correlated = False
        self.null_rows = []
        self.assigns_uvars = False

    # -- join enumeration --------------------------------------------------------------------------------------------
    def _combos(self, env):
        srcs = self.srcs
        n = len(srcs)
        rows = env.rows
        tail = self.where_tail
        cache = {}

        def cands_for(k, s):
            if s.table is not None:
                t = s.table
                if s.eq_idxs is not None:
                    key = []
                    for fn, ty in zip(s.eq_fns, s.eq_types):
                        pk = probe_key(ty, fn(env))
                        if pk is NOMATCH:
                            return (), s.filters_rest
                        if pk is FALLBACK:
                            return list(t.rows), s.filters_all
                        key.append(pk)
                    b = t.hash_index(s.eq_idxs).get(tuple(key))
                    if b is None:
                        return (), s.filters_rest
                    return list(b), s.filters_rest
                return list(t.rows), s.filters_all
            # derived table
            if s.cacheable:
                r = cache.get(k)
                if r is None:
                    r = [o for o, _c in s.sub.iter_rows(env.parent)]
                    cache[k] = r
                return r, s.filters_all
            penv = env if s.lateral else env.parent
            return [o for o, _c in s.sub.iter_rows(penv)], s.filters_all

        def level(k):
            if k == n:
                for p in tail:
                    if not p(env):
                        return
                yield list(rows)
                return
            s = srcs[k]
            cands, filters = cands_for(k, s)
            matched = False
            post = s.post
            for r in cands:
                rows[k] = r
                ok = True
                for p in filters:
                    if not p(env):
                        ok = False
                        break
                if not ok:
                    continue
                matched = True
                if post:
                    ok = True
                    for p in post:
                        if not p(env):
                            ok = False
                            break
                    if not ok:
                        continue
                yield from level(k + 1)
            if s.kind == 'left' and not matched:
                rows[k] = s.null_row
                ok = True
                for p in post:
                    if not p(env):
                        ok = False
                        break
                if ok:
                    yield from level(k + 1)
            rows[k] = s.null_row

        return level(0)

    def iter_rows(self, penv):
        """Yield (output row, combo or None).  penv: Env of the enclosing query level / statement."""
        env = Env(penv)
        env.rows = list(self.null_rows)
        items = self.items
        combos = self._combos(env)
        streaming = not self.order and not self.distinct
        lim = off = None
        if streaming and (self.limit is not None or self.offset is not None):
            lim = self._limit_val(env) if self.limit is not None else None
            off = self._offset_val(env) if self.offset is not None else 0
            if lim is not None and lim <= 0:
                return
        produced = []
        if self.grouped:
            groups = {}
            gfs = self.group_fns
            for combo in combos:
                key = tuple([group_key(f(env)) for f in gfs]) if gfs else ()
                g = groups.get(key)
                if g is None:
                    groups[key] = [combo]
                else:
                    g.append(combo)
            if not gfs and not groups:
                groups[()] = []
            having = self.having
            count = 0
            for g in groups.values():
                env.group = g
                env.rows = g[0] if g else list(self.null_rows)
                if having is not None:
                    env.out = [f(env) for f in items]
                    if not having(env):
                        continue
                out = [f(env) for f in items]
                if streaming:
                    if off is not None and count < off:
                        count += 1
                        continue
                    yield out, None
                    count += 1
                    if lim is not None and count - (off or 0) >= lim:
                        return
                else:
                    produced.append((out, list(env.rows), g))
            if streaming:
                return
        else:
            if streaming:
                if lim is None and off is None:
                    for combo in combos:
                        yield [f(env) for f in items], combo
                    return
                count = 0
                for combo in combos:
                    if count < off:
                        count += 1
                        continue
                    yield [f(env) for f in items], combo
                    count += 1
                    if lim is not None and count - off >= lim:
                        break
                return
            for combo in combos:
                produced.append(([f(env) for f in items], combo, None))
        # materialised path: ORDER BY / DISTINCT (+ LIMIT)
        if self.distinct:
            seen = set()
            uniq = []
            for p in produced:
                k = tuple(group_key(v) if v is not None else None for v in p[0])
                if k in seen:
                    continue
                seen.add(k)
                uniq.append(p)
            produced = uniq
        if self.order:
            keyed = []
            for p in produced:
                env.rows = p[1]
                env.group = p[2]
                env.out = p[0]
                keyed.append(([sort_key(f(env)) for f, _d in self.order], p))
            for i in range(len(self.order) - 1, -1, -1):
                keyed.sort(key=lambda kp, i=i: kp[0][i], reverse=self.order[i][1])
            produced = [p for _k, p in keyed]
        off = self._offset_val(env) if self.offset is not None else 0
        if self.limit is not None:
            produced = produced[off:off + max(0, self._limit_val(env))]
        elif off:
            produced = produced[off:]
        for p in produced:
            yield p[0], (p[1] if not self.grouped else None)

    _having_needs_out = False

    def _limit_val(self, env):
        v = self.limit(env)
        if v.__class__ is not int or v < 0:
            raise Unsupported(f'LIMIT value {v!r}')
        return v

    def _offset_val(self, env):
        v = self.offset(env)
        if v.__class__ is not int or v < 0:
            raise Unsupported(f'OFFSET value {v!r}')
        return v

    def run(self, penv):
        return [o for o, _c in self.iter_rows(penv)]


# ----------------------------------------------------------------------------------------------------------------------
# the compiler
# ----------------------------------------------------------------------------------------------------------------------
class Compiler:
    def __init__(self, engine):
        self.engine = engine

    # ---- names -----------------------------------------------------------------------------------------------------
    def table(self, name):
        t = self.engine.tables.get(name.lower())
        if t is None:
            raise MySQLError(ER_NO_SUCH_TABLE, f"Table 'batch.{name}' doesn't exist", '42S02')
        return t

    def resolve(self, node, scope):
        name = node.name
        lname = name.lower()
        tab = node.table
        rs = scope.rscope if scope is not None else None
        if tab is None:
            if rs is not None:
                idx = rs.lookup(lname)
                if idx is not None:
                    return CE(lambda env, idx=idx: env.frame.vars[idx], name=name, ty=rs.routine.vartypes[idx])
            # select-list aliases are handled by the callers that allow them (HAVING / ORDER BY / GROUP BY)
            depth = 0
            s = scope
            path = []
            while s is not None:
                matches = []
                for slot, src in enumerate(s.sources):
                    for i in src.nameidx.get(lname, ()):
                        matches.append((slot, i, src))
                if len(matches) > 1:
                    raise MySQLError(ER_NON_UNIQ, f"Column '{name}' in field list is ambiguous", '23000')
                if matches:
                    for q in path:
                        q.uses_outer = True
                    slot, i, src = matches[0]
                    return self._colref(depth, slot, i, src)
                path.append(s)
                s = s.parent
                depth += 1
            raise MySQLError(ER_BAD_FIELD, f"Unknown column '{name}' in 'field list'", '42S22')
        tl = tab.lower()
        depth = 0
        s = scope
        path = []
        while s is not None:
            for slot, src in enumerate(s.sources):
                if src.alias == tl:
                    idxs = src.nameidx.get(lname)
                    if not idxs:
                        raise MySQLError(ER_BAD_FIELD, f"Unknown column '{tab}.{name}' in 'field list'", '42S22')
                    if len(idxs) > 1:
                        raise MySQLError(ER_NON_UNIQ, f"Column '{tab}.{name}' is ambiguous", '23000')
                    for q in path:
                        q.uses_outer = True
                    return self._colref(depth, slot, idxs[0], src)
            path.append(s)
            s = s.parent
            depth += 1
        if tl in ('new', 'old') and rs is not None and rs.routine.trigger_table is not None:
            t = rs.routine.trigger_table
            i = t.colidx.get(lname)
            if i is None:
                raise MySQLError(ER_BAD_FIELD, f"Unknown column '{name}' in '{tab.upper()}'", '42S22')
            ty = t.coltypes[i]
            if tl == 'new':
                return CE(lambda env, i=i: env.frame.new[i], name=name, ty=ty, cs=ty.cs)
            return CE(lambda env, i=i: env.frame.old[i], name=name, ty=ty, cs=ty.cs)
        raise MySQLError(ER_BAD_FIELD, f"Unknown column '{tab}.{name}' in 'field list'", '42S22')

    def _colref(self, depth, slot, i, src):
        ty = src.types[i]
        cs = bool(ty is not None and ty.cs)
        name = src.dispnames[i]
        if depth == 0:
            def fn(env):
                return env.rows[slot][i]
            return CE(fn, frozenset([(0, slot)]), col=(slot, i), cs=cs, name=name, tabname=src.alias, ty=ty)
        if depth == 1:
            def fn(env):
                return env.parent.rows[slot][i]
        elif depth == 2:
            def fn(env):
                return env.parent.parent.rows[slot][i]
        else:
            def fn(env):
                e = env
                for _ in range(depth):
                    e = e.parent
                return e.rows[slot][i]
        return CE(fn, frozenset([(depth, slot)]), cs=cs, name=name, tabname=src.alias, ty=ty)

    # ---- expressions -----------------------------------------------------------------------------------------------
    def expr(self, node, scope):
        m = getattr(self, 'x_' + type(node).__name__, None)
        if m is None:
            raise Unsupported(f'expression node {type(node).__name__}')
        return m(node, scope)

    def x_Lit(self, node, scope):
        v = node.value
        return CE(lambda env: v)

    def x_Param(self, node, scope):
        i = node.index
        return CE(lambda env: env.params[i])

    def x_Col(self, node, scope):
        return self.resolve(node, scope)

    def x_UserVar(self, node, scope):
        n = node.name
        return CE(lambda env: env.sess.uvars.get(n), volatile=True)

    def x_Assign(self, node, scope):
        e = self.expr(node.expr, scope)
        n = node.name
        f = e.fn

        def fn(env):
            v = f(env)
            env.sess.uvars[n] = v
            return v
        return CE(fn, e.refs, e.agg, volatile=True)

    def x_Unary(self, node, scope):
        e = self.expr(node.expr, scope)
        f = e.fn
        if node.op == 'NOT':
            def fn(env):
                v = f(env)
                if v is None:
                    return None
                if v.__class__ is int:
                    return 0 if v else 1
                return 0 if truth(v) else 1
        elif node.op == '-':
            def fn(env):
                v = f(env)
                if v is None:
                    return None
                if v.__class__ is int or v.__class__ is float:
                    return -v
                return -to_num(v)
        else:
            raise Unsupported(f'unary {node.op}')
        return CE(fn, e.refs, e.agg, volatile=e.volatile)

    def x_Binary(self, node, scope):
        op = node.op
        le = self.expr(node.left, scope)
        re_ = self.expr(node.right, scope)
        l = le.fn
        r = re_.fn
        refs = le.refs | re_.refs
        agg = le.agg or re_.agg
        vol = le.volatile or re_.volatile
        if op == 'AND':
            def fn(env):
                a = l(env)
                if a is not None:
                    ta = (a != 0) if a.__class__ is int else truth(a)
                    if ta is False:
                        return 0
                else:
                    ta = None
                b = r(env)
                if b is None:
                    return None
                tb = (b != 0) if b.__class__ is int else truth(b)
                if tb is False:
                    return 0
                if ta is None:
                    return None
                return 1
        elif op == 'OR':
            def fn(env):
                a = l(env)
                if a is not None:
                    ta = (a != 0) if a.__class__ is int else truth(a)
                    if ta is True:
                        return 1
                else:
                    ta = None
                b = r(env)
                if b is None:
                    return None
                tb = (b != 0) if b.__class__ is int else truth(b)
                if tb is True:
                    return 1
                if ta is None:
                    return None
                return 0
        elif op == 'XOR':
            def fn(env):
                a = truth(l(env))
                b = truth(r(env))
                if a is None or b is None:
                    return None
                return 1 if a != b else 0
        elif op in ('=', '!=', '<', '<=', '>', '>=', '<=>'):
            cs = le.cs or re_.cs
            if op == '=':
                def fn(env):
                    a = l(env)
                    if a is None:
                        return None
                    b = r(env)
                    if b is None:
                        return None
                    if a.__class__ is int and b.__class__ is int:
                        return 1 if a == b else 0
                    return 1 if compare(a, b, cs) == 0 else 0
            elif op == '<=>':
                def fn(env):
                    a = l(env)
                    b = r(env)
                    if a is None or b is None:
                        return 1 if a is b else 0
                    return 1 if compare(a, b, cs) == 0 else 0
            else:
                test = {'!=': lambda c: c != 0, '<': lambda c: c < 0, '<=': lambda c: c <= 0, '>': lambda c: c > 0, '>=': lambda c: c >= 0}[op]

                def fn(env):
                    a = l(env)
                    if a is None:
                        return None
                    b = r(env)
                    if b is None:
                        return None
                    return 1 if test(compare(a, b, cs)) else 0
        elif op in ('+', '-', '*'):
            if op == '+':
                def ar(a, b):
                    return a + b
            elif op == '-':
                def ar(a, b):
                    return a - b
            else:
                def ar(a, b):
                    return a * b

            def fn(env):
                a = l(env)
                if a is None:
                    return None
                b = r(env)
                if b is None:
                    return None
                if a.__class__ is not int and a.__class__ is not float:
                    a = to_num(a)
                if b.__class__ is not int and b.__class__ is not float:
                    b = to_num(b)
                return ar(a, b)
        elif op == '/':
            def fn(env):
                a = to_num(l(env))
                b = to_num(r(env))
                if a is None or b is None or b == 0:
                    return None
                return a / b
        elif op == 'DIV':
            def fn(env):
                a = to_num(l(env))
                b = to_num(r(env))
                if a is None or b is None or b == 0:
                    return None
                q = abs(a) // abs(b)
                return int(q if (a >= 0) == (b >= 0) else -q)
        elif op == 'MOD':
            def fn(env):
                a = to_num(l(env))
                b = to_num(r(env))
                if a is None or b is None or b == 0:
                    return None
                return math.fmod(a, b) if (a.__class__ is float or b.__class__ is float) else int(math.fmod(a, b))
        else:
            raise Unsupported(f'operator {op}')
        return CE(fn, refs, agg, volatile=vol)

    def x_IsNull(self, node, scope):
        e = self.expr(node.expr, scope)
        f = e.fn
        if node.negated:
            return CE(lambda env: 0 if f(env) is None else 1, e.refs, e.agg, volatile=e.volatile)
        return CE(lambda env: 1 if f(env) is None else 0, e.refs, e.agg, volatile=e.volatile)

    def x_IsBool(self, node, scope):
        e = self.expr(node.expr, scope)
        f = e.fn
        want = node.value
        neg = node.negated

        def fn(env):
            t = truth(f(env))
            r = (t is want)
            return 1 if (r != neg) else 0
        return CE(fn, e.refs, e.agg, volatile=e.volatile)

    def x_InList(self, node, scope):
        e = self.expr(node.expr, scope)
        items = [self.expr(i, scope) for i in node.items]
        f = e.fn
        fs = [i.fn for i in items]
        cs = e.cs
        neg = node.negated
        refs = e.refs
        agg = e.agg
        for i in items:
            refs = refs | i.refs
            agg = agg or i.agg

        def fn(env):
            a = f(env)
            if a is None:
                return None
            unknown = False
            for g in fs:
                b = g(env)
                if b is None:
                    unknown = True
                elif compare(a, b, cs) == 0:
                    return 0 if neg else 1
            if unknown:
                return None
            return 1 if neg else 0
        return CE(fn, refs, agg)

    def x_InSub(self, node, scope):
        e = self.expr(node.expr, scope)
        sub = self.select(node.select, QScope(scope, scope.rscope))
        if len(sub.items) != 1:
            raise MySQLError(ER_OPERAND_COLUMNS, 'Operand should contain 1 column(s)', '21000')
        f = e.fn
        cs = e.cs
        neg = node.negated

        def fn(env):
            a = f(env)
            rows = sub.run(env)
            if a is None:
                return None if rows else (1 if neg else 0)
            unknown = False
            for r in rows:
                b = r[0]
                if b is None:
                    unknown = True
                elif compare(a, b, cs) == 0:
                    return 0 if neg else 1
            if unknown:
                return None
            return 1 if neg else 0
        return CE(fn, e.refs | self._outer_refs(sub), e.agg, volatile=True)

    def _outer_refs(self, sub):
        # predicates containing subqueries are flagged volatile and evaluated once every slot they could see is bound
        return frozenset()

    def x_Exists(self, node, scope):
        sub = self.select(node.select, QScope(scope, scope.rscope))

        def fn(env):
            for _ in sub.iter_rows(env):
                return 1
            return 0
        return CE(fn, self._outer_refs(sub), volatile=True)

    def x_Subquery(self, node, scope):
        sub = self.select(node.select, QScope(scope, scope.rscope))
        if len(sub.items) != 1:
            raise MySQLError(ER_OPERAND_COLUMNS, 'Operand should contain 1 column(s)', '21000')

        def fn(env):
            val = None
            n = 0
            for out, _c in sub.iter_rows(env):
                n += 1
                if n > 1:
                    raise MySQLError(ER_SUBQUERY_NO_1_ROW, 'Subquery returns more than 1 row', '21000')
                val = out[0]
            return val
        return CE(fn, self._outer_refs(sub), volatile=True, ty=sub.coltypes[0])

    def x_Cast(self, node, scope):
        e = self.expr(node.expr, scope)
        f = e.fn
        ty = node.type
        if ty.kind == 'int':
            def fn(env):
                v = f(env)
                if v is None:
                    return None
                c = v.__class__
                if c is int:
                    return v
                if c is float:
                    return int(math.floor(v + 0.5)) if v >= 0 else -int(math.floor(-v + 0.5))
                n = to_num(v)
                if n.__class__ is float:
                    return int(n)      # strings are truncated, not rounded
                return n
        elif ty.kind == 'date':
            def fn(env):
                v = f(env)
                if v is None:
                    return None
                return coerce(ty, v, 'CAST')
        elif ty.kind == 'str':
            def fn(env):
                v = f(env)
                if v is None:
                    return None
                return coerce(SqlType('str', name='CHAR'), v, 'CAST')
        elif ty.kind in ('double', 'decimal'):
            def fn(env):
                v = f(env)
                return None if v is None else to_num(v)
        else:
            raise Unsupported(f'CAST AS {ty.name}')
        return CE(fn, e.refs, e.agg, volatile=e.volatile, ty=ty)

    def x_ValuesRef(self, node, scope):
        t = getattr(scope, 'insert_table', None)
        if t is None:
            raise Unsupported('VALUES(col) outside ON DUPLICATE KEY UPDATE')
        i = t.colidx.get(node.col.lower())
        if i is None:
            raise MySQLError(ER_BAD_FIELD, f"Unknown column '{node.col}' in 'field list'", '42S22')
        return CE(lambda env: env.ins[i], ty=t.coltypes[i])

    def x_Case(self, node, scope):
        op = self.expr(node.operand, scope) if node.operand is not None else None
        whens = [(self.expr(c, scope), self.expr(v, scope)) for c, v in node.whens]
        el = self.expr(node.else_, scope) if node.else_ is not None else None
        refs = frozenset()
        agg = False
        for c, v in whens:
            refs = refs | c.refs | v.refs
            agg = agg or c.agg or v.agg
        if op is not None:
            refs |= op.refs
            agg = agg or op.agg
        if el is not None:
            refs |= el.refs
            agg = agg or el.agg
        ws = [(c.fn, v.fn) for c, v in whens]
        ef = el.fn if el is not None else None
        of = op.fn if op is not None else None

        def fn(env):
            if of is not None:
                a = of(env)
                for c, v in ws:
                    b = c(env)
                    if a is not None and b is not None and compare(a, b) == 0:
                        return v(env)
            else:
                for c, v in ws:
                    if truth(c(env)) is True:
                        return v(env)
            return ef(env) if ef is not None else None
        return CE(fn, refs, agg)

    def x_Like(self, node, scope):
        e = self.expr(node.expr, scope)
        p = self.expr(node.pattern, scope)
        f = e.fn
        g = p.fn
        neg = node.negated
        cache = {}

        def fn(env):
            a = f(env)
            b = g(env)
            if a is None or b is None:
                return None
            if a.__class__ is not str:
                a = coerce(SqlType('str'), a)
            rx = cache.get(b)
            if rx is None:
                rx = cache[b] = _like_to_regex(b)
            m = rx.match(a) is not None
            return 1 if m != neg else 0
        return CE(fn, e.refs | p.refs, e.agg or p.agg)

    def x_Between(self, node, scope):
        lo = A.Binary('>=', node.expr, node.lo)
        hi = A.Binary('<=', node.expr, node.hi)
        n = A.Binary('AND', lo, hi)
        if node.negated:
            n = A.Unary('NOT', n)
        return self.expr(n, scope)

    def x_Star(self, node, scope):
        raise Unsupported('* outside select list / COUNT(*)')

    def x_Func(self, node, scope):
        name = node.name
        if name in AGGREGATES:
            return self._aggregate(node, scope)
        args = [self.expr(a, scope) for a in node.args]
        fs = [a.fn for a in args]
        refs = frozenset()
        agg = False
        vol = False
        for a in args:
            refs |= a.refs
            agg = agg or a.agg
            vol = vol or a.volatile
        n = len(fs)

        def need(k, k2=None):
            if n != k and (k2 is None or n != k2):
                raise Unsupported(f'{name} with {n} arguments')

        if name == 'COALESCE':
            if n == 0:
                raise Unsupported('COALESCE()')

            def fn(env):
                for f in fs:
                    v = f(env)
                    if v is not None:
                        return v
                return None
        elif name == 'IFNULL':
            need(2)
            f0, f1 = fs

            def fn(env):
                v = f0(env)
                return v if v is not None else f1(env)
        elif name == 'NULLIF':
            need(2)
            f0, f1 = fs

            def fn(env):
                a = f0(env)
                b = f1(env)
                if a is not None and b is not None and compare(a, b) == 0:
                    return None
                return a
        elif name == 'IF':
            need(3)
            f0, f1, f2 = fs

            def fn(env):
                c = f0(env)
                if c is not None and ((c != 0) if c.__class__ is int else truth(c)):
                    return f1(env)
                return f2(env)
        elif name in ('GREATEST', 'LEAST'):
            if n < 2:
                raise Unsupported(f'{name} with {n} arguments')
            great = name == 'GREATEST'

            def fn(env):
                best = None
                for f in fs:
                    v = f(env)
                    if v is None:
                        return None
                    if best is None:
                        best = v
                    else:
                        c = compare(v, best)
                        if (c > 0) if great else (c < 0):
                            best = v
                return best
        elif name == 'FLOOR':
            need(1)
            f0 = fs[0]

            def fn(env):
                v = to_num(f0(env))
                return None if v is None else int(math.floor(v))
        elif name in ('CEIL', 'CEILING'):
            need(1)
            f0 = fs[0]

            def fn(env):
                v = to_num(f0(env))
                return None if v is None else int(math.ceil(v))
        elif name == 'ABS':
            need(1)
            f0 = fs[0]

            def fn(env):
                v = to_num(f0(env))
                return None if v is None else abs(v)
        elif name == 'RAND':
            need(0)
            vol = True

            def fn(env):
                return env.sess.engine.rng.random()
        elif name == 'ROW_COUNT':
            need(0)
            vol = True

            def fn(env):
                return env.sess.row_count
        elif name == 'LAST_INSERT_ID':
            need(0)
            vol = True

            def fn(env):
                return env.sess.last_insert_id
        elif name in ('UTC_DATE', 'CURRENT_DATE', 'CURDATE'):
            need(0)
            vol = True

            def fn(env):
                return env.sess.engine.utc_date()
        elif name == 'CONCAT':
            def fn(env):
                out = []
                for f in fs:
                    v = f(env)
                    if v is None:
                        return None
                    out.append(v if v.__class__ is str else coerce(SqlType('str'), v))
                return ''.join(out)
        elif name in ('LOWER', 'UPPER', 'LCASE', 'UCASE'):
            need(1)
            f0 = fs[0]
            low = name in ('LOWER', 'LCASE')

            def fn(env):
                v = f0(env)
                if v is None:
                    return None
                if v.__class__ is not str:
                    v = coerce(SqlType('str'), v)
                return v.lower() if low else v.upper()
        elif name in ('CHAR_LENGTH', 'CHARACTER_LENGTH'):
            need(1)
            f0 = fs[0]

            def fn(env):
                v = f0(env)
                if v is None:
                    return None
                if v.__class__ is not str:
                    v = coerce(SqlType('str'), v)
                return len(v)
        elif name == 'DATE':
            need(1)
            f0 = fs[0]
            ty = SqlType('date', name='DATE')

            def fn(env):
                v = f0(env)
                return None if v is None else coerce(ty, v, 'DATE()')
        else:
            # stored function?
            r = self.engine.schema.routines.get(('FUNCTION', name.lower()))
            if r is None:
                raise Unsupported(f'function {name}')
            eng = self.engine
            lname = name.lower()
            vol = True

            def fn(env):
                return eng.call_function(lname, [f(env) for f in fs], env)
        return CE(fn, refs, agg, volatile=vol)

    def _aggregate(self, node, scope):
        name = node.name
        if getattr(scope, 'no_agg', False):
            raise Unsupported(f'aggregate {name} in a context without grouping')
        scope.has_agg = True
        if node.distinct and name != 'COUNT':
            raise Unsupported(f'{name}(DISTINCT ...)')
        if name == 'COUNT' and node.star:
            return CE(lambda env: len(env.group), agg=True)
        args = [self.expr(a, scope) for a in node.args]
        for a in args:
            if a.agg:
                raise Unsupported('nested aggregates')
        refs = frozenset()
        for a in args:
            refs |= a.refs
        if name == 'COUNT':
            if len(args) != 1:
                raise Unsupported('COUNT with several arguments')
            f = args[0].fn
            distinct = node.distinct

            def fn(env):
                saved = env.rows
                n = 0
                seen = set() if distinct else None
                for combo in env.group:
                    env.rows = combo
                    v = f(env)
                    if v is not None:
                        if distinct:
                            k = group_key(v)
                            if k in seen:
                                continue
                            seen.add(k)
                        n += 1
                env.rows = saved
                return n
        elif name == 'SUM':
            f = args[0].fn

            def fn(env):
                saved = env.rows
                tot = None
                for combo in env.group:
                    env.rows = combo
                    v = f(env)
                    if v is not None:
                        if v.__class__ is not int and v.__class__ is not float:
                            v = to_num(v)
                        tot = v if tot is None else tot + v
                env.rows = saved
                return tot
        elif name in ('MAX', 'MIN'):
            f = args[0].fn
            mx = name == 'MAX'
            cs = args[0].cs

            def fn(env):
                saved = env.rows
                best = None
                for combo in env.group:
                    env.rows = combo
                    v = f(env)
                    if v is None:
                        continue
                    if best is None:
                        best = v
                    else:
                        c = compare(v, best, cs)
                        if (c > 0) if mx else (c < 0):
                            best = v
                env.rows = saved
                return best
        elif name == 'JSON_OBJECTAGG':
            if len(args) != 2:
                raise Unsupported('JSON_OBJECTAGG arity')
            fk = args[0].fn
            fv = args[1].fn

            def fn(env):
                saved = env.rows
                d = None
                for combo in env.group:
                    env.rows = combo
                    k = fk(env)
                    v = fv(env)
                    if k is None:
                        env.rows = saved
                        raise MySQLError(3158, 'JSON documents may not contain NULL member names.', '22032')
                    if d is None:
                        d = {}
                    d[k if k.__class__ is str else str(k)] = v
                env.rows = saved
                if d is None:
                    return None
                return json.dumps(d, separators=(', ', ': '))
        else:
            raise Unsupported(f'aggregate {name}')
        return CE(fn, refs, agg=True)

    # ---- FROM ------------------------------------------------------------------------------------------------------
    def _flatten(self, node, out):
        if isinstance(node, A.Join):
            self._flatten(node.left, out)
            if isinstance(node.right, A.Join):
                raise Unsupported('nested join on the right side')
            out.append((node.right, node.kind, node.on))
        else:
            out.append((node, None, None))
        return out

    def build_sources(self, from_, scope):
        """Fill scope.sources; returns list of (Source, on AST)."""
        flat = self._flatten(from_, []) if from_ is not None else []
        ons = []
        for item, kind, on in flat:
            if isinstance(item, A.TableRef):
                t = self.table(item.name)
                src = Source(item.alias or item.name, [c.name for c in t.cols], t.coltypes, table=t)
            elif isinstance(item, A.Derived):
                if item.lateral:
                    sub_scope = QScope(scope, scope.rscope)
                else:
                    sub_scope = QScope(scope.parent, scope.rscope)
                sub = self.select(item.select, sub_scope)
                if sub.into is not None:
                    raise Unsupported('INTO in derived table')
                src = Source(item.alias, sub.colnames, sub.coltypes, sub=sub, lateral=item.lateral)
                src.cacheable = (not item.lateral) and not sub.assigns_uvars
            else:
                raise Unsupported(f'FROM item {type(item).__name__}')
            for s in scope.sources:
                if s.alias == src.alias:
                    raise MySQLError(1066, f"Not unique table/alias: '{src.alias}'", '42000')
            src.kind = kind or 'inner'
            scope.sources.append(src)
            ons.append(on)
        return ons

    def plan_filters(self, scope, ons, where):
        """Distribute ON / WHERE conjuncts over the join levels and pick hash-index probes.  Returns where_tail preds."""
        srcs = scope.sources
        n = len(srcs)
        tail = []
        per_level_where = [[] for _ in range(n)]
        if where is not None:
            for c in _split_and(where, []):
                ce = self.expr(c, scope)
                if ce.agg:
                    raise MySQLError(1111, 'Invalid use of group function', 'HY000')
                lvl = max([s for d, s in ce.refs if d == 0], default=-1)
                if lvl < 0 or ce.volatile:
                    if ce.volatile and lvl >= 0:
                        lvl = n - 1
                    if lvl < 0:
                        tail.append(_pred(ce.fn))
                        continue
                per_level_where[lvl].append((c, ce))
        for k, src in enumerate(srcs):
            match = []        # (ast, ce) conjuncts that decide whether a candidate row matches
            post = []
            if ons[k] is not None:
                for c in _split_and(ons[k], []):
                    ce = self.expr(c, scope)
                    if ce.agg:
                        raise MySQLError(1111, 'Invalid use of group function', 'HY000')
                    match.append((c, ce))
            if src.kind == 'left':
                post = per_level_where[k]
            else:
                match.extend(per_level_where[k])
            src.post = [_pred(ce.fn) for _c, ce in post]
            src.filters_all = [_pred(ce.fn) for _c, ce in match]
            src.filters_rest = src.filters_all
            if src.table is not None:
                eq = {}
                used = set()
                for j, (c, ce) in enumerate(match):
                    if not (isinstance(c, A.Binary) and c.op == '=') or ce.volatile:
                        continue
                    for a, b in ((c.left, c.right), (c.right, c.left)):
                        if not isinstance(a, A.Col):
                            continue
                        try:
                            ca = self.expr(a, scope)
                        except MySQLError:
                            continue
                        if ca.col is None or ca.col[0] != k:
                            continue
                        cb = self.expr(b, scope)
                        if cb.agg or cb.volatile or any(d == 0 and s >= k for d, s in cb.refs):
                            continue
                        # a collation mismatch (cs column probed through a ci index or vice versa) is avoided: the index
                        # normalisation follows the column's own collation, which is what MySQL uses for col = value
                        if cb.cs != ca.cs and cb.ty is not None and cb.ty.kind == 'str':
                            continue
                        if ca.col[1] in eq:
                            continue
                        eq[ca.col[1]] = cb.fn
                        used.add(j)
                        break
                if eq:
                    idxs = tuple(sorted(eq))
                    src.eq_idxs = idxs
                    src.eq_fns = [eq[i] for i in idxs]
                    src.eq_types = [src.table.coltypes[i] for i in idxs]
                    src.filters_rest = [p for j, p in enumerate(src.filters_all) if j not in used]
        return tail

    # ---- SELECT ----------------------------------------------------------------------------------------------------
    def select(self, node, scope):
        cs = CSelect()
        scope.has_agg = False
        ons = self.build_sources(node.from_, scope)
        cs.srcs = scope.sources
        cs.null_rows = [s.null_row for s in scope.sources]
        cs.where_tail = self.plan_filters(scope, ons, node.where)
        # select list
        item_ces = []
        names = []
        tabs = []
        types = []
        for it in node.items:
            e = it.expr
            if isinstance(e, A.Star):
                found = False
                for slot, src in enumerate(scope.sources):
                    if e.table is not None and src.alias != e.table.lower():
                        continue
                    found = True
                    for i in range(len(src.names)):
                        item_ces.append(self._colref(0, slot, i, src))
                        names.append(src.dispnames[i])
                        tabs.append(src.alias)
                        types.append(src.types[i])
                if not found:
                    raise MySQLError(1051, f"Unknown table '{e.table}'", '42S02')
                continue
            ce = self.expr(e, scope)
            item_ces.append(ce)
            if it.alias is not None:
                names.append(it.alias)
            elif isinstance(e, A.Col):
                names.append(e.name)
            else:
                names.append(it.text.strip())
            tabs.append(ce.tabname)
            types.append(ce.ty)
            if self._has_assign(e):
                cs.assigns_uvars = True
        cs.items = [c.fn for c in item_ces]
        cs.colnames = names
        cs.coltabs = tabs
        cs.coltypes = types
        scope.aliases = {}
        for i, (it_name) in enumerate(names):
            scope.aliases.setdefault(it_name.lower(), i)
        scope.alias_ces = item_ces
        # GROUP BY: column first, then alias (by re-evaluating the aliased expression on the group's first row)
        gces = []
        for g in node.group_by:
            if isinstance(g, A.Lit) and isinstance(g.value, int):
                raise Unsupported('GROUP BY position')
            try:
                gces.append(self.expr(g, scope))
            except MySQLError as ex:
                if ex.code == ER_BAD_FIELD and isinstance(g, A.Col) and g.table is None and g.name.lower() in scope.aliases:
                    gces.append(item_ces[scope.aliases[g.name.lower()]])
                else:
                    raise
        for g in gces:
            if g.agg:
                raise MySQLError(1056, "Can't group on aggregate", '42000')
        cs.group_fns = [g.fn for g in gces]
        having_ce = None
        if node.having is not None:
            having_ce = self.expr_having(node.having, scope)
            cs.having = _pred(having_ce.fn)
            cs._having_needs_out = True
        cs.order = []
        for e, desc in node.order_by:
            if isinstance(e, A.Lit) and isinstance(e.value, int):
                raise Unsupported('ORDER BY position')
            oce = self.expr_order(e, scope)
            cs.order.append((oce.fn, desc))
        cs.grouped = bool(node.group_by) or scope.has_agg or any(c.agg for c in item_ces)
        if node.having is not None and not cs.grouped:
            cs.grouped = True
        cs.distinct = node.distinct
        if node.limit is not None:
            cs.limit = self.expr(node.limit, QScope(None, scope.rscope)).fn
        if node.offset is not None:
            cs.offset = self.expr(node.offset, QScope(None, scope.rscope)).fn
        cs.into = node.into
        cs.correlated = scope.uses_outer
        return cs

    def _has_assign(self, node):
        if isinstance(node, A.Assign):
            return True
        for f in getattr(node, '__slots__', ()):
            v = getattr(node, f)
            if isinstance(v, A.Node) and not isinstance(v, A.Select) and self._has_assign(v):
                return True
            if isinstance(v, list):
                for x in v:
                    if isinstance(x, A.Node) and self._has_assign(x):
                        return True
                    if isinstance(x, tuple):
                        for y in x:
                            if isinstance(y, A.Node) and self._has_assign(y):
                                return True
        return False

    def expr_having(self, node, scope):
        return self._expr_with_aliases(node, scope, prefer_alias=True)

    def expr_order(self, node, scope):
        return self._expr_with_aliases(node, scope, prefer_alias=True)

    def _expr_with_aliases(self, node, scope, prefer_alias):
        """Compile an expression in which unqualified names may denote select-list aliases (evaluated from env.out)."""
        comp = self

        class AliasCompiler(Compiler):
            def x_Col(self2, n, sc):
                if n.table is None and sc is scope:
                    rs = sc.rscope
                    if not (rs is not None and rs.lookup(n.name.lower()) is not None):
                        i = scope.aliases.get(n.name.lower())
                        if i is not None:
                            ace = scope.alias_ces[i]
                            # an alias that merely names a column of the same name resolves to that column anyway
                            return CE(lambda env, i=i: env.out[i], refs=ace.refs, agg=ace.agg, name=n.name, cs=ace.cs, ty=ace.ty)
                return comp.resolve(n, sc)

        ac = AliasCompiler(self.engine)
        return ac.expr(node, scope)


