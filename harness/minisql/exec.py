"""DML, stored routines, triggers, sessions and the Engine facade (continuation of engine.py)."""
import datetime
import random

from . import ast as A
from .engine import (CE, CRoutine, CSelect, Compiler, Env, EPOCH, Frame, QScope, Result, RScope, Source, _pred)
from .errors import (ER_BAD_FIELD, ER_CANT_EXECUTE_IN_READ_ONLY, ER_NO_DEFAULT, ER_NO_REFERENCED_ROW_2,
                     ER_ROW_IS_REFERENCED_2, ER_SIGNAL, ER_SP_CURSOR_NOT_OPEN, ER_SP_DOES_NOT_EXIST,
                     ER_SP_WRONG_NO_OF_ARGS, ER_TOO_MANY_ROWS, ER_WRONG_VALUE_COUNT, MySQLError, Unsupported, dup_entry)
from .parser import parse_statements
from .schema import load_schema
from .storage import Table, UndoLog
from .values import coerce, not_null_error, stored_key, truth


_GATED = frozenset(('Select', 'Insert', 'Update', 'Delete', 'SetStmt', 'StartTx', 'Commit', 'Rollback', 'If', 'While', 'Declare', 'Open',
                    'Return'))


def _run_body(stmts, env):
    for s in stmts:
        r = s(env)
        if r is not None:
            return r
    return None


class FullCompiler(Compiler):
    # ------------------------------------------------------------------------------------------------------------------
    # statements
    # ------------------------------------------------------------------------------------------------------------------
    def statement(self, node, rscope, top=False):
        m = getattr(self, 's_' + type(node).__name__, None)
        if m is None:
            raise Unsupported(f'statement {type(node).__name__}')
        fn = m(node, rscope)
        # Statement gate of the overlapping-requests layer (harness/batchdb/race.py): the statements of routine bodies are run one
        # by one, so a request can be suspended / checked against the other request's locks between the statements of a PROCEDURE,
        # and the reads inside TRIGGER / FUNCTION bodies can be checked for snapshot-dependence.  `engine.stmt_hook` is None except
        # while a history op "race" runs (one attribute test per routine statement otherwise).
        if rscope is not None:
            name = type(node).__name__
            if name == 'DeclareCursor':
                rscope.routine.cursor_asts[node.name.lower()] = node.select
            if name in _GATED:
                gate_node = rscope.routine.cursor_asts.get(node.cursor.lower(), node) if name == 'Open' else node
                eng = self.engine
                kind = rscope.routine.kind

                def gated(env, fn=fn, gate_node=gate_node, kind=kind):
                    h = eng.stmt_hook
                    if h is None:
                        return fn(env)
                    return h(gate_node, env, fn, kind)
                return gated
        return fn

    # ---- SELECT ------------------------------------------------------------------------------------------------------
    def s_Select(self, node, rscope):
        csel = self.select(node, QScope(None, rscope))
        if node.into is None:
            names = csel.colnames
            tabs = csel.coltabs

            def run(env):
                rows = csel.run(env)
                sess = env.sess
                sess.result_sets.append((names, tabs, rows))
                sess.row_count = -1
                return None
            return run
        targets = []
        for kind, name in node.into:
            if kind == 'uvar':
                targets.append(('u', name, None))
            else:
                idx = rscope.lookup(name.lower()) if rscope is not None else None
                if idx is None:
                    raise MySQLError(1327, f'Undeclared variable: {name}', '42000')
                targets.append(('v', idx, rscope.routine.vartypes[idx], name))
        if len(targets) != len(csel.items):
            raise MySQLError(1222, 'The used SELECT statements have a different number of columns', '21000')

        def run_into(env):
            n = 0
            first = None
            for out, _c in csel.iter_rows(env):
                n += 1
                if n > 1:
                    raise MySQLError(ER_TOO_MANY_ROWS, 'Result consisted of more than one row', '42000')
                first = out
            sess = env.sess
            if n == 0:
                sess.row_count = 0
                _not_found(env)
                return None
            for t, v in zip(targets, first):
                if t[0] == 'u':
                    sess.uvars[t[1]] = v
                else:
                    env.frame.vars[t[1]] = coerce(t[2], v, t[3])
            sess.row_count = 1
            return None
        return run_into

    # ---- INSERT ------------------------------------------------------------------------------------------------------
    def _reads_table(self, node, tname, direct=True):
        """Classify how SELECT `node` reads table tname: 'direct' (FROM / expression subquery), 'materialised' (only inside
        derived tables that MySQL must materialise), 'mergeable' (inside a derived table MySQL could merge) or None."""
        found = set()

        def walk_from(f, ctx):
            if f is None:
                return
            if isinstance(f, A.Join):
                walk_from(f.left, ctx)
                walk_from(f.right, ctx)
                walk_expr(f.on, ctx)
            elif isinstance(f, A.TableRef):
                if f.name.lower() == tname:
                    found.add(ctx)
            elif isinstance(f, A.Derived):
                s = f.select
                mat = bool(s.group_by or s.distinct or s.limit is not None or s.having is not None or self._sel_has_agg(s)
                           or any(self._has_assign(i.expr) for i in s.items))
                walk_select(s, ('materialised' if mat else 'mergeable') if ctx == 'direct' else ctx)

        def walk_select(s, ctx):
            walk_from(s.from_, ctx)
            for it in s.items:
                walk_expr(it.expr, ctx)
            walk_expr(s.where, ctx)
            walk_expr(s.having, ctx)
            for g in s.group_by:
                walk_expr(g, ctx)
            for o, _d in s.order_by:
                walk_expr(o, ctx)

        def walk_expr(e, ctx):
            if e is None or not isinstance(e, A.Node):
                return
            if isinstance(e, (A.Subquery, A.Exists)):
                walk_select(e.select, ctx)
                return
            if isinstance(e, A.InSub):
                walk_expr(e.expr, ctx)
                walk_select(e.select, ctx)
                return
            for f in e.__slots__:
                v = getattr(e, f)
                if isinstance(v, A.Node):
                    walk_expr(v, ctx)
                elif isinstance(v, list):
                    for x in v:
                        if isinstance(x, A.Node):
                            walk_expr(x, ctx)
                        elif isinstance(x, tuple):
                            for y in x:
                                walk_expr(y, ctx)

        walk_select(node, 'direct')
        if 'direct' in found:
            return 'direct'
        if 'mergeable' in found:
            return 'mergeable'
        if 'materialised' in found:
            return 'materialised'
        return None

    def _sel_has_agg(self, s):
        from .parser import AGGREGATES

        def has(e):
            if not isinstance(e, A.Node) or isinstance(e, A.Select):
                return False
            if isinstance(e, A.Func) and e.name in AGGREGATES:
                return True
            if isinstance(e, (A.Subquery, A.Exists, A.InSub)):
                return False
            for f in e.__slots__:
                v = getattr(e, f)
                if isinstance(v, A.Node) and has(v):
                    return True
                if isinstance(v, list):
                    for x in v:
                        if isinstance(x, A.Node) and has(x):
                            return True
                        if isinstance(x, tuple) and any(has(y) for y in x):
                            return True
            return False
        return any(has(i.expr) for i in s.items) or has(s.having)

    def s_Insert(self, node, rscope):
        eng = self.engine
        t = self.table(node.table)
        colnames = node.cols if node.cols is not None else [c.name for c in t.cols]
        idxs = []
        for c in colnames:
            i = t.colidx.get(c.lower())
            if i is None:
                raise MySQLError(ER_BAD_FIELD, f"Unknown column '{c}' in 'field list'", '42S22')
            if i in idxs:
                raise MySQLError(1110, f"Column '{c}' specified twice", '42000')
            idxs.append(i)
        provided = set(idxs)
        csel = None
        value_rows = None
        buffered = False
        if node.rows is not None:
            sc = QScope(None, rscope)
            sc.no_agg = True
            value_rows = []
            for r in node.rows:
                if len(r) != len(idxs):
                    raise MySQLError(ER_WRONG_VALUE_COUNT, "Column count doesn't match value count at row 1", '21S01')
                value_rows.append([self.expr(e, sc).fn for e in r])
        else:
            csel = self.select(node.select, QScope(None, rscope))
            if csel.into is not None:
                raise Unsupported('INSERT ... SELECT ... INTO')
            if len(csel.items) != len(idxs):
                raise MySQLError(ER_WRONG_VALUE_COUNT, "Column count doesn't match value count at row 1", '21S01')
            how = self._reads_table(node.select, t.name.lower())
            if how == 'direct':
                buffered = True
            elif how == 'mergeable':
                raise Unsupported(f'INSERT INTO {t.name} ... SELECT reading {t.name} through a mergeable derived table '
                                  '(buffering semantics depend on the optimizer)')
        odku = None
        if node.odku is not None:
            osc = QScope(None, rscope)
            osc.no_agg = True
            osc.insert_table = t
            osc.sources.append(Source(t.name, [c.name for c in t.cols], t.coltypes, table=t))
            with_src = csel is not None and not csel.grouped
            if with_src:
                for s in csel.srcs:
                    osc.sources.append(s)
            odku = []
            for col, e in node.odku:
                if col.table is not None and col.table.lower() != t.name.lower():
                    raise Unsupported('ON DUPLICATE KEY UPDATE of a non-target column')
                ci = t.colidx.get(col.name.lower())
                if ci is None:
                    raise MySQLError(ER_BAD_FIELD, f"Unknown column '{col.name}' in 'field list'", '42S22')
                odku.append((ci, self.expr(e, osc).fn, t.cols[ci].name))
            odku_with_src = with_src
        ignore = bool(node.ignore)
        if ignore and node.odku is not None:
            raise Unsupported('INSERT IGNORE ... ON DUPLICATE KEY UPDATE')
        ncols = t.ncols
        coltypes = t.coltypes
        cols = t.cols
        tname = t.name

        def insert_one(env, vals, combo):
            sess = env.sess
            row = list(t.defaults)
            for i, v in zip(idxs, vals):
                row[i] = coerce(coltypes[i], v, f"column '{cols[i].name}'") if v is not None else None
            generated = False
            a = t.auto_idx
            if a is not None:
                if row[a] is None or row[a] == 0:
                    row[a] = t.auto_next
                    generated = True
            trg = eng.trigger(tname, 'BEFORE', 'INSERT')
            if trg is not None:
                eng.run_trigger(trg, sess, None, row)
            for c in cols:
                if row[c.idx] is None and not c.nullable:
                    if ignore:      # MySQL would store the implicit default and warn: not needed by any statement of the code base
                        raise Unsupported('INSERT IGNORE storing NULL into a NOT NULL column')
                    if c.idx in provided or c.has_default:
                        raise not_null_error(c.name)
                    raise MySQLError(ER_NO_DEFAULT, f"Field '{c.name}' doesn't have a default value", 'HY000')
            conflict = t.find_conflict(row)
            if conflict is not None:
                if ignore:
                    return 0        # INSERT IGNORE: a row that duplicates a unique key is skipped (a warning, not an error)
                if odku is None:
                    raise dup_entry('-'.join(str(x) for x in conflict[1]), f'{tname}.{conflict[0]}')
                existing = conflict[2]
                new = list(existing)
                oenv = Env(env)
                oenv.ins = row
                if odku_with_src and combo is not None:
                    oenv.rows = [new] + combo
                else:
                    oenv.rows = [new]
                for ci, fn, cname in odku:
                    v = fn(oenv)
                    new[ci] = coerce(coltypes[ci], v, f"column '{cname}'") if v is not None else None
                changed = eng.apply_update(sess, t, existing, new, after_if_unchanged=False)
                return 2 if changed else 0
            if ignore:
                try:
                    eng.check_fks(t, row, None)
                except MySQLError as e:
                    if e.code == 1452:
                        return 0    # INSERT IGNORE: a row failing a foreign key is skipped
                    raise
            else:
                eng.check_fks(t, row, None)
            t.raw_insert(row)
            sess.undo.log_insert(t, row)
            if a is not None:
                if generated:
                    if sess.stmt_insert_id == 0:
                        sess.stmt_insert_id = row[a]
                    t.auto_next = row[a] + 1
                elif row[a] >= t.auto_next:
                    t.auto_next = row[a] + 1
            trg = eng.trigger(tname, 'AFTER', 'INSERT')
            if trg is not None:
                eng.run_trigger(trg, sess, None, row)
            return 1

        def run(env):
            sess = env.sess
            sess.check_write()
            mark = sess.undo.mark()
            sess.stmt_insert_id = 0
            affected = 0
            try:
                if value_rows is not None:
                    for fns in value_rows:
                        affected += insert_one(env, [f(env) for f in fns], None)
                elif buffered:
                    for out, combo in list(csel.iter_rows(env)):
                        affected += insert_one(env, out, combo)
                else:
                    for out, combo in csel.iter_rows(env):
                        affected += insert_one(env, out, combo)
            except MySQLError:
                sess.undo.rollback_to(mark)
                sess.row_count = -1
                raise
            sess.row_count = affected
            if sess.stmt_insert_id:
                sess.last_insert_id = sess.stmt_insert_id
            sess.last_stmt_insert_id = sess.stmt_insert_id
            return None
        return run

    # ---- UPDATE ------------------------------------------------------------------------------------------------------
    def s_Update(self, node, rscope):
        eng = self.engine
        scope = QScope(None, rscope)
        scope.no_agg = True
        ons = self.build_sources(node.from_, scope)
        cs = CSelect()
        cs.srcs = scope.sources
        cs.null_rows = [s.null_row for s in scope.sources]
        cs.where_tail = self.plan_filters(scope, ons, node.where)
        by_slot = {}
        order = []
        for col, e in node.sets:
            ce = self.resolve_target(col, scope)
            slot, ci = ce
            src = scope.sources[slot]
            if src.table is None:
                raise MySQLError(1288, f"The target table {src.alias} of the UPDATE is not updatable", 'HY000')
            fn = self.expr(e, scope).fn
            if slot not in by_slot:
                by_slot[slot] = []
                order.append(slot)
            by_slot[slot].append((ci, fn, src.table.cols[ci].name, src.table.coltypes[ci]))
        srcs = scope.sources

        def run(env):
            sess = env.sess
            sess.check_write()
            mark = sess.undo.mark()
            affected = 0
            try:
                qenv = Env(env)
                qenv.rows = list(cs.null_rows)
                combos = list(cs._combos(qenv))
                seen = {slot: set() for slot in order}
                for combo in combos:
                    for slot in order:
                        row = combo[slot]
                        src = srcs[slot]
                        if row is src.null_row:
                            continue
                        if id(row) in seen[slot]:
                            continue
                        seen[slot].add(id(row))
                        new = list(row)
                        rows = list(combo)
                        rows[slot] = new
                        qenv.rows = rows
                        for ci, fn, cname, cty in by_slot[slot]:
                            v = fn(qenv)
                            new[ci] = coerce(cty, v, f"column '{cname}'") if v is not None else None
                        if eng.apply_update(sess, src.table, row, new, after_if_unchanged=True):
                            affected += 1
            except MySQLError:
                sess.undo.rollback_to(mark)
                sess.row_count = -1
                raise
            sess.row_count = affected
            return None
        return run

    def resolve_target(self, col, scope):
        lname = col.name.lower()
        if col.table is not None:
            tl = col.table.lower()
            for slot, src in enumerate(scope.sources):
                if src.alias == tl:
                    idxs = src.nameidx.get(lname)
                    if not idxs:
                        raise MySQLError(ER_BAD_FIELD, f"Unknown column '{col.table}.{col.name}' in 'field list'", '42S22')
                    return slot, idxs[0]
            raise MySQLError(ER_BAD_FIELD, f"Unknown column '{col.table}.{col.name}' in 'field list'", '42S22')
        matches = []
        for slot, src in enumerate(scope.sources):
            for i in src.nameidx.get(lname, ()):
                matches.append((slot, i))
        if not matches:
            raise MySQLError(ER_BAD_FIELD, f"Unknown column '{col.name}' in 'field list'", '42S22')
        if len(matches) > 1:
            raise MySQLError(1052, f"Column '{col.name}' in field list is ambiguous", '23000')
        return matches[0]

    # ---- DELETE ------------------------------------------------------------------------------------------------------
    def s_Delete(self, node, rscope):
        eng = self.engine
        t = self.table(node.table)
        scope = QScope(None, rscope)
        scope.no_agg = True
        ons = self.build_sources(A.TableRef(node.table, node.alias), scope)
        cs = CSelect()
        cs.srcs = scope.sources
        cs.null_rows = [s.null_row for s in scope.sources]
        cs.where_tail = self.plan_filters(scope, ons, node.where)
        if eng.schema.triggers_for(t.name, 'BEFORE', 'DELETE') or eng.schema.triggers_for(t.name, 'AFTER', 'DELETE'):
            raise Unsupported('DELETE triggers')

        def run(env):
            sess = env.sess
            sess.check_write()
            mark = sess.undo.mark()
            n = 0
            try:
                qenv = Env(env)
                qenv.rows = list(cs.null_rows)
                victims = [c[0] for c in cs._combos(qenv)]
                for row in victims:
                    eng.check_children(t, row)
                    t.raw_delete(row)
                    sess.undo.log_delete(t, row)
                    n += 1
            except MySQLError:
                sess.undo.rollback_to(mark)
                sess.row_count = -1
                raise
            sess.row_count = n
            return None
        return run

    # ---- CALL / SET / transactions -----------------------------------------------------------------------------------
    def s_Call(self, node, rscope):
        eng = self.engine
        lname = node.name.lower()
        rdef = eng.schema.routines.get(('PROCEDURE', lname))
        if rdef is None:
            raise MySQLError(ER_SP_DOES_NOT_EXIST, f'PROCEDURE batch.{node.name} does not exist', '42000')
        params = rdef.ast.params
        if len(params) != len(node.args):
            raise MySQLError(ER_SP_WRONG_NO_OF_ARGS, f'Incorrect number of arguments for PROCEDURE batch.{node.name}; expected '
                             f'{len(params)}, got {len(node.args)}', '42000')
        sc = QScope(None, rscope)
        sc.no_agg = True
        argfns = []
        outrefs = []
        for (mode, _pn, _ty), a in zip(params, node.args):
            if mode in ('OUT', 'INOUT'):
                if isinstance(a, A.UserVar):
                    outrefs.append(('u', a.name))
                elif isinstance(a, A.Col) and a.table is None and rscope is not None and rscope.lookup(a.name.lower()) is not None:
                    idx = rscope.lookup(a.name.lower())
                    outrefs.append(('v', idx, rscope.routine.vartypes[idx], a.name))
                else:
                    raise MySQLError(1414, f'OUT or INOUT argument for routine {node.name} is not a variable', '42000')
            else:
                outrefs.append(None)
            if mode == 'OUT':
                argfns.append(None)
            else:
                argfns.append(self.expr(a, sc).fn)

        def run(env):
            vals = [f(env) if f is not None else None for f in argfns]
            outs = eng.call_procedure(lname, vals, env)
            for ref, v in zip(outrefs, outs):
                if ref is None:
                    continue
                if ref[0] == 'u':
                    env.sess.uvars[ref[1]] = v
                else:
                    env.frame.vars[ref[1]] = coerce(ref[2], v, ref[3])
            return None
        return run

    def s_SetStmt(self, node, rscope):
        sc = QScope(None, rscope)
        sc.no_agg = True
        ops = []
        for target, e in node.assignments:
            fn = self.expr(e, sc).fn
            kind = target[0]
            if kind == 'uvar':
                ops.append(('u', target[1], fn, None, None))
            elif kind == 'new':
                rt = rscope.routine if rscope is not None else None
                if rt is None or rt.trigger_table is None:
                    raise Unsupported('SET NEW.x outside a trigger')
                if rt.timing != 'BEFORE':
                    raise MySQLError(1362, 'Updating of NEW row is not allowed in after trigger', 'HY000')
                t = rt.trigger_table
                ci = t.colidx.get(target[1].lower())
                if ci is None:
                    raise MySQLError(ER_BAD_FIELD, f"Unknown column '{target[1]}' in 'NEW'", '42S22')
                ops.append(('n', ci, fn, t.coltypes[ci], target[1]))
            else:
                idx = rscope.lookup(target[1].lower()) if rscope is not None else None
                if idx is None:
                    raise Unsupported(f'SET of system variable or undeclared variable {target[1]}')
                ops.append(('v', idx, fn, rscope.routine.vartypes[idx], target[1]))

        def run(env):
            for kind, where, fn, ty, name in ops:
                v = fn(env)
                if kind == 'v':
                    env.frame.vars[where] = coerce(ty, v, f"variable '{name}'") if v is not None else None
                elif kind == 'u':
                    env.sess.uvars[where] = v
                else:
                    env.frame.new[where] = coerce(ty, v, f"column '{name}'") if v is not None else None
            env.sess.row_count = 0
            return None
        return run

    def s_StartTx(self, node, rscope):
        ro = node.read_only
        self._no_tx_in_function(rscope)

        def run(env):
            env.sess.start_transaction(ro)
            return None
        return run

    def s_Commit(self, node, rscope):
        self._no_tx_in_function(rscope)

        def run(env):
            env.sess.commit()
            return None
        return run

    def s_Rollback(self, node, rscope):
        self._no_tx_in_function(rscope)

        def run(env):
            env.sess.rollback()
            return None
        return run

    def _no_tx_in_function(self, rscope):
        if rscope is not None and rscope.routine.kind in ('FUNCTION', 'TRIGGER'):
            raise MySQLError(1422, 'Explicit or implicit commit is not allowed in stored function or trigger.', 'HY000')

    # ---- routine statements ------------------------------------------------------------------------------------------
    def s_Block(self, node, rscope):
        inner = RScope(rscope)
        stmts = []
        seen_non_decl = False
        for st in node.body:
            if isinstance(st, (A.Declare, A.DeclareCursor, A.DeclareHandler)):
                if seen_non_decl:
                    raise MySQLError(1064, 'DECLARE after other statements in a block', '42000')
            else:
                seen_non_decl = True
            stmts.append(self.statement(st, inner))
        label = node.label.lower() if node.label else None

        def run(env):
            fr = env.frame
            nh = len(fr.handlers)
            try:
                for s in stmts:
                    r = s(env)
                    if r is not None:
                        if r[0] == 'leave' and label is not None and r[1] == label:
                            return None
                        return r
                return None
            finally:
                del fr.handlers[nh:]
        return run

    def s_Declare(self, node, rscope):
        sc = QScope(None, rscope)
        sc.no_agg = True
        dfn = self.expr(node.default, sc).fn if node.default is not None else None
        idxs = [rscope.declare(n, node.type) for n in node.names]
        ty = node.type

        def run(env):
            v = dfn(env) if dfn is not None else None
            if v is not None:
                v = coerce(ty, v, 'variable')
            vs = env.frame.vars
            for i in idxs:
                vs[i] = v
            return None
        return run

    def s_DeclareCursor(self, node, rscope):
        csel = self.select(node.select, QScope(None, rscope))
        if csel.into is not None:
            raise Unsupported('cursor SELECT with INTO')
        name = node.name.lower()
        rscope.routine.cursors[name] = True

        def run(env):
            env.frame.cursors[name] = [csel, None, 0]
            return None
        return run

    def s_DeclareHandler(self, node, rscope):
        body = self.statement(node.stmt, rscope)

        def run(env):
            env.frame.handlers.append(body)
            return None
        return run

    def s_If(self, node, rscope):
        sc = QScope(None, rscope)
        sc.no_agg = True
        branches = [(_pred(self.expr(c, sc).fn), [self.statement(s, rscope) for s in body]) for c, body in node.branches]
        else_ = [self.statement(s, rscope) for s in node.else_] if node.else_ is not None else None

        def run(env):
            for p, body in branches:
                if p(env):
                    for s in body:
                        r = s(env)
                        if r is not None:
                            return r
                    return None
            if else_ is not None:
                for s in else_:
                    r = s(env)
                    if r is not None:
                        return r
            return None
        return run

    def s_Loop(self, node, rscope):
        body = [self.statement(s, rscope) for s in node.body]
        label = node.label.lower() if node.label else None

        def run(env):
            guard = 0
            while True:
                guard += 1
                if guard > 1000000:
                    raise Unsupported('LOOP did not terminate within 10^6 iterations')
                r = _run_body(body, env)
                if r is not None:
                    if r[0] == 'leave' and r[1] == label:
                        return None
                    if r[0] == 'iterate' and r[1] == label:
                        continue
                    return r
        return run

    def s_While(self, node, rscope):
        sc = QScope(None, rscope)
        sc.no_agg = True
        cond = _pred(self.expr(node.cond, sc).fn)
        body = [self.statement(s, rscope) for s in node.body]
        label = node.label.lower() if node.label else None

        def run(env):
            guard = 0
            while cond(env):
                guard += 1
                if guard > 1000000:
                    raise Unsupported('WHILE did not terminate within 10^6 iterations')
                r = _run_body(body, env)
                if r is not None:
                    if r[0] == 'leave' and r[1] == label:
                        return None
                    if r[0] == 'iterate' and r[1] == label:
                        continue
                    return r
            return None
        return run

    def s_Leave(self, node, rscope):
        sig = ('leave', node.label.lower())
        return lambda env: sig

    def s_Iterate(self, node, rscope):
        sig = ('iterate', node.label.lower())
        return lambda env: sig

    def s_Open(self, node, rscope):
        name = node.cursor.lower()
        self._cursor_known(name, rscope)

        def run(env):
            c = env.frame.cursors.get(name)
            if c is None:
                raise MySQLError(1324, f'Undefined CURSOR: {name}', '42000')
            if c[1] is not None:
                raise MySQLError(1325, 'Cursor is already open', '24000')
            c[1] = c[0].run(env)
            c[2] = 0
            return None
        return run

    def _cursor_known(self, name, rscope):
        if rscope is None or name not in rscope.routine.cursors:
            raise MySQLError(1324, f'Undefined CURSOR: {name}', '42000')

    def s_Close(self, node, rscope):
        name = node.cursor.lower()
        self._cursor_known(name, rscope)

        def run(env):
            c = env.frame.cursors.get(name)
            if c is None or c[1] is None:
                raise MySQLError(ER_SP_CURSOR_NOT_OPEN, 'Cursor is not open', '24000')
            c[1] = None
            return None
        return run

    def s_Fetch(self, node, rscope):
        name = node.cursor.lower()
        self._cursor_known(name, rscope)
        targets = []
        for tname in node.targets:
            idx = rscope.lookup(tname.lower())
            if idx is None:
                raise MySQLError(1327, f'Undeclared variable: {tname}', '42000')
            targets.append((idx, rscope.routine.vartypes[idx], tname))

        def run(env):
            c = env.frame.cursors.get(name)
            if c is None or c[1] is None:
                raise MySQLError(ER_SP_CURSOR_NOT_OPEN, 'Cursor is not open', '24000')
            if c[2] >= len(c[1]):
                if not env.frame.handlers:
                    raise Unsupported('FETCH past the end without a NOT FOUND handler (MySQL error 1329)')
                _not_found(env)
                return None
            row = c[1][c[2]]
            c[2] += 1
            if len(row) != len(targets):
                raise MySQLError(1328, 'Incorrect number of FETCH variables', 'HY000')
            vs = env.frame.vars
            for (idx, ty, nm), v in zip(targets, row):
                vs[idx] = coerce(ty, v, nm) if v is not None else None
            return None
        return run

    def s_Signal(self, node, rscope):
        sc = QScope(None, rscope)
        sc.no_agg = True
        state = node.sqlstate
        for k in node.items:
            if k not in ('MESSAGE_TEXT', 'MYSQL_ERRNO'):
                raise Unsupported(f'SIGNAL item {k}')
        msg = self.expr(node.items['MESSAGE_TEXT'], sc).fn if 'MESSAGE_TEXT' in node.items else None
        errno = self.expr(node.items['MYSQL_ERRNO'], sc).fn if 'MYSQL_ERRNO' in node.items else None
        if state[:2] in ('00', '01', '02'):
            raise Unsupported('SIGNAL of a warning / not-found class')

        def run(env):
            m = msg(env) if msg is not None else 'Unhandled user-defined exception condition'
            code = errno(env) if errno is not None else ER_SIGNAL
            raise MySQLError(code, m, state)
        return run

    def s_Return(self, node, rscope):
        if rscope is None or rscope.routine.kind != 'FUNCTION':
            raise MySQLError(1313, 'RETURN is only allowed in a FUNCTION', '42000')
        sc = QScope(None, rscope)
        sc.no_agg = True
        fn = self.expr(node.expr, sc).fn
        return lambda env: ('return', fn(env))

    # ---- routine -----------------------------------------------------------------------------------------------------
    def routine(self, rdef):
        a = rdef.ast
        cr = CRoutine(a.kind, a.name)
        root = RScope(None, cr)
        if a.kind == 'TRIGGER':
            cr.trigger_table = self.table(a.table)
            cr.timing = a.timing
        for mode, pname, ty in a.params:
            idx = root.declare(pname, ty)
            cr.params.append((mode, idx, ty, pname))
        cr.returns = a.returns
        cr.body = self.statement(a.body, root)
        return cr


def _not_found(env):
    fr = env.frame
    if fr is not None and fr.handlers:
        fr.handlers[-1](env)


# ----------------------------------------------------------------------------------------------------------------------
# sessions and engine
# ----------------------------------------------------------------------------------------------------------------------
class Session:
    """One client connection (autocommit off, like gear's pool): undo log = the open transaction."""

    def __init__(self, engine):
        self.engine = engine
        self.undo = UndoLog()
        self.uvars = {}
        self.row_count = 0
        self.last_insert_id = 0
        self.stmt_insert_id = 0
        self.last_stmt_insert_id = 0
        self.read_only = False
        self.result_sets = []
        engine.sessions.append(self)

    def close(self):
        if self in self.engine.sessions:
            self.rollback()
            self.engine.sessions.remove(self)

    def check_write(self):
        if self.read_only:
            raise MySQLError(ER_CANT_EXECUTE_IN_READ_ONLY, 'Cannot execute statement in a READ ONLY transaction.', '25006')
        for s in self.engine.sessions:
            if s is not self and s.undo.entries:
                raise Unsupported('two connections with uncommitted writes at the same time (no isolation model)')

    def start_transaction(self, read_only=False):
        self.undo.clear()        # implicit commit of whatever was open
        self.read_only = read_only

    def commit(self):
        self.undo.clear()
        self.read_only = False

    def rollback(self):
        self.undo.rollback_to(0)
        self.read_only = False

    def execute(self, sql, params=None):
        eng = self.engine
        for s in eng.sessions:
            if s is not self and s.undo.entries:
                raise Unsupported('statement while another connection has uncommitted writes (no isolation model)')
        with_params = params is not None
        key = (sql, with_params)
        ent = eng.stmt_cache.get(key)
        if ent is None:
            asts, nparams = parse_statements(sql, with_params=with_params)
            if len(asts) != 1:
                raise Unsupported(f'{len(asts)} statements in one execute()')
            if isinstance(asts[0], A.CreateRoutine):
                raise Unsupported('CREATE routine at run time')
            fn = eng.compiler.statement(asts[0], None)
            ent = (fn, nparams, isinstance(asts[0], (A.Insert, A.Update, A.Delete)))
            eng.stmt_cache[key] = ent
        fn, nparams, is_dml = ent
        if with_params:
            if isinstance(params, dict):
                raise Unsupported('named parameters')
            params = tuple(_bind(p) for p in params)
            if len(params) != nparams:
                raise TypeError('not all arguments converted during string formatting' if len(params) > nparams
                                else 'not enough arguments for format string')
        self.result_sets = []
        self.stmt_insert_id = 0
        self.last_stmt_insert_id = 0
        env = Env(None, self, None, params)
        fn(env)
        eng.n_statements += 1
        if self.result_sets:
            names, tabs, rows = self.result_sets[0]
            return Result(len(rows), 0, _dict_rows(names, tabs, rows), names)
        rc = self.row_count if is_dml else 0
        return Result(rc, self.last_stmt_insert_id if is_dml else 0, None, None)


def _bind(p):
    if p is None:
        return None
    c = p.__class__
    if c is bool:
        return int(p)
    if c is int or c is float or c is str or c is datetime.date:
        return p
    if isinstance(p, bool):
        return int(p)
    if isinstance(p, int):
        return int(p)
    if isinstance(p, str):
        return str(p)
    raise Unsupported(f'parameter of type {c.__name__}')


def _dict_rows(names, tabs, rows):
    keys = []
    seen = set()
    for n, t in zip(names, tabs):
        k = n
        if k in seen:
            k = f'{t}.{n}' if t else n
        seen.add(k)
        keys.append(k)
    return [dict(zip(keys, r)) for r in rows]


class Engine:
    def __init__(self, repo=None, seed=0, schema=None):
        self.schema = schema or load_schema(repo)
        self.tables = {}
        for name, d in self.schema.tables.items():
            self.tables[name] = Table(d)
        for t in self.tables.values():
            for cols, ref, rcols, on_delete in t.defn.fks:
                p = self.tables[ref.lower()]
                cidx = tuple(t.colidx[c.lower()] for c in cols)
                pidx = tuple(p.colidx[c.lower()] for c in rcols)
                t.fks.append((cidx, p, pidx, on_delete))
                p.children.append((t, cidx, pidx, on_delete))
        self.compiler = FullCompiler(self)
        self.stmt_cache = {}
        self._routines = {}
        self._triggers = {}
        self.sessions = []
        self.rng = random.Random(seed)
        self.now_msec = 0
        self.n_statements = 0
        self.fk_checks = True
        self.stmt_hook = None     # see FullCompiler.statement

    # ---- housekeeping ------------------------------------------------------------------------------------------------
    def reset(self, seed=0):
        for t in self.tables.values():
            t.clear()
        for s in list(self.sessions):
            s.undo.clear()
        self.sessions = []
        self.rng = random.Random(seed)
        self.now_msec = 0

    def connect(self):
        return Session(self)

    def utc_date(self):
        return EPOCH + datetime.timedelta(days=self.now_msec // 86400000)

    def dump(self, table):
        t = self.tables[table.lower()]
        names = [c.name for c in t.cols]
        return [dict(zip(names, r)) for r in t.rows]

    # ---- routines ----------------------------------------------------------------------------------------------------
    def compiled(self, kind, lname):
        k = (kind, lname)
        r = self._routines.get(k)
        if r is None:
            rdef = self.schema.routines.get(k)
            if rdef is None:
                raise MySQLError(ER_SP_DOES_NOT_EXIST, f'{kind} batch.{lname} does not exist', '42000')
            try:
                r = self.compiler.routine(rdef)
            except Unsupported as e:
                raise Unsupported(f'{kind} {lname} ({rdef.source_file}): {e}') from e
            self._routines[k] = r
        return r

    def trigger(self, tname, timing, event):
        k = (tname.lower(), timing, event)
        if k in self._triggers:
            return self._triggers[k]
        rdef = self.schema.triggers_for(tname, timing, event)
        r = None
        if rdef is not None:
            self._triggers[k] = None     # guard against recursion while compiling
            r = self.compiled('TRIGGER', rdef.name.lower())
        self._triggers[k] = r
        return r

    def run_trigger(self, cr, sess, old, new):
        fr = Frame(len(cr.vartypes), cr.name)
        fr.old = old
        fr.new = new
        env = Env(None, sess, fr, None)
        saved_rc = sess.row_count
        saved_ins = (sess.stmt_insert_id, sess.last_stmt_insert_id)
        r = cr.body(env)
        sess.row_count = saved_rc
        sess.stmt_insert_id, sess.last_stmt_insert_id = saved_ins
        if r is not None:
            raise Unsupported(f'trigger {cr.name} ended with {r[0]}')

    def call_function(self, lname, args, env):
        cr = self.compiled('FUNCTION', lname)
        if len(args) != len(cr.params):
            raise MySQLError(ER_SP_WRONG_NO_OF_ARGS, f'Incorrect number of arguments for FUNCTION batch.{lname}', '42000')
        fr = Frame(len(cr.vartypes), cr.name)
        for (mode, idx, ty, pname), v in zip(cr.params, args):
            fr.vars[idx] = coerce(ty, v, f"parameter '{pname}'") if v is not None else None
        fenv = Env(None, env.sess, fr, None)
        saved_rc = env.sess.row_count
        r = cr.body(fenv)
        env.sess.row_count = saved_rc
        if r is None or r[0] != 'return':
            raise MySQLError(1321, f'FUNCTION {lname} ended without RETURN', '2F005')
        v = r[1]
        return coerce(cr.returns, v, 'function return value') if v is not None else None

    def call_procedure(self, lname, args, env):
        cr = self.compiled('PROCEDURE', lname)
        fr = Frame(len(cr.vartypes), cr.name)
        for (mode, idx, ty, pname), v in zip(cr.params, args):
            if mode == 'OUT':
                fr.vars[idx] = None
            else:
                fr.vars[idx] = coerce(ty, v, f"parameter '{pname}'") if v is not None else None
        penv = Env(None, env.sess, fr, None)
        r = cr.body(penv)
        if r is not None:
            raise Unsupported(f'procedure {lname} ended with {r[0]}')
        return [fr.vars[idx] if mode in ('OUT', 'INOUT') else None for (mode, idx, ty, pname) in cr.params]

    # ---- row-level write primitives ------------------------------------------------------------------------------------
    def apply_update(self, sess, t, row, new, after_if_unchanged):
        """BEFORE UPDATE trigger, constraint checks, in-place write, AFTER UPDATE trigger.  Returns True when changed."""
        old = list(row)
        trg = self.trigger(t.name, 'BEFORE', 'UPDATE')
        if trg is not None:
            self.run_trigger(trg, sess, old, new)
        changed = new != old
        if not changed:
            # also treat 1 vs 1.0 / identical as unchanged; different str case IS a change in MySQL (binary comparison)
            pass
        if changed:
            for c in t.cols:
                i = c.idx
                if new[i] is None and not c.nullable and old[i] is not None:
                    raise not_null_error(c.name)
            keychanged = False
            for _n, idxs, _d in t.keys:
                for i in idxs:
                    if new[i] != old[i]:
                        keychanged = True
            if keychanged:
                conflict = t.find_conflict(new, exclude=row)
                if conflict is not None:
                    raise dup_entry('-'.join(str(x) for x in conflict[1]), f'{t.name}.{conflict[0]}')
                for child, cidx, pidx, _od in t.children:
                    if any(new[i] != old[i] for i in pidx) and self._has_children(child, cidx, t, pidx, old):
                        raise Unsupported(f'update of a referenced key of {t.name}')
            self.check_fks(t, new, old)
            sess.undo.log_update(t, row, old)
            t.raw_update(row, new)
        if changed or after_if_unchanged:
            trg = self.trigger(t.name, 'AFTER', 'UPDATE')
            if trg is not None:
                self.run_trigger(trg, sess, old, list(row))
        return changed

    def check_fks(self, t, row, old):
        if not self.fk_checks:
            return
        for cidx, p, pidx, _od in t.fks:
            if old is not None and all(row[i] == old[i] for i in cidx):
                continue
            key = []
            for ci, pi in zip(cidx, pidx):
                v = row[ci]
                if v is None:
                    key = None
                    break
                key.append(stored_key(p.coltypes[pi], v))
            if key is None:
                continue
            if tuple(key) not in p.hash_index(pidx):
                raise MySQLError(ER_NO_REFERENCED_ROW_2,
                                 f'Cannot add or update a child row: a foreign key constraint fails (`batch`.`{t.name}`, '
                                 f'FOREIGN KEY ({", ".join(t.cols[i].name for i in cidx)}) REFERENCES `{p.name}`)', '23000')

    def _has_children(self, child, cidx, parent, pidx, prow):
        key = []
        for pi, ci in zip(pidx, cidx):
            v = prow[pi]
            if v is None:
                return False
            key.append(stored_key(child.coltypes[ci], v))
        return tuple(key) in child.hash_index(cidx)

    def check_children(self, t, row):
        if not self.fk_checks:
            return
        for child, cidx, pidx, on_delete in t.children:
            if self._has_children(child, cidx, t, pidx, row):
                if on_delete == 'CASCADE':
                    raise Unsupported(f'DELETE from {t.name} would cascade into {child.name} (ON DELETE CASCADE not implemented)')
                raise MySQLError(ER_ROW_IS_REFERENCED_2, f'Cannot delete or update a parent row: a foreign key constraint fails '
                                 f'(`batch`.`{child.name}`)', '23000')
