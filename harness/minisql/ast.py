"""AST node classes (plain containers)."""


class Node:
    __slots__ = ()

    def __repr__(self):
        return f'{type(self).__name__}({", ".join(f"{k}={getattr(self, k)!r}" for k in self.__slots__)})'


def _mk(name, fields):
    fields = tuple(fields.split())

    def __init__(self, *args, **kw):
        if len(args) > len(fields):
            raise TypeError(name)
        for f, a in zip(fields, args):
            setattr(self, f, a)
        for f in fields[len(args):]:
            setattr(self, f, kw.pop(f, None))
        if kw:
            raise TypeError(f'{name}: {kw}')

    return type(name, (Node,), {'__slots__': fields, '__init__': __init__})


# expressions
Lit = _mk('Lit', 'value')
Param = _mk('Param', 'index')
Col = _mk('Col', 'table name')              # unqualified names may resolve to routine variables
UserVar = _mk('UserVar', 'name')
Assign = _mk('Assign', 'name expr')         # @x := e
Unary = _mk('Unary', 'op expr')
Binary = _mk('Binary', 'op left right')
IsNull = _mk('IsNull', 'expr negated')
IsBool = _mk('IsBool', 'expr value negated')   # IS [NOT] TRUE/FALSE
InList = _mk('InList', 'expr items negated')
InSub = _mk('InSub', 'expr select negated')
Exists = _mk('Exists', 'select')
Subquery = _mk('Subquery', 'select')
Func = _mk('Func', 'name args distinct star')
Cast = _mk('Cast', 'expr type')
ValuesRef = _mk('ValuesRef', 'col')
Star = _mk('Star', 'table')
Case = _mk('Case', 'operand whens else_')
Like = _mk('Like', 'expr pattern negated')
Between = _mk('Between', 'expr lo hi negated')

# FROM items
TableRef = _mk('TableRef', 'name alias')
Derived = _mk('Derived', 'select alias lateral')
Join = _mk('Join', 'left right kind on')    # kind: 'inner' | 'left'

# statements
SelectItem = _mk('SelectItem', 'expr alias text')
# lock: None | 'share' | 'update' -- the locking clause; the engine itself ignores it (every statement runs alone), the
# overlapping-requests layer (harness/batchdb/race.py) reads it
Select = _mk('Select', 'distinct items into from_ where group_by having order_by limit offset lock')
Insert = _mk('Insert', 'table cols rows select odku ignore')
Update = _mk('Update', 'from_ sets where')
Delete = _mk('Delete', 'table alias where')
Call = _mk('Call', 'name args')
SetStmt = _mk('SetStmt', 'assignments')     # [(target, expr)], target: ('var', name) | ('uvar', name) | ('new', col)
StartTx = _mk('StartTx', 'read_only')
Commit = _mk('Commit', '')
Rollback = _mk('Rollback', '')
Declare = _mk('Declare', 'names type default')
DeclareCursor = _mk('DeclareCursor', 'name select')
DeclareHandler = _mk('DeclareHandler', 'action condition stmt')
If = _mk('If', 'branches else_')
Loop = _mk('Loop', 'label body')
While = _mk('While', 'label cond body')
Leave = _mk('Leave', 'label')
Iterate = _mk('Iterate', 'label')
Open = _mk('Open', 'cursor')
Fetch = _mk('Fetch', 'cursor targets')
Close = _mk('Close', 'cursor')
Signal = _mk('Signal', 'sqlstate items')
Return = _mk('Return', 'expr')
Block = _mk('Block', 'label body')
CreateRoutine = _mk('CreateRoutine', 'kind name params returns body timing event table text')
DropRoutine = _mk('DropRoutine', 'kind name')
Ignored = _mk('Ignored', 'what')
