"""minisql: an in-memory engine for exactly the MySQL subset used by the hail batch service (see README in harness/batchdb)."""
from .errors import MySQLError, Unsupported  # noqa: F401
from .exec import Engine, Session  # noqa: F401
from .schema import load_schema  # noqa: F401
