"""Tokeniser for the MySQL subset.  Fail closed on anything unrecognised."""
from .errors import Unsupported

WORD, QIDENT, STR, NUM, OP, UVAR, PARAM, EOF = 'word', 'qident', 'str', 'num', 'op', 'uvar', 'param', 'eof'

_OPS3 = ('<=>',)
_OPS2 = (':=', '<=', '>=', '<>', '!=', '||', '&&', '<<', '>>')
_OPS1 = '+-*/%=<>(),.;!&|^~:'


class Tok:
    __slots__ = ('kind', 'val', 'up', 'start', 'end')

    def __init__(self, kind, val, up, start, end):
        self.kind = kind
        self.val = val
        self.up = up
        self.start = start
        self.end = end

    def __repr__(self):
        return f'Tok({self.kind},{self.val!r})'


_ESC = {'n': '\n', 't': '\t', 'r': '\r', '0': '\0', 'b': '\b', 'Z': '\x1a', '\\': '\\', "'": "'", '"': '"'}


def tokenize(sql, with_params=False):
    """with_params: the text is a pymysql template, `%s` are parameters and `%%` a literal percent."""
    toks = []
    i = 0
    n = len(sql)
    nparam = 0
    while i < n:
        c = sql[i]
        if c in ' \t\r\n':
            i += 1
            continue
        if c == '#':
            j = sql.find('\n', i)
            i = n if j < 0 else j + 1
            continue
        if c == '-' and sql.startswith('--', i) and (i + 2 >= n or sql[i + 2] in ' \t\r\n'):
            j = sql.find('\n', i)
            i = n if j < 0 else j + 1
            continue
        if c == '/' and sql.startswith('/*', i):
            j = sql.find('*/', i + 2)
            if j < 0:
                raise Unsupported('unterminated comment')
            i = j + 2
            continue
        if c == '`':
            j = sql.find('`', i + 1)
            if j < 0:
                raise Unsupported('unterminated quoted identifier')
            toks.append(Tok(QIDENT, sql[i + 1:j], None, i, j + 1))
            i = j + 1
            continue
        if c == "'" or c == '"':
            q = c
            j = i + 1
            buf = []
            while True:
                if j >= n:
                    raise Unsupported('unterminated string literal')
                d = sql[j]
                if d == '\\':
                    if j + 1 >= n:
                        raise Unsupported('bad escape')
                    e = sql[j + 1]
                    if e in _ESC:
                        buf.append(_ESC[e])
                    elif e in '%_':
                        buf.append('\\' + e)
                    else:
                        buf.append(e)
                    j += 2
                    continue
                if d == q:
                    if j + 1 < n and sql[j + 1] == q:
                        buf.append(q)
                        j += 2
                        continue
                    break
                if d == '%' and with_params:
                    if j + 1 < n and sql[j + 1] == '%':
                        buf.append('%')
                        j += 2
                        continue
                    raise Unsupported('parameter placeholder or bare % inside a string literal of a parametrised statement')
                buf.append(d)
                j += 1
            toks.append(Tok(STR, ''.join(buf), None, i, j + 1))
            i = j + 1
            continue
        if c.isdigit() or (c == '.' and i + 1 < n and sql[i + 1].isdigit()):
            j = i
            isfloat = False
            while j < n and sql[j].isdigit():
                j += 1
            if j < n and sql[j] == '.' and not (j + 1 < n and (sql[j + 1].isalpha() or sql[j + 1] == '_' or sql[j + 1] == '`')):
                isfloat = True
                j += 1
                while j < n and sql[j].isdigit():
                    j += 1
            if j < n and sql[j] in 'eE' and (j + 1 < n and (sql[j + 1].isdigit() or sql[j + 1] in '+-')):
                isfloat = True
                j += 2
                while j < n and sql[j].isdigit():
                    j += 1
            if j < n and (sql[j].isalpha() or sql[j] == '_'):
                raise Unsupported(f'identifier starting with a digit near {sql[i:j + 5]!r}')
            txt = sql[i:j]
            toks.append(Tok(NUM, float(txt) if isfloat else int(txt), None, i, j))
            i = j
            continue
        if c.isalpha() or c == '_' or c == '$':
            j = i + 1
            while j < n and (sql[j].isalnum() or sql[j] in '_$'):
                j += 1
            w = sql[i:j]
            toks.append(Tok(WORD, w, w.upper(), i, j))
            i = j
            continue
        if c == '@':
            j = i + 1
            if j < n and sql[j] == '@':
                raise Unsupported('system variables (@@x)')
            while j < n and (sql[j].isalnum() or sql[j] in '_$.'):
                j += 1
            if j == i + 1:
                raise Unsupported('bare @')
            toks.append(Tok(UVAR, sql[i + 1:j].lower(), None, i, j))
            i = j
            continue
        if c == '%' and with_params:
            if sql.startswith('%s', i):
                toks.append(Tok(PARAM, nparam, None, i, i + 2))
                nparam += 1
                i += 2
                continue
            if sql.startswith('%%', i):
                toks.append(Tok(OP, '%', '%', i, i + 2))
                i += 2
                continue
            raise Unsupported(f'unsupported % format near {sql[i:i + 10]!r}')
        if sql[i:i + 3] in _OPS3:
            toks.append(Tok(OP, sql[i:i + 3], sql[i:i + 3], i, i + 3))
            i += 3
            continue
        if sql[i:i + 2] in _OPS2:
            toks.append(Tok(OP, sql[i:i + 2], sql[i:i + 2], i, i + 2))
            i += 2
            continue
        if c in _OPS1:
            toks.append(Tok(OP, c, c, i, i + 1))
            i += 1
            continue
        raise Unsupported(f'unexpected character {c!r} at {i}: {sql[max(0, i - 20):i + 20]!r}')
    toks.append(Tok(EOF, None, None, n, n))
    return toks, nparam


def split_script(text):
    """Split a migration file into statements, honouring DELIMITER commands, strings and comments.
    Returns a list of statement texts (without the delimiter)."""
    out = []
    delim = ';'
    i = 0
    n = len(text)
    start = 0
    at_line_start = True
    while i < n:
        c = text[i]
        if at_line_start:
            # DELIMITER command (client-side) must start a line
            j = i
            while j < n and text[j] in ' \t':
                j += 1
            if text[j:j + 9].upper() == 'DELIMITER' and (j + 9 < n and text[j + 9] in ' \t'):
                pending = text[start:i].strip()
                if pending:
                    out.append(pending)
                k = text.find('\n', j)
                if k < 0:
                    k = n
                delim = text[j + 9:k].strip()
                if not delim:
                    raise Unsupported('empty DELIMITER')
                i = k + 1
                start = i
                at_line_start = True
                continue
        at_line_start = False
        if c == '\n':
            at_line_start = True
            i += 1
            continue
        if c == '#' or (c == '-' and text.startswith('-- ', i)):
            k = text.find('\n', i)
            i = n if k < 0 else k
            continue
        if c == '/' and text.startswith('/*', i):
            k = text.find('*/', i + 2)
            i = n if k < 0 else k + 2
            continue
        if c in '\'"`':
            k = i + 1
            while k < n:
                if text[k] == '\\' and c != '`':
                    k += 2
                    continue
                if text[k] == c:
                    if k + 1 < n and text[k + 1] == c:
                        k += 2
                        continue
                    break
                k += 1
            i = k + 1
            continue
        if text.startswith(delim, i):
            stmt = text[start:i].strip()
            if stmt:
                out.append(stmt)
            i += len(delim)
            start = i
            continue
        i += 1
    tail = text[start:].strip()
    if tail:
        out.append(tail)
    return [x for x in (_strip_leading_comments(o) for o in out) if x]


def _strip_leading_comments(st):
    while True:
        st = st.lstrip()
        if st.startswith('#') or st.startswith('-- '):
            k = st.find('\n')
            st = '' if k < 0 else st[k + 1:]
        elif st.startswith('/*'):
            k = st.find('*/')
            st = '' if k < 0 else st[k + 2:]
        else:
            return st
