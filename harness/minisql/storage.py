"""In-memory tables with unique keys, clustered (primary-key) row order, lazily built hash indexes and an undo log."""
import bisect

from .errors import Unsupported
from .values import stored_key


class Table:
    def __init__(self, defn):
        self.defn = defn
        self.name = defn.name
        self.cols = defn.columns
        self.ncols = len(self.cols)
        self.colidx = {c.name.lower(): i for i, c in enumerate(self.cols)}
        self.coltypes = [c.type for c in self.cols]
        self.rows = []            # row = python list; kept in primary-key order (InnoDB clustered index scan order)
        self._sortkeys = []       # parallel list of normalised pk tuples (only when the table has a pk)
        self.keys = []            # [(name, idxs, dict)]   primary first
        if defn.pk:
            self.pk_idxs = tuple(self.colidx[c.lower()] for c in defn.pk)
            self.keys.append(('PRIMARY', self.pk_idxs, {}))
        else:
            self.pk_idxs = None
        for kname, cols in defn.uniques:
            self.keys.append((kname, tuple(self.colidx[c.lower()] for c in cols), {}))
        self.auto_idx = None
        for c in self.cols:
            if c.auto_inc:
                self.auto_idx = c.idx
        self.auto_next = 1
        self.version = 0
        self._hidx = {}           # idxs -> (version, {key: [rows]})
        self.defaults = [c.default if not isinstance(c.default, tuple) else None for c in self.cols]
        self.fks = []             # [(child idxs, parent Table, parent idxs, on_delete)]  filled by the engine
        self.children = []        # [(child Table, child idxs, my idxs, on_delete)]

    def clear(self):
        self.rows = []
        self._sortkeys = []
        for _n, _i, d in self.keys:
            d.clear()
        self.auto_next = 1
        self.version += 1
        self._hidx = {}

    def key_of(self, row, idxs):
        """Normalised key tuple, or None when a component is NULL (NULLs never collide in unique keys)."""
        out = []
        types = self.coltypes
        for i in idxs:
            v = row[i]
            if v is None:
                return None
            out.append(stored_key(types[i], v))
        return tuple(out)

    def find_conflict(self, row, exclude=None):
        """First unique key (primary first) on which `row` collides with an existing row != exclude."""
        for name, idxs, d in self.keys:
            k = self.key_of(row, idxs)
            if k is None:
                continue
            r = d.get(k)
            if r is not None and r is not exclude:
                return name, k, r
        return None

    def raw_insert(self, row):
        if self.pk_idxs is not None:
            sk = self.key_of(row, self.pk_idxs)
            pos = bisect.bisect_right(self._sortkeys, sk)
            self._sortkeys.insert(pos, sk)
            self.rows.insert(pos, row)
        else:
            self.rows.append(row)
        for _n, idxs, d in self.keys:
            k = self.key_of(row, idxs)
            if k is not None:
                d[k] = row
        self.version += 1

    def raw_delete(self, row):
        if self.pk_idxs is not None:
            sk = self.key_of(row, self.pk_idxs)
            pos = bisect.bisect_left(self._sortkeys, sk)
            while pos < len(self.rows) and self.rows[pos] is not row:
                pos += 1
            if pos >= len(self.rows):
                raise AssertionError('row not found in clustered order')
            del self.rows[pos]
            del self._sortkeys[pos]
        else:
            for pos, r in enumerate(self.rows):
                if r is row:
                    del self.rows[pos]
                    break
            else:
                raise AssertionError('row not found')
        for _n, idxs, d in self.keys:
            k = self.key_of(row, idxs)
            if k is not None and d.get(k) is row:
                del d[k]
        self.version += 1

    def raw_update(self, row, newvals):
        """Overwrite row in place with newvals (same object identity)."""
        keychange = False
        for _n, idxs, _d in self.keys:
            for i in idxs:
                if row[i] != newvals[i]:
                    keychange = True
        if keychange:
            self.raw_delete(row)
            row[:] = newvals
            self.raw_insert(row)
        else:
            row[:] = newvals
            self.version += 1

    def hash_index(self, idxs):
        ent = self._hidx.get(idxs)
        if ent is not None and ent[0] == self.version:
            return ent[1]
        d = {}
        types = self.coltypes
        for row in self.rows:
            k = []
            for i in idxs:
                v = row[i]
                if v is None:
                    k = None
                    break
                k.append(stored_key(types[i], v))
            if k is None:
                continue
            k = tuple(k)
            b = d.get(k)
            if b is None:
                d[k] = [row]
            else:
                b.append(row)
        self._hidx[idxs] = (self.version, d)
        return d


class UndoLog:
    """Per-connection undo log; entries are applied in reverse on rollback.  A statement records a mark and rolls back to it
    on error (statement atomicity)."""

    def __init__(self):
        self.entries = []

    def mark(self):
        return len(self.entries)

    def log_insert(self, table, row):
        self.entries.append(('i', table, row, None))

    def log_delete(self, table, row):
        self.entries.append(('d', table, row, None))

    def log_update(self, table, row, old):
        self.entries.append(('u', table, row, old))

    def log_auto(self, table, old_next):
        self.entries.append(('a', table, old_next, None))

    def rollback_to(self, mark):
        ents = self.entries
        while len(ents) > mark:
            kind, table, row, old = ents.pop()
            if kind == 'i':
                table.raw_delete(row)
            elif kind == 'd':
                table.raw_insert(row)
            elif kind == 'u':
                table.raw_update(row, old)
            elif kind == 'a':
                # InnoDB does NOT roll back auto-increment counters; keep the gap (documented)
                pass
            else:
                raise Unsupported('undo kind')

    def clear(self):
        self.entries = []
