"""Run the real BatchFormatVersion.db_spec / get_spec_* (batch/batch/batch_format_version.py) with a real JSON round trip in
between, and the real regions_to_bits_rep / regions_bits_rep_to_regions (batch/batch/utils.py).

in : {"specs": [{"v": int, "spec": {...}}], "regions": [{"sel": [str], "mapping": [[str, int]], "bits": null|int (optional: decode only)}]}
out: {"specs": [{"db":..., "stored":..., "secrets":..., "service_account":..., "has_input_files":..., "has_output_files":..., "machine_spec":...}],
      "regions": [{"bits":..., "decoded":...}]}        a raised exception is reported as {"raises": "ExcName"}
"""
import copy
import json
import sys

import hailload
hailload.install()
from batch.batch_format_version import BatchFormatVersion  # noqa: E402
from batch import utils  # noqa: E402


def guard(f):
    try:
        return f()
    except Exception as e:  # noqa
        return {'raises': type(e).__name__}


def main():
    req = json.load(sys.stdin)
    out = {'specs': [], 'regions': []}
    for c in req.get('specs', []):
        fv = BatchFormatVersion(c['v'])
        spec = copy.deepcopy(c['spec'])
        db = guard(lambda: fv.db_spec(spec))
        r = {'db': db}
        if isinstance(db, dict) and 'raises' in db and len(db) == 1:
            out['specs'].append(r)
            continue
        stored = json.loads(json.dumps(db))          # what the jobs.spec column holds / gives back
        r['stored_equals_db'] = (stored == db)
        r['secrets'] = guard(lambda: fv.get_spec_secrets(copy.deepcopy(stored)))
        r['service_account'] = guard(lambda: fv.get_spec_service_account(copy.deepcopy(stored)))
        r['has_input_files'] = guard(lambda: fv.get_spec_has_input_files(copy.deepcopy(stored)))
        r['has_output_files'] = guard(lambda: fv.get_spec_has_output_files(copy.deepcopy(stored)))
        r['machine_spec'] = guard(lambda: fv.get_spec_machine_spec(copy.deepcopy(stored)))
        r['spec_unchanged'] = (spec == c['spec'])
        out['specs'].append(r)
    for c in req.get('regions', []):
        mapping = {k: v for k, v in c['mapping']}
        if c.get('decode_only'):
            bits = c['bits']
        else:
            bits = guard(lambda: utils.regions_to_bits_rep(list(c['sel']), mapping))
        if isinstance(bits, dict):
            out['regions'].append({'bits': bits})
            continue
        dec = guard(lambda: utils.regions_bits_rep_to_regions(bits, mapping))
        out['regions'].append({'bits': bits, 'decoded': dec})
    json.dump(out, sys.stdout)


main()
