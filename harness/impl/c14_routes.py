"""C14 implementation side: drive the REAL batch front-end handlers (full decorator stacks as registered) and the REAL
gear.auth decorators with fake requests, a fake auth service and a fake database.

Modes (JSON on stdin):
  {"mode": "routes"}                      -> every route registered by the real `run()` (web.run_app intercepted)
  {"mode": "decorators", "exprs": [...]}  -> apply each decorator expression (evaluated in the front_end namespace) to a probe
                                             handler and report, for all 64 (caller, ctx) combinations, whether the probe ran
  {"mode": "run", "routes": [[verb, path]...]|null, "explore": bool, "depth": n}
                                          -> call each route handler for all 64 (caller, ctx); outcome per case

The fake database knows ONE batch (id 1, owner = caller iff ctx.owner, billing project 'bp', caller in bp iff ctx.member).
A SELECT whose text compares a user column with a `%s` placeholder is answered according to that world (row / no row);
any other SELECT is answered by a scripted bool (row exists / does not exist; default exists) so that `explore` can
enumerate the database states the handler can distinguish.  The first statement that would WRITE ends the run with
outcome "write".
"""
import asyncio
import json
import os
import re
import sys
import warnings

warnings.simplefilter('ignore')
import hailload  # noqa: E402

hailload.install()
os.environ.setdefault('PORT', '5000')

import aiohttp  # noqa: E402
import aiohttp_session  # noqa: E402  (stub package)
from aiohttp import web  # noqa: E402
from aiohttp.test_utils import make_mocked_request  # noqa: E402
from multidict import CIMultiDict  # noqa: E402

import gear.auth as gauth  # noqa: E402
import web_common.web_common as wc  # noqa: E402

wc.sass_compile = lambda module_name: None     # never touch the repo tree
import batch.front_end.front_end as fe  # noqa: E402

BATCH_ID = 1


# ------------------------------------------------------------------------------------------------ callers / world

def caller_of(bits):
    authenticated, active, developer, is_auth = bits
    return dict(authenticated=authenticated, active=active, developer=developer, is_auth=is_auth)


# names an ordinary (non-service) account may have that a sloppy comparison with 'auth' could confuse
LOOKALIKE_USERNAMES = ['a', 'au', 'th', 'aut', 'uth', 'auth2', 'xauth', 'AUTH', 'Auth', 'auth ', ' auth', 'auth\n', 'authx', '']


def username_of(c):
    if c.get('username') is not None:
        return c['username']
    return 'auth' if c['is_auth'] else 'alice'


def session_id_of(c):
    if not c['authenticated']:
        # two unauthenticated flavours: an unknown bearer token for developer=1, nothing at all for developer=0
        return 'bogus-session' if c['developer'] else None
    sid = 'sid-%d%d%d' % (c['active'], c['developer'], c['is_auth'])
    if c.get('username') is not None:
        sid += '-u%d' % LOOKALIKE_USERNAMES.index(c['username'])
    return sid


def userdata_of(c):
    return {'id': 7, 'state': 'active' if c['active'] else 'inactive', 'username': username_of(c), 'login_id': 'l',
            'namespace_name': 'ns', 'is_developer': 1 if c['developer'] else 0, 'is_service_account': 0,
            'hail_credentials_secret_name': 'creds', 'tokens_secret_name': 'tokens'}


ALL_BOOL4 = [(a, b, c, d) for a in (False, True) for b in (False, True) for c in (False, True) for d in (False, True)]
ALL_CTX = [(o, m) for o in (False, True) for m in (False, True)]


class FakeAuthClient:
    """Stands for the auth service behind gear.auth.impersonate_user."""

    def __init__(self):
        self.sessions = {}
        for bits in ALL_BOOL4:
            c = caller_of(bits)
            if c['authenticated']:
                self.sessions[session_id_of(c)] = userdata_of(c)
                if not c['is_auth']:
                    for u in LOOKALIKE_USERNAMES:
                        cu = dict(c, username=u)
                        self.sessions[session_id_of(cu)] = userdata_of(cu)

    async def get_read_json(self, url, headers=None, **kw):
        tok = (headers or {}).get('Authorization', '')
        sid = tok[len('Bearer '):] if tok.startswith('Bearer ') else None
        if sid in self.sessions:
            if url.endswith('/api/v1alpha/userinfo'):
                return dict(self.sessions[sid])
            return {'has_permission': False}
        raise aiohttp.ClientResponseError(None, (), status=401, message='unauthorized')

    def __getattr__(self, n):
        raise AttributeError(n)


AUTH_CLIENT = FakeAuthClient()


async def fake_get_session(request):
    return request.get('_verif_session', {})


aiohttp_session.get_session = fake_get_session
aiohttp_session.new_session = fake_get_session


class WriteReached(BaseException):
    pass


class Rec(dict):
    DEFAULTS = {'committed': 0, 'cancelled': 0, 'deleted': 0, 'closed': 0, 'state': 'running', 'format_version': 7,
                'status': None, 'spec': None, 'attributes': None, 'n_jobs': 1, 'n_job_groups': 0, 'user': 'bob',
                'billing_project': 'bp', 'time_created': 1, 'time_completed': None, 'time_closed': 1, 'cost': 0.0,
                'cost_breakdown': None, 'msec_mcpu': 0, 'token': 'tok', 'limit': None, 'users': None, 'accrued_cost': 0.0}

    def __missing__(self, k):
        return self.DEFAULTS.get(k, 1)

    def get(self, k, d=None):
        return self[k]

    def __contains__(self, k):
        return True

    def __bool__(self):
        return True


_COND = re.compile(r'([`\w.]+)\s*=\s*%s')


def user_filters(sql, args):
    """[(kind, value)] for every `<user column> = %s` in the statement; kind in owner|member."""
    out = []
    if args is None:
        args = ()
    if not isinstance(args, (tuple, list)):
        args = (args,)
    pos = [m.start() for m in re.finditer(r'%s', sql)]
    for m in _COND.finditer(sql):
        col = m.group(1).replace('`', '').lower()
        idx = pos.index(m.end() - 2)
        last = col.split('.')[-1]
        tbl = col.split('.')[0] if '.' in col else ''
        if last == 'user_cs' or (last == 'user' and tbl == 'billing_project_users'):
            kind = 'member'
        elif last == 'user':
            kind = 'owner'
        else:
            continue
        out.append((kind, args[idx] if idx < len(args) else None))
    return out


class FakeDB:
    def __init__(self, caller, ctx, answers):
        self.caller = caller
        self.owner_name = username_of(caller) if ctx[0] else 'bob'
        self.members = {'bob'} | ({username_of(caller)} if ctx[1] else set())
        self.answers = list(answers)
        self.n_unfiltered = 0
        self.filter_denied = False
        self.filter_passed = False
        self.log = []

    # -- classification
    def _is_read(self, sql):
        s = sql.strip().upper()
        return s.startswith('SELECT') or s.startswith('WITH') or s.startswith('(SELECT')

    def _answer(self, kind, sql, args):
        short = ' '.join(sql.split())[:90]
        if not self._is_read(sql):
            self.log.append(['WRITE', kind, short])
            raise WriteReached(short)
        # a comparison of a user column with the CALLER's name is an access filter; with any other value it is data
        fs = [(k, v) for k, v in user_filters(sql, args) if v == username_of(self.caller)]
        if fs:
            ok = all((v == self.owner_name) if k == 'owner' else (v in self.members) for k, v in fs)
            self.log.append(['SELECT-user-filtered', [k for k, _ in fs], ok, short])
            if ok:
                self.filter_passed = True
            else:
                self.filter_denied = True
            return ok
        i = self.n_unfiltered
        self.n_unfiltered += 1
        ok = self.answers[i] if i < len(self.answers) else True
        self.log.append(['SELECT', ok, short])
        return ok

    # -- gear.Database / Transaction surface
    def start(self, read_only=False):
        db = self

        class _Ctx:
            async def __aenter__(self_):
                return db

            async def __aexit__(self_, *a):
                return False
        return _Ctx()

    async def just_execute(self, sql, args=None):
        self._answer('just_execute', sql, args)

    async def execute_and_fetchone(self, sql, args=None, query_name=None):
        return Rec() if self._answer('fetchone', sql, args) else None

    select_and_fetchone = execute_and_fetchone

    async def execute_and_fetchall(self, sql, args=None, query_name=None):
        if self._answer('fetchall', sql, args):
            yield Rec()

    select_and_fetchall = execute_and_fetchall

    async def execute_insertone(self, sql, args=None, *, query_name=None):
        self.log.append(['WRITE', 'insertone', ' '.join(sql.split())[:90]])
        raise WriteReached(sql)

    async def execute_update(self, sql, args=None, query_name=None):
        self.log.append(['WRITE', 'update', ' '.join(sql.split())[:90]])
        raise WriteReached(sql)

    async def execute_many(self, sql, args_array, query_name=None):
        self.log.append(['WRITE', 'many', ' '.join(sql.split())[:90]])
        raise WriteReached(sql)

    async def check_call_procedure(self, sql, args=None, query_name=None):
        self.log.append(['WRITE', 'call', ' '.join(sql.split())[:90]])
        raise WriteReached(sql)


class Anything:
    """Permissive stand-in for app members the access-control path does not depend on."""

    def __getattr__(self, n):
        if n.startswith('__'):
            raise AttributeError(n)
        return Anything()

    def __call__(self, *a, **k):
        return Anything()

    def __await__(self):
        async def f():
            return Anything()
        return f().__await__()

    def __iter__(self):
        return iter(())

    def __getitem__(self, k):
        return Anything()

    def keys(self):
        return []


class FakeApp(dict):
    def __missing__(self, k):
        return Anything()

    router = Anything()


VALID_JOB = {'job_id': 1, 'process': {'type': 'docker', 'command': ['true'], 'image': 'ubuntu'}, 'parent_ids': [],
             'always_run': False}
VALID_GROUP = {'job_group_id': 1, 'absolute_parent_id': 0}


def bodies_for(path):
    """Request bodies to try (valid for the handler's own validation so that control reaches the owner filter)."""
    if path.endswith('/update-fast'):
        upd = {'token': 'tok', 'n_jobs': 1, 'n_job_groups': 1}
        return [{'update': upd, 'bunch': [VALID_JOB], 'job_groups': [VALID_GROUP]},
                {'update': upd, 'bunch': [VALID_JOB], 'job_groups': []},
                {'update': upd, 'bunch': [], 'job_groups': []}]
    if path.endswith('/updates/create'):
        return [{'token': 'tok', 'n_jobs': 1, 'n_job_groups': 0}]
    if path.endswith('/job-groups/create'):
        return [[VALID_GROUP]]
    if path.endswith('/jobs/create'):
        return [[VALID_JOB]]
    if path.endswith('/create-fast'):
        return [{'batch': {'billing_project': 'bp', 'n_jobs': 1, 'token': 'tok'}, 'bunch': [VALID_JOB]}]
    if path.endswith('/batches/create'):
        return [{'billing_project': 'bp', 'n_jobs': 1, 'token': 'tok'}]
    return [None]


def make_request(method, path, caller, ctx, db, body):
    concrete = (path.replace('{batch_id}', str(BATCH_ID)).replace('{job_id}', '1').replace('{job_group_id}', '1')
                .replace('{update_id}', '1').replace('{container}', 'main').replace('{billing_project}', 'bp')
                .replace('{user}', 'carol').replace('{filename}', 'x.js'))
    mi = {}
    for k, v in (('batch_id', str(BATCH_ID)), ('job_id', '1'), ('job_group_id', '1'), ('update_id', '1'), ('container', 'main'),
                 ('billing_project', 'bp'), ('user', 'carol'), ('filename', 'x.js')):
        if '{' + k + '}' in path:
            mi[k] = v
    headers = CIMultiDict()
    sid = session_id_of(caller)
    session = {}
    if sid is not None:
        if caller['is_auth'] or not caller['authenticated']:
            headers['Authorization'] = 'Bearer ' + sid      # API style
        else:
            session['session_id'] = sid                     # browser style
    app = FakeApp()
    app['db'] = db
    app['frozen'] = False
    app[gauth.CommonAiohttpAppKeys.CLIENT_SESSION] = AUTH_CLIENT
    payload = None
    if body is not None:
        from aiohttp.streams import StreamReader
        from unittest import mock
        data = json.dumps(body).encode()
        protocol = mock.Mock(_reading_paused=False)
        payload = StreamReader(protocol, 2 ** 16, loop=asyncio.get_event_loop())
        payload.feed_data(data)
        payload.feed_eof()
        headers['Content-Type'] = 'application/json'
    kw = dict(headers=headers, match_info=mi, app=app)
    if payload is not None:
        kw['payload'] = payload
    req = make_mocked_request(method, concrete or '/', **kw)
    req['_verif_session'] = session
    return req


def is_login_redirect(e):
    loc = getattr(e, 'location', None) or e.headers.get('Location', '')
    return '/user' in str(loc) or '/login' in str(loc)


def innermost_code(handler):
    f = handler
    seen = 0
    while hasattr(f, '__wrapped__') and seen < 50:
        f = f.__wrapped__
        seen += 1
    return getattr(f, '__code__', None)


async def run_one(handler, method, path, caller, ctx, answers, body):
    db = FakeDB(caller, ctx, answers)
    req = make_request(method, path, caller, ctx, db, body)
    code = innermost_code(handler)
    reached = {'v': False}

    def prof(frame, event, arg):
        if event == 'call' and frame.f_code is code:
            reached['v'] = True
    try:
        sys.setprofile(prof)
        try:
            resp = await handler(req)
        finally:
            sys.setprofile(None)
        outcome = 'ok:%s' % getattr(resp, 'status', '?')
    except WriteReached:
        outcome = 'write'
    except web.HTTPException as e:
        outcome = 'http:%d' % e.status
        if e.status in (301, 302, 303, 307, 308):
            outcome += ':login' if is_login_redirect(e) else ':other'
    except asyncio.TimeoutError:
        outcome = 'crash:Timeout'
    except BaseException as e:  # noqa
        if isinstance(e, (KeyboardInterrupt, SystemExit)):
            raise
        outcome = 'crash:' + type(e).__name__
    wrote = any(l[0] == 'WRITE' for l in db.log)
    is_err = outcome.startswith('http:4') or outcome.endswith(':login')
    # access was refused: an HTTP error, nothing written, and the refusal is attributable to an access check --
    # either the decorator stack never entered the handler body, or a SELECT filtered on the caller's name came back empty
    denied = is_err and not wrote and ((not reached['v']) or db.filter_denied)
    return {'outcome': outcome, 'denied': denied, 'body_reached': reached['v'], 'filter_denied': db.filter_denied,
            'wrote': wrote, 'n_unfiltered': db.n_unfiltered, 'log': db.log[:12]}


# ------------------------------------------------------------------------------------------------ registered routes

_APP = None


def real_app():
    """Run the real `run()` with the server start intercepted; returns the aiohttp Application it built."""
    global _APP
    if _APP is not None:
        return _APP
    captured = {}

    def fake_run_app(app, **kw):
        captured['app'] = app

    saved = (web.run_app,)
    web.run_app = fake_run_app
    fe.install_profiler_if_requested = lambda *a, **k: None
    fe.setup_aiohttp_session = lambda app: None
    fe.setup_aiohttp_jinja2 = lambda *a, **k: None
    fe.deploy_config.server_ssl_context = lambda: None
    loop = asyncio.new_event_loop()
    asyncio.set_event_loop(loop)
    try:
        fe.run()
    finally:
        web.run_app = saved[0]
    _APP = captured['app']
    return _APP


def registered():
    """[(method, canonical path, handler or None for static, handler name)] of the real application (HEAD twins dropped)."""
    app = real_app()
    out = []

    def walk(app_, prefix):
        for res in app_.router.resources():
            canon = res.canonical
            if isinstance(res, web.StaticResource):
                out.append(('STATIC', canon, None, 'static'))
                continue
            sub = getattr(res, '_app', None)
            if sub is not None and sub is not app_:
                walk(sub, canon)
                continue
            methods = {r.method: r for r in res}
            for m, r in methods.items():
                if m == 'HEAD' and 'GET' in methods:
                    continue
                out.append((m, canon, r.handler, getattr(r.handler, '__name__', type(r.handler).__name__)))
    walk(app, '')
    return out


# ------------------------------------------------------------------------------------------------ modes

async def mode_decorators(req):
    res = {}
    for expr in req['exprs']:
        dec = eval(expr, fe.__dict__)                                     # the real decorator object
        hit = {'v': False}

        async def probe(request, *args, **kwargs):
            hit['v'] = True
            return web.Response()
        wrapped = dec(probe)
        rows = []
        for bits in ALL_BOOL4:
            for ctx in ALL_CTX:
                caller = caller_of(bits)
                rowres = []
                for path in ('/api/v1alpha/batches/{batch_id}', '/batches/{batch_id}'):
                    hit['v'] = False
                    db = FakeDB(caller, ctx, [])
                    r = make_request('GET', path, caller, ctx, db, None)
                    # transparent decorators pass extra positional arguments through: supply userdata like the auth layer does
                    try:
                        try:
                            await wrapped(r)
                        except TypeError:
                            await wrapped(r, userdata_of(caller))
                        out = 'ok'
                    except web.HTTPException as e:
                        out = 'http:%d' % e.status
                    except BaseException as e:  # noqa
                        out = 'crash:' + type(e).__name__
                    rowres.append([hit['v'], out])
                rows.append({'caller': list(bits), 'ctx': list(ctx), 'ran': rowres[0][0] and rowres[1][0],
                             'ran_any': rowres[0][0] or rowres[1][0], 'out': [rowres[0][1], rowres[1][1]]})
        res[expr] = rows
    return res


async def mode_run(req):
    want = req.get('routes')
    want = None if want is None else {tuple(x) for x in want}
    explore = bool(req.get('explore'))
    depth = int(req.get('depth', 3))
    callers = req.get('callers')
    usernames = LOOKALIKE_USERNAMES if req.get('lookalikes') else None
    out = []
    for method, path, handler, name in registered():
        if want is not None and (method, path) not in want:
            continue
        if handler is None:
            out.append({'method': method, 'path': path, 'name': name, 'static': True, 'cases': []})
            continue
        cases = []
        for bits in ALL_BOOL4:
            for ctx in ALL_CTX:
                if callers is not None and [list(bits), list(ctx)] not in callers:
                    continue
                variants = [None]
                if usernames and not bits[3]:
                    variants += list(usernames)
                for uname in variants:
                    caller = caller_of(bits)
                    if uname is not None:
                        caller['username'] = uname
                    for bi, body in enumerate(bodies_for(path)):
                        if uname is not None and bi > 0:
                            continue
                        queue = [[]]
                        seen = 0
                        while queue and seen < (2 ** depth if uname is None else 2):
                            answers = queue.pop(0)
                            seen += 1
                            r = await run_one(handler, method, path, caller, ctx, answers, body)
                            cases.append({'caller': list(bits), 'ctx': list(ctx), 'body': bi, 'answers': answers, **r,
                                          **({'username': uname} if uname is not None else {})})
                            if explore:
                                for i in range(len(answers), min(r['n_unfiltered'], depth)):
                                    queue.append(answers + [True] * (i - len(answers)) + [False])
        out.append({'method': method, 'path': path, 'name': name, 'static': False, 'cases': cases})
    return out


def main():
    req = json.load(sys.stdin)
    mode = req['mode']
    loop_needed = True
    if mode == 'routes':
        res = [{'method': m, 'path': p, 'name': n} for m, p, _, n in registered()]
    elif mode == 'decorators':
        real_app()
        res = asyncio.get_event_loop().run_until_complete(mode_decorators(req))
    elif mode == 'run':
        real_app()
        res = asyncio.get_event_loop().run_until_complete(mode_run(req))
    else:
        raise SystemExit('unknown mode')
    json.dump({'result': res, 'stubs_touched': len(hailload.TOUCHED)}, sys.stdout)


if __name__ == "__main__":
    main()
