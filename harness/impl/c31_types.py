"""C31 implementation side: the REAL str(t), t._parsable_string(), hl.dtype(str(t)), escape_parsable, unescape_parsable of
$VERIF_REPO, plus Python's own \\w / \\s classification of the code points that occur (the Coq model is parametric in it).
`hl.get_reference` is replaced by a registry of harness-built reference genomes (no backend)."""
import json
import re
import sys

import hail_values as HV
from hail_values import mk_type, desc_type, describe_exception, cps, uncps
import hail as hl
from hail.utils.java import escape_parsable, unescape_parsable

hl.get_reference = lambda name: HV.reference(name)


def classes(text_cps):
    out = {}
    for c in set(text_cps):
        if c >= 128:
            ch = chr(c)
            out[str(c)] = [bool(re.fullmatch(r'\w', ch)), bool(re.fullmatch(r'\s', ch))]
    return out


def names_of(t, acc):
    k = HV.kind(t)
    if k == 'locus':
        acc.append(t[1])
    elif k in ('interval', 'array', 'set', 'stream', 'ndarray'):
        names_of(t[1], acc)
    elif k == 'dict':
        names_of(t[1], acc)
        names_of(t[2], acc)
    elif k == 'struct':
        for n, ft in t[1]:
            acc.append(n)
            names_of(ft, acc)
    elif k == 'tuple':
        for x in t[1]:
            names_of(x, acc)
    return acc


def run_type(t):
    out = {}
    ht = mk_type(t)
    allc = [c for n in names_of(t, []) for c in n]
    out['classes'] = classes(allc)
    try:
        s = str(ht)
        out['str'] = cps(s)
        out['parsable'] = cps(ht._parsable_string())
    except Exception as e:  # noqa: BLE001
        out['show_exc'] = describe_exception(e)
        return out
    try:
        back = hl.dtype(s)
        out['parsed'] = desc_type(back)
        out['eq'] = bool(back == ht) and bool(ht == back)
    except Exception as e:  # noqa: BLE001
        out['parse_exc'] = describe_exception(e)
    return out


def run_name(n):
    s = uncps(n)
    out = {'classes': classes(n)}
    try:
        e = escape_parsable(s)
        out['escaped'] = cps(e)
        if e.startswith('`') and len(e) >= 2 and e != s:
            out['unescaped'] = cps(unescape_parsable(e[1:-1]))
    except Exception as ex:  # noqa: BLE001
        out['exc'] = describe_exception(ex)
    return out


def main():
    req = json.load(sys.stdin)
    res = []
    for c in req['cases']:
        try:
            res.append(run_type(c['t']) if 't' in c else run_name(c['name']))
        except Exception as e:  # noqa: BLE001
            res.append({'build_exc': describe_exception(e)})
    json.dump({'results': res}, sys.stdout)


main()
