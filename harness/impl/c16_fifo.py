"""Run the REAL batch.semaphore.FIFOWeightedSemaphore (through its context manager, as worker.Job.run does) on DetLoop
schedules and report (a) the observable trace after every Settle and (b) the property evaluated directly on what the
jobs experienced (no semaphore internals).

stdin : {"schedules": [{"cap": c, "acts": [["a", w] | ["r", i] | ["s"], ...]}, ...]}
stdout: {"results": [{"trace": [[value, [[id, w], ...], [sorted holding ids], [entry order]], ...], "viol": [...]}, ...]}
"""
import json
import sys

import hailload
hailload.install()
import asyncio  # noqa: E402

from aio.detloop import DetLoop  # noqa: E402
from batch.semaphore import FIFOWeightedSemaphore  # noqa: E402


def run_schedule(dl, cap, acts):
    sem = FIFOWeightedSemaphore(cap)
    tasks, weights, gates, gate_set = [], [], [], []
    entered, inbody = [], []
    viol = []
    trace = []

    waited = set()
    last = [None]

    async def job(i, w):
        last[0] = ('start', i)
        async with sem(w):
            if last[0] != ('start', i):       # something else ran in between: acquire suspended this job
                waited.add(i)
            last[0] = ('enter', i)
            entered.append(i)
            inbody.append(i)
            tot = sum(weights[j] for j in inbody)
            if tot > cap:
                viol.append({'kind': 'capacity', 'inbody': list(inbody), 'sum': tot, 'cap': cap})
            await gates[i].wait()
            last[0] = ('leave', i)
            inbody.remove(i)

    def queue_ids():
        out = []
        by_fut = {}                      # future a task is suspended on -> job id (large populations: one pass)
        for i, t in enumerate(tasks):
            f = getattr(t, '_fut_waiter', None)
            if f is not None:
                by_fut[id(f)] = i
        for ev, w in sem.queue:
            who = -1
            for fut in ev._waiters:
                who = by_fut.get(id(fut), who)
            out.append([who, w])
        return out

    for n, a in enumerate(acts):
        if a[0] == 'a':
            i = len(tasks)
            weights.append(a[1])
            gates.append(asyncio.Event())
            gate_set.append(False)
            tasks.append(dl.spawn(job(i, a[1])))
        elif a[0] == 'r':
            i = a[1]
            if i < len(tasks) and i in inbody and not gate_set[i]:
                gate_set[i] = True
                gates[i].set()
        elif a[0] == 's':
            dl.settle()
            holding = sorted(i for i in inbody if not gate_set[i])
            trace.append([sem.value, queue_ids(), holding, list(entered)])
            # ---- the property, from the jobs' point of view only
            free = cap - sum(weights[j] for j in inbody)
            if free < 0:
                viol.append({'kind': 'capacity', 'at': n, 'inbody': list(inbody), 'free': free})
            # FIFO: at a quiescent point the jobs let in so far are exactly the first k arrivals, and the jobs that
            # had to wait were let in in arrival order
            w_order = [i for i in entered if i in waited]
            if sorted(entered) != list(range(len(entered))) or w_order != sorted(w_order):
                viol.append({'kind': 'fifo', 'at': n, 'entered': list(entered), 'waited': sorted(waited)})
            entered_set = set(entered)
            blocked = [i for i, t in enumerate(tasks) if not t.done() and i not in entered_set]
            if blocked:
                h = min(blocked)
                if weights[h] <= free:
                    viol.append({'kind': 'lost-wakeup', 'at': n, 'head': h, 'weight': weights[h], 'free': free,
                                 'blocked': blocked})
            for i, t in enumerate(tasks):
                if t.done() and not t.cancelled() and t.exception() is not None:
                    viol.append({'kind': 'job-raised', 'at': n, 'job': i, 'exc': repr(t.exception())})
        else:
            raise ValueError(a)
    for t in tasks:
        if not t.done():
            t.cancel()
    dl.settle()
    for t in tasks:
        if t.done() and not t.cancelled():
            t.exception()
    # keep only the first violation of each kind
    seen, out = set(), []
    for v in viol:
        if v['kind'] not in seen:
            seen.add(v['kind'])
            out.append(v)
    return {'trace': trace, 'viol': out}


def main():
    req = json.load(sys.stdin)
    dl = DetLoop()
    out = []
    try:
        for sc in req['schedules']:
            out.append(run_schedule(dl, sc['cap'], sc['acts']))
    finally:
        dl.close()
    json.dump({'results': out}, sys.stdout)


main()
