"""Run the REAL hailtop.aiotools.weighted_semaphore.WeightedSemaphore (through acquire_manager, as the copier does)
on tick-level schedules.

stdin : {"schedules": [{"max": m, "acts": [["spawn", n] | ["exit", i, err] | ["cancel", i] | ["tick"], ...]}, ...], "probe": bool}
stdout: {"results": [{"trace": [obs after every action], "viol": [...]}]}
  obs = {"value": v, "events": [[n, job], ...], "jobs": [[n, status], ...], "ready": [job, ...]}
"""
import json
import sys

import hailload
hailload.install()
import asyncio  # noqa: E402

from aio.tickloop import TickLoop  # noqa: E402
from hailtop.aiotools.weighted_semaphore import WeightedSemaphore  # noqa: E402


class JobError(Exception):
    pass


def run_schedule(dl, maxv, acts, probe):
    sem = WeightedSemaphore(maxv)
    tasks, weights, gates = [], [], []
    started, entered, inbody = set(), set(), []
    gate_mode = {}          # job -> 'ok' | 'err' once its body was told to finish
    cancel_req = set()
    viol = []
    trace = []

    async def job(i, n):
        started.add(i)
        async with sem.acquire_manager(n):
            entered.add(i)
            inbody.append(i)
            tot = sum(weights[j] for j in inbody)
            if tot > maxv:
                viol.append({'kind': 'capacity', 'inbody': list(inbody), 'sum': tot, 'max': maxv})
            try:
                await gates[i].wait()
                if gate_mode.get(i) == 'err':
                    raise JobError()
            finally:
                inbody.remove(i)

    def job_of_task(t):
        for i, x in enumerate(tasks):
            if x is t:
                return i
        return -1

    def entry_job(event):
        for fut in event._waiters:
            for i, t in enumerate(tasks):
                if getattr(t, '_fut_waiter', None) is fut:
                    return i
        # (a cancelled waiter keeps Task._fut_waiter and its place in Event._waiters until its task steps, so an entry
        # that maps to nobody is a DEAD entry: its waiter is gone for good)
        return -1

    def observe():
        evs = []
        known = set()
        for n, e in list(sem.events):
            j = entry_job(e)
            evs.append([n, j])
            if j >= 0:
                known.add(j)
        sts = []
        for i, t in enumerate(tasks):
            if t.done():
                if t.cancelled():
                    st = 'Done Canc'
                elif t.exception() is not None:
                    st = 'Done Err'
                else:
                    st = 'Done Ok'
            elif i not in started:
                st = 'NewC' if i in cancel_req else 'New'
            elif i not in entered:
                queued = i in known
                if queued:
                    st = 'QueuedC' if i in cancel_req else 'Queued'
                else:
                    st = 'GrantedC' if i in cancel_req else 'Granted'
            else:
                if i in cancel_req:
                    st = 'Leaving Canc'
                elif i in gate_mode:
                    st = 'Leaving Err' if gate_mode[i] == 'err' else 'Leaving Ok'
                else:
                    st = 'Holding'
            sts.append([weights[i], st])
        rdy = [job_of_task(t) for t in dl.ready_tasks()]
        return {'value': sem.value, 'events': evs, 'jobs': sts, 'ready': rdy}

    def quiescent_checks(at):
        free = maxv - sum(weights[j] for j in inbody)
        if free < 0:
            viol.append({'kind': 'capacity', 'at': at, 'inbody': list(inbody), 'free': free})
        blocked = [i for i, t in enumerate(tasks) if i in started and i not in entered and not t.done()]
        fit = [i for i in blocked if weights[i] <= free]
        if fit:
            viol.append({'kind': 'blocked-though-fits', 'at': at, 'blocked': blocked, 'fits': fit, 'free': free,
                         'inbody': list(inbody), 'cancelled_before': sorted(cancel_req)})

    for k, a in enumerate(acts):
        if a[0] == 'spawn':
            i = len(tasks)
            weights.append(a[1])
            gates.append(asyncio.Event())
            tasks.append(dl.spawn(job(i, a[1])))
        elif a[0] == 'exit':
            i = a[1]
            if i < len(tasks) and i in inbody and i not in gate_mode and i not in cancel_req and not tasks[i].done():
                gate_mode[i] = 'err' if a[2] else 'ok'
                gates[i].set()
        elif a[0] == 'cancel':
            i = a[1]
            if i < len(tasks) and not tasks[i].done():
                tasks[i].cancel()
                cancel_req.add(i)
        elif a[0] == 'tick':
            dl.tick()
        else:
            raise ValueError(a)
        trace.append(observe())
        if dl.ready_len() == 0:
            quiescent_checks(k)

    if probe:
        # end game, judged from the outside only: let every holder leave; then nobody may be left blocked (weights <= max)
        # and a newcomer asking for the whole capacity must get it at once.
        for _ in range(len(tasks) + 2):
            dl.settle()
            for i in list(inbody):
                if i not in gate_mode and i not in cancel_req:
                    gate_mode[i] = 'ok'
                    gates[i].set()
        dl.settle()
        quiescent_checks('end')
        blocked = [i for i, t in enumerate(tasks) if i in started and i not in entered and not t.done() and weights[i] <= maxv]
        got = []

        async def prober():
            async with sem.acquire_manager(maxv):
                got.append(True)

        pt = dl.spawn(prober())
        dl.settle()
        if not got and not inbody and not blocked:
            viol.append({'kind': 'capacity-leak', 'detail': 'nobody holds or waits, yet acquire(max) blocks',
                         'value_seen': sem.value, 'max': maxv, 'cancelled': sorted(cancel_req)})
        pt.cancel()
    for t in tasks:
        if not t.done():
            t.cancel()
    dl.settle()
    for t in tasks:
        if t.done() and not t.cancelled():
            t.exception()
    seen, out = set(), []
    for v in viol:
        if v['kind'] not in seen:
            seen.add(v['kind'])
            out.append(v)
    return {'trace': trace, 'viol': out}


def main():
    req = json.load(sys.stdin)
    dl = TickLoop()
    out = []
    try:
        for sc in req['schedules']:
            out.append(run_schedule(dl, sc['max'], sc['acts'], req.get('probe', True)))
    finally:
        dl.close()
    json.dump({'results': out}, sys.stdout)


main()
