"""C36, Table / MatrixTable level — program language shared by harness/props/C36.py and harness/impl/c36_tables.py, its
generator, the conversion to / from the Coq model (coq/theories/Typing/TableModel.v) and an independent strict type
checker for the relational IR (used by the ORACLE on the IR the real front end emitted).  Pure Python.

Table programs P (M: matrix-table programs):
  ['range'] ['keyby', P, [f..]] ['keyby_expr', P, [[f, E]..]] ['annotate', P, [[f, E]..]] ['select', P, [f..]] ['drop', P, [f..]]
  ['annotate_globals', P, [[f, E]..]] ['filter', P, E] ['join', P, P] ['rows', M] ['cols', M] ['entries', M]
  ['order_by', P, [[f | E, 'A' | 'A+' | 'D']..]]   t.order_by(f / expr, hl.asc(..), hl.desc(..))
  ['union', P, [P..], unify]  ['semi_join', P, P]  ['anti_join', P, P]  ['join', P, P, how]
  ['group_sum', P, [f..], f]   P.group_by(*keys).aggregate(s = hl.agg.sum(P.f))   (a downstream aggregation)
  ['mrange'] ['mannotate_rows' | 'mannotate_cols' | 'mannotate_entries' | 'mannotate_globals', M, [[f, E]..]]
  ['mkeyrows', M, [f..]] ['mkeycols', M, [f..]]
Expressions E (in the context of the operation's input): those of c36_lang plus
  ['rf', f]  field f of the current table / matrix table        ['interval', E, E]
  ['lookup', 'index', P, [E..], all_matches]  P.index(*keys, all_matches=..)     ['lookup', 'getitem', P, [E..]]  P[keys]
  ['lookup', 'rows' | 'cols', M, [E..]]  M.index_rows / index_cols(*keys)         ['lookup', 'entries', M, [E..], n_row_keys]
  ['index_globals', P]
Types of tables: {'kind': 't', 'glob': fields, 'row': fields, 'key': [f..]}; matrix tables: {'kind': 'm', 'glob', 'col',
'colkey', 'row', 'rowkey', 'entry'}; fields = [[name, type]..].
"""
import c36_lang as L

TOPVARS = ['row', 'global', 'va', 'sa', 'g', 'n_cols', 'n_rows']
RESERVED_FIELDS = ['idx', 'row_idx', 'col_idx']


class TNames(L.Names):
    def __init__(self):
        super().__init__()
        for f in RESERVED_FIELDS:
            self.field(f)
        for v in TOPVARS:
            self.var(v)
        self.n_uid = 0

    def uid(self):
        self.n_uid += 1
        return f'__uid_m{self.n_uid}'


# ------------------------------------------------------------------------------------------------ names of a program's result

def shape(P):
    """Field NAMES per axis and key names of the table a program denotes (no types), and which row fields were made by
    hl.interval at top level ('iv'); None when a referenced field does not exist."""
    k = P[0]
    if k == 'range':
        return {'kind': 't', 'glob': [], 'row': ['idx'], 'key': ['idx'], 'iv': set()}
    if k == 'mrange':
        return {'kind': 'm', 'glob': [], 'col': ['col_idx'], 'colkey': ['col_idx'], 'row': ['row_idx'], 'rowkey': ['row_idx'], 'entry': [], 'iv': set()}
    s = shape(P[1])
    if s is None:
        return None
    s = {a: (set(b) if a == 'iv' else (list(b) if isinstance(b, list) else b)) for a, b in s.items()}

    def ins(axis, fs):
        for f, e in fs:
            if f not in s[axis]:
                s[axis].append(f)
            if axis == 'row':
                (s['iv'].add if e[0] == 'interval' else s['iv'].discard)(f)

    if k in ('keyby', 'mkeyrows'):
        s['key' if k == 'keyby' else 'rowkey'] = list(P[2])
    elif k == 'mkeycols':
        s['colkey'] = list(P[2])
    elif k == 'keyby_expr':
        ins('row', P[2])
        s['key'] = [f for f, _ in P[2]]
    elif k in ('annotate', 'mannotate_rows'):
        ins('row', P[2])
    elif k == 'mannotate_cols':
        ins('col', P[2])
    elif k == 'mannotate_entries':
        ins('entry', P[2])
    elif k in ('annotate_globals', 'mannotate_globals'):
        ins('glob', P[2])
    elif k == 'select':
        s['row'] = s['key'] + list(P[2])
    elif k == 'drop':
        s['row'] = [f for f in s['row'] if f not in P[2]]
        s['glob'] = [f for f in s['glob'] if f not in P[2]]
    elif k == 'filter':
        pass
    elif k == 'order_by':
        s['key'] = []
    elif k in ('semi_join', 'anti_join'):
        pass
    elif k == 'group_sum':
        s = {'kind': 't', 'glob': s['glob'], 'row': list(P[2]) + ['s'], 'key': list(P[2]), 'iv': set()}
    elif k == 'union':
        if P[3]:
            vals = [f for f in s['row'] if f not in s['key']]
            for Q in P[2]:
                q = shape(Q)
                if q is None:
                    return None
                vals += [f for f in q['row'] if f not in q['key'] and f not in vals]
            s['all_values'] = vals
    elif k == 'rows':
        s = {'kind': 't', 'glob': s['glob'], 'row': s['row'], 'key': s['rowkey'], 'iv': s['iv']}
    elif k == 'cols':
        s = {'kind': 't', 'glob': s['glob'], 'row': s['col'], 'key': s['colkey'], 'iv': set()}
    elif k == 'entries':
        s = {'kind': 't', 'glob': s['glob'], 'row': s['row'] + s['col'] + s['entry'], 'key': s['rowkey'] + s['colkey'], 'iv': s['iv']}
    elif k == 'join':
        r = shape(P[2])
        if r is None:
            return None
        s = {'kind': 't', 'glob': s['glob'] + r['glob'], 'key': s['key'],
             'row': s['key'] + [f for f in s['row'] if f not in s['key']] + [f for f in r['row'] if f not in r['key']], 'iv': set()}
    else:
        raise ValueError(P)
    return s


def find_lookups(e, acc):
    if isinstance(e, list):
        if e and e[0] in ('lookup', 'index_globals'):
            acc.append(e)
            return acc
        for x in e:
            find_lookups(x, acc)
    return acc


# ------------------------------------------------------------------------------------------------ conversion to the Coq model

class OutsideModel(Exception):
    pass


def _names_list(fs, n):
    return '[' + '; '.join(n.field(f) for f in fs) + ']'


def _ctx_of(s, op):
    """field name -> (variable, all field names of that variable's struct) for the context an operation evaluates in"""
    m = {}
    if s['kind'] == 't':
        axes = [('global', 'glob')] + ([('row', 'row')] if op != 'glob' else [])
    else:
        axes = {'row': [('global', 'glob'), ('va', 'row')], 'col': [('global', 'glob'), ('sa', 'col')],
                'entry': [('global', 'glob'), ('va', 'row'), ('sa', 'col'), ('g', 'entry')], 'glob': [('global', 'glob')]}[op]
    for var, axis in axes:
        for f in s[axis]:
            m[f] = (var, s[axis])
    return m


def expr_to_coq(e, ctx, n, lookup_term=None):
    """Table-level expression -> fe term (string).  Field references become  EField (ESelect (EVar v) names) f ."""
    def rw(x):
        if not isinstance(x, list) or not x:
            return x
        if x[0] == 'rf':
            if x[1] not in ctx:
                raise OutsideModel(f'unknown field {x[1]}')
            var, fs = ctx[x[1]]
            return ['coq', f'(EField (ESelect (EVar {n.var(var)}) {_names_list(fs, n)}) {n.field(x[1])})']
        if x[0] == 'lookup':
            if lookup_term is None:
                raise OutsideModel('lookup in this position')
            return ['coq', lookup_term]
        if x[0] == 'index_globals':
            raise OutsideModel('index_globals')
        return [rw(y) for y in x]
    return L.fe_to_coq(rw(e), n)


def _fields_to_coq(fs, ctx, n, lookup_term=None):
    return '[' + '; '.join(f'({n.field(f)}, {expr_to_coq(e, ctx, n, lookup_term)})' for f, e in fs) + ']'


def to_coq(P, n):
    """Program -> Gallina [prog] term; raises OutsideModel for what TableModel.v does not cover."""
    k = P[0]
    if k == 'range':
        return 'PRange'
    if k == 'mrange':
        return 'PMRange'
    if k in ('keyby_expr', 'join', 'semi_join', 'anti_join', 'group_sum'):
        raise OutsideModel(k)
    if k == 'union':
        if len(P[2]) != 1:
            raise OutsideModel('union of more than two tables')
        s, q = shape(P[1]), shape(P[2][0])
        if s is None or q is None or s['kind'] != 't' or q['kind'] != 't':
            raise OutsideModel('union operands')
        if P[3] and sorted(f for f in s['row'] if f not in s['key']) != sorted(f for f in q['row'] if f not in q['key']):
            raise OutsideModel('union(unify) with fields missing from a table')
        return f'(PUnion {to_coq(P[1], n)} {to_coq(P[2][0], n)} {"true" if P[3] else "false"})'
    s = shape(P[1])
    if s is None:
        raise OutsideModel('unknown field')
    sub = to_coq(P[1], n)
    simple = {'keyby': 'PKeyBy', 'select': 'PSelect', 'drop': 'PDrop', 'mkeyrows': 'PMKeyRowsBy', 'mkeycols': 'PMKeyColsBy'}
    if k in simple:
        if (k in ('keyby', 'select', 'drop')) != (s['kind'] == 't'):
            raise OutsideModel('kind')
        if k == 'drop' and any(f in s['glob'] for f in P[2]):
            raise OutsideModel('drop of a global field')
        return f'({simple[k]} {sub} {_names_list(P[2], n)})'
    if k in ('rows', 'cols', 'entries'):
        return f'({ {"rows": "PRows", "cols": "PCols", "entries": "PEntries"}[k]} {sub})'
    if k == 'order_by':
        if s['kind'] != 't':
            raise OutsideModel('kind')
        if any(not isinstance(x, str) for x, _ in P[2]):
            raise OutsideModel('order_by with a computed sort expression')
        if any(x in s['glob'] and x not in s['row'] for x, _ in P[2]):
            raise OutsideModel('order_by with a global field (rejected before typing)')
        return f'(POrderBy {sub} [' + '; '.join(f'({n.field(x)}, {"false" if o == "D" else "true"})' for x, o in P[2]) + '])'
    if k == 'filter':
        if find_lookups(P[2], []):
            raise OutsideModel('filter with a lookup')
        return f'(PFilter {sub} {expr_to_coq(P[2], _ctx_of(s, "row"), n)})'
    ann = {'annotate': ('PAnnotate', 'row'), 'annotate_globals': ('PAnnotateGlobals', 'glob'), 'mannotate_rows': ('PMAnnotateRows', 'row'),
           'mannotate_cols': ('PMAnnotateCols', 'col'), 'mannotate_entries': ('PMAnnotateEntries', 'entry'),
           'mannotate_globals': ('PMAnnotateGlobals', 'glob')}
    if k not in ann:
        raise ValueError(P)
    con, op = ann[k]
    ctx = _ctx_of(s, op)
    lks = find_lookups(P[2], [])
    if not lks:
        return f'({con} {sub} {_fields_to_coq(P[2], ctx, n)})'
    if len(lks) != 1 or lks[0][0] != 'lookup' or k not in ('annotate', 'mannotate_rows'):
        raise OutsideModel('several lookups / lookup outside annotate, annotate_rows')
    lk = lks[0]
    how, R, keys = lk[1], lk[2], lk[3]
    if any(find_lookups(x, []) for x in keys):
        raise OutsideModel('nested lookup')
    am = bool(lk[4]) if how == 'index' else False
    axis_fields = s['row'] if k == 'annotate' or s['kind'] == 't' else s['row']

    def mentions_axis(x):
        return isinstance(x, list) and ((len(x) == 2 and x[0] == 'rf' and x[1] in axis_fields) or any(mentions_axis(y) for y in x))
    if not any(mentions_axis(x) for x in keys):
        raise OutsideModel('lookup by scalar expressions only (rejected before typing)')
    if how in ('rows', 'cols'):
        R = [how, R]
    elif how == 'entries':
        R = ['entries', R]
    rs = shape(R)
    if rs is None or rs['kind'] != 't' or not keys:
        raise OutsideModel('lookup target')
    right = to_coq(R, n)
    interval = len(keys) == 1 and bool(rs['key']) and rs['key'][0] in rs['iv']
    if am and not interval:
        raise OutsideModel('all_matches on a point key (collect_by_key)')
    uid = n.field(n.uid())
    if k == 'annotate':
        def core(x):                      # hl.int32(e) / hl.str(e) return e ITSELF when e already has that type
            while isinstance(x, list) and x and x[0] in ('cast', 'strof'):
                x = x[-1]
            return x
        is_key = len(keys) <= len(s['key']) and all(core(x) == ['rf', kf] for x, kf in zip(keys, s['key']))
        if is_key:
            raise OutsideModel('lookup by the key fields themselves (no re-keying)')
        kfs = '[' + '; '.join(f'({n.field(n.uid())}, {expr_to_coq(x, ctx, n)})' for x in keys) + ']'
        term = f'(EField (EVar {n.var("row")}) {uid})'
        return f'(PAnnotateIdx {sub} {right} {uid} {kfs} {"true" if am else "false"} {_fields_to_coq(P[2], ctx, n, term)})'
    if not interval:
        raise OutsideModel('matrix row lookup into a point-keyed table')
    term = f'(EField (EVar {n.var("va")}) {uid})'
    return (f'(PMAnnotateRowsIv {sub} {right} {uid} {expr_to_coq(keys[0], ctx, n)} {"true" if am else "false"} '
            f'{_fields_to_coq(P[2], ctx, n, term)})')


# ------------------------------------------------------------------------------------------------ model output -> neutral

def _fields_back(v, n):
    return [[n.field_back(f), L.coq_to_ty(t, n)] for f, t in v]


def coq_to_rty(v, n):
    if v[0] == 'RT':
        _, gl, row, key = v[1]
        return {'kind': 't', 'glob': _fields_back(gl, n), 'row': _fields_back(row, n), 'key': [n.field_back(k) for k in key]}
    _, gl, col, ck, row, rk, entry = v[1]
    return {'kind': 'm', 'glob': _fields_back(gl, n), 'col': _fields_back(col, n), 'colkey': [n.field_back(k) for k in ck],
            'row': _fields_back(row, n), 'rowkey': [n.field_back(k) for k in rk], 'entry': _fields_back(entry, n)}


def _val_back(v, n):
    back = {vn: name for name, vn in n.vars.items() if name in TOPVARS}

    def fix(t):
        h, cs = t
        if h[0] == 'Ref' and isinstance(h[1], tuple) and h[1][1] in back:
            h = ['Ref', back[h[1][1]], None]
        return [h, [fix(c) for c in cs]]
    return L.renumber(fix(L.coq_to_ir(v, n)))


def coq_to_rir(v, n):
    if isinstance(v, str):
        return [[v], []]
    k = v[0]
    r = lambda x: coq_to_rir(x, n)  # noqa: E731
    fb = n.field_back
    if k in ('TableKeyBy', 'MatrixKeyRowsBy'):
        return [[k, [fb(f) for f in v[2]]], [r(v[1])]]
    if k == 'TableOrderBy':
        return [[k, [[fb(f), 'A' if a else 'D'] for f, a in v[2]]], [r(v[1])]]
    if k in ('TableMapRows', 'TableMapGlobals', 'TableFilter', 'MatrixMapRows', 'MatrixMapEntries', 'MatrixMapGlobals'):
        return [[k], [r(v[1]), _val_back(v[2], n)]]
    if k == 'MatrixMapCols':
        nk = v[3]
        return [[k, None if nk is None else [fb(f) for f in nk[1]]], [r(v[1]), _val_back(v[2], n)]]
    if k == 'TableUnion':
        return [[k], [r(v[1]), r(v[2])]]
    if k == 'TableLeftJoinRightDistinct':
        return [[k, fb(v[3])], [r(v[1]), r(v[2])]]
    if k in ('TableIntervalJoin', 'MatrixAnnotateRowsTable'):
        return [[k, fb(v[3]), bool(v[4])], [r(v[1]), r(v[2])]]
    if k in ('MatrixRowsTable', 'MatrixColsTable', 'MatrixEntriesTable'):
        return [[k], [r(v[1])]]
    raise ValueError(v)


def canon_uids(term):
    """Rename generated field names ('__uid_..' strings and ['uid', n] markers) in order of first occurrence."""
    table = {}

    def nm(x):
        if isinstance(x, list) and len(x) == 2 and x[0] == 'uid':
            return '__u%d' % table.setdefault(('r', x[1]), len(table))
        if isinstance(x, str) and x.startswith('__uid_'):
            return '__u%d' % table.setdefault(x, len(table))
        return x

    def walk(t):
        h, cs = t
        h2 = []
        for x in h:
            if h[0] == 'TableOrderBy' and isinstance(x, list):
                h2.append([[nm(f), o] for f, o in x])
            elif isinstance(x, list) and not (len(x) == 2 and x[0] == 'uid') and h[0] in (
                    'TableKeyBy', 'MatrixKeyRowsBy', 'MatrixMapCols', 'SelectFields', 'InsertFields', 'MakeStruct'):
                h2.append([nm(y) for y in x])
            else:
                h2.append(nm(x))
        return [h2, [walk(c) for c in cs]]
    return walk(term)


# ------------------------------------------------------------------------------------------------
# reference: the type of a relational IR term under the engine's rules (TableIR.scala / MatrixIR.scala typ, TypeCheck.scala,
# TableType / MatrixType constructor assertions), every value IR re-typed with c36_lang.strict_ir_type

class IllTyped(Exception):
    def __init__(self, why):
        self.why = why


def _struct(t, why):
    if not (isinstance(t, list) and t[0] == 'struct'):
        raise IllTyped(why)
    return t[1]


def _names(fs):
    return [f for f, _ in fs]


def _key_types(row, key, why):
    d = dict((f, t) for f, t in row)
    if any(k not in d for k in key):
        raise IllTyped(why + ':key-not-in-row')
    return [d[k] for k in key]


def _value(row, key):
    return ['struct', [[f, t] for f, t in row if f not in key]]


def _prefix(a, b):
    return len(a) <= len(b) and all(x == y for x, y in zip(a, b))


def _insert(row, f, t):
    if f in _names(row):
        return [[g, (t if g == f else u)] for g, u in row]
    return row + [[f, t]]


def _append_key(row, f, t, why):
    if f in _names(row):
        raise IllTyped(why + ':root-exists')
    return row + [[f, t]]


def strict_rel(term):
    """Type (neutral dict) of a canonical relational IR term; raises IllTyped(reason)."""
    h, cs = term
    k = h[0]
    val = L.strict_ir_type

    def tab(c, why):
        t = strict_rel(c)
        if t['kind'] != 't':
            raise IllTyped(why + ':not-a-table')
        return t

    def mat(c, why):
        t = strict_rel(c)
        if t['kind'] != 'm':
            raise IllTyped(why + ':not-a-matrix')
        return t

    def row_env(t):
        return {'row': ['struct', t['row']], 'global': ['struct', t['glob']]}

    if k == 'TableRange':
        return {'kind': 't', 'glob': [], 'row': [['idx', 'int32']], 'key': ['idx']}
    if k == 'TableKeyBy':
        t = tab(cs[0], k)
        if any(f not in _names(t['row']) for f in h[1]):
            raise IllTyped(k + ':key-not-in-row')
        return {**t, 'key': list(h[1])}
    if k == 'TableMapRows':
        t = tab(cs[0], k)
        new = _struct(val(cs[1], row_env(t)), k + ':row-ill-typed')
        if any(f not in _names(new) for f in t['key']):
            raise IllTyped(k + ':key-dropped')
        return {**t, 'row': new}
    if k == 'TableMapGlobals':
        t = tab(cs[0], k)
        return {**t, 'glob': _struct(val(cs[1], {'global': ['struct', t['glob']]}), k + ':globals-ill-typed')}
    if k == 'TableFilter':
        t = tab(cs[0], k)
        if val(cs[1], row_env(t)) != 'bool':
            raise IllTyped(k + ':predicate')
        return t
    if k == 'TableUnion':                # TableIR.scala:2471 typ = childrenSeq(0).typ; TypeCheck.scala:686-688
        ts = [tab(c, k) for c in cs]
        for i, t in enumerate(ts[1:]):
            if t['row'] != ts[0]['row']:
                a, b = ts[0]['row'], t['row']
                why = (':row-field-order' if sorted(map(str, a)) == sorted(map(str, b)) else
                       ':row-field-types' if sorted(_names(a)) == sorted(_names(b)) else ':row-fields')
                raise IllTyped(k + why)
            if t['key'] != ts[0]['key']:
                raise IllTyped(k + ':key')
        return ts[0]
    if k == 'TableKeyByAndAggregate':    # TableIR.scala:2542-2545: row = newKey.typ ++ expr.typ, key = the new key's names
        t = tab(cs[0], k)
        agg = _struct(val(cs[1], row_env(t)), k + ':expr-ill-typed')
        key = _struct(val(cs[2], row_env(t)), k + ':key-ill-typed')
        row = key + agg
        if len(set(_names(row))) != len(row):
            raise IllTyped(k + ':duplicate-field')
        return {'kind': 't', 'glob': t['glob'], 'row': row, 'key': _names(key)}
    if k == 'TableOrderBy':              # TableIR.scala:2593  typ = child.typ.copy(key = FastSeq())
        t = tab(cs[0], k)
        if any(f not in _names(t['row']) for f, _ in h[1]):
            raise IllTyped(k + ':sort-field-not-in-row')
        return {**t, 'key': []}
    if k == 'TableLeftJoinRightDistinct':
        lt, rt = tab(cs[0], k), tab(cs[1], k)
        if not _prefix(_key_types(rt['row'], rt['key'], k), _key_types(lt['row'], lt['key'], k)):
            raise IllTyped(k + ':key-mismatch')
        return {**lt, 'row': _insert(lt['row'], h[1], _value(rt['row'], rt['key']))}
    if k == 'TableIntervalJoin':
        lt, rt = tab(cs[0], k), tab(cs[1], k)
        rk, lk = _key_types(rt['row'], rt['key'], k), _key_types(lt['row'], lt['key'], k)
        if not (rk and lk and isinstance(rk[0], list) and rk[0][0] == 'interval' and rk[0][1] == lk[0]):
            raise IllTyped(k + ':key-mismatch')
        v = _value(rt['row'], rt['key'])
        return {**lt, 'row': _append_key(lt['row'], h[1], ['array', v] if h[2] else v, k)}
    if k == 'TableJoin':
        lt, rt = tab(cs[0], k), tab(cs[1], k)
        jk = h[2]
        if len(lt['key']) < jk or len(rt['key']) < jk:
            raise IllTyped(k + ':join-key-length')
        if _key_types(lt['row'], lt['key'][:jk], k) != _key_types(rt['row'], rt['key'][:jk], k):
            raise IllTyped(k + ':key-mismatch')
        lkey, rkey = lt['key'][:jk], rt['key'][:jk]
        lv, rv = _value(lt['row'], lkey)[1], _value(rt['row'], rkey)[1]
        if set(_names(lv)) & set(_names(rv)) or set(_names(lt['glob'])) & set(_names(rt['glob'])):
            raise IllTyped(k + ':name-collision')
        d = dict((f, t) for f, t in lt['row'])
        return {'kind': 't', 'glob': lt['glob'] + rt['glob'], 'row': [[f, d[f]] for f in lkey] + lv + rv, 'key': lt['key'] + rt['key'][jk:]}
    if k == 'MatrixRowsTable':
        m = mat(cs[0], k)
        return {'kind': 't', 'glob': m['glob'], 'row': m['row'], 'key': m['rowkey']}
    if k == 'MatrixColsTable':
        m = mat(cs[0], k)
        return {'kind': 't', 'glob': m['glob'], 'row': m['col'], 'key': m['colkey']}
    if k == 'MatrixEntriesTable':
        m = mat(cs[0], k)
        row = m['row'] + m['col'] + m['entry']
        if len(set(_names(row))) != len(row):
            raise IllTyped(k + ':duplicate-field')
        return {'kind': 't', 'glob': m['glob'], 'row': row, 'key': m['rowkey'] + m['colkey']}
    if k == 'MatrixRange':
        return {'kind': 'm', 'glob': [], 'col': [['col_idx', 'int32']], 'colkey': ['col_idx'], 'row': [['row_idx', 'int32']],
                'rowkey': ['row_idx'], 'entry': []}
    if k == 'MatrixMapRows':
        m = mat(cs[0], k)
        new = _struct(val(cs[1], {'va': ['struct', m['row']], 'global': ['struct', m['glob']], 'n_cols': 'int32'}), k + ':row-ill-typed')
        if any(f not in _names(new) for f in m['rowkey']):
            raise IllTyped(k + ':key-dropped')
        return {**m, 'row': new}
    if k == 'MatrixMapCols':
        m = mat(cs[0], k)
        new = _struct(val(cs[1], {'sa': ['struct', m['col']], 'global': ['struct', m['glob']], 'n_rows': 'int64'}), k + ':col-ill-typed')
        key = m['colkey'] if h[1] is None else list(h[1])
        if any(f not in _names(new) for f in key):
            raise IllTyped(k + ':key-not-in-col')
        return {**m, 'col': new, 'colkey': key}
    if k == 'MatrixMapEntries':
        m = mat(cs[0], k)
        env = {'g': ['struct', m['entry']], 'va': ['struct', m['row']], 'sa': ['struct', m['col']], 'global': ['struct', m['glob']]}
        return {**m, 'entry': _struct(val(cs[1], env), k + ':entry-ill-typed')}
    if k == 'MatrixMapGlobals':
        m = mat(cs[0], k)
        return {**m, 'glob': _struct(val(cs[1], {'global': ['struct', m['glob']]}), k + ':globals-ill-typed')}
    if k == 'MatrixKeyRowsBy':
        m = mat(cs[0], k)
        if any(f not in _names(m['row']) for f in h[1]):
            raise IllTyped(k + ':key-not-in-row')
        return {**m, 'rowkey': list(h[1])}
    if k == 'MatrixAnnotateRowsTable':
        m, t = mat(cs[0], k), tab(cs[1], k)
        tk, mk = _key_types(t['row'], t['key'], k), _key_types(m['row'], m['rowkey'], k)
        product = h[2]
        by_prefix = (not product) and _prefix(tk, mk)
        is_iv = bool(tk) and isinstance(tk[0], list) and tk[0][0] == 'interval'
        by_interval = len(tk) == 1 and is_iv and bool(mk) and tk[0][1] == mk[0]
        if not (by_prefix or by_interval):
            raise IllTyped(k + (':compound-interval-key' if is_iv and len(tk) > 1 else ':row-key-type' if is_iv else ':key-mismatch'))
        v = _value(t['row'], t['key'])
        return {**m, 'row': _append_key(m['row'], h[1], ['array', v] if product else v, k)}
    if k == 'MatrixAnnotateColsTable':
        m, t = mat(cs[0], k), tab(cs[1], k)
        if h[1] in _names(m['col']):
            raise IllTyped(k + ':root-exists')
        # LowerMatrixIR.scala:236-255: the column key struct is built from table.key zip colKey and looked up in a dict keyed
        # by table.keyType: the table's key types must be the first col key types
        if not _prefix(_key_types(t['row'], t['key'], k), _key_types(m['col'], m['colkey'], k)):
            raise IllTyped(k + ':key-mismatch')
        return {**m, 'col': m['col'] + [[h[1], _value(t['row'], t['key'])]]}
    raise IllTyped('unknown-node:' + str(k))


# ------------------------------------------------------------------------------------------------ generator

TYPES = ['int32', 'int64', 'float64', 'str', 'bool']


class TGen:
    """Structured table programs: sources, chains of annotate / select / drop / key_by / filter / globals, MatrixTable axes,
    and lookups (point keys, multi-field keys, key prefixes, interval keys with all_matches both ways, MatrixTable rows / cols /
    entries as source or target); a fraction deliberately ill-keyed."""

    def __init__(self, rng):
        self.rng = rng

    # expressions of a type over the fields {name: type} of the current context
    def expr(self, t, fields, d=2):
        rng = self.rng
        cands = [f for f, ft in fields.items() if ft == t]
        if cands and rng.random() < 0.6:
            f = rng.choice(cands)
            if t in ('int32', 'int64', 'float64') and rng.random() < 0.4:
                return ['arith', rng.choice(['+', '*', '-']), ['rf', f], ['litint', rng.choice([1, 2, 3])]]
            return ['rf', f]
        # small expressions the expression-level model covers completely (the expression API itself is exercised by c36_lang.Gen)
        num = ['int32', 'int64', 'float64']
        leaf = {'int32': lambda: ['litint', rng.choice([0, 1, 3, -7])], 'int64': lambda: ['litint', rng.choice([2 ** 40, -2 ** 33])],
                'float64': lambda: ['litfloat', rng.randrange(4)], 'str': lambda: ['litstr', rng.randrange(5)],
                'bool': lambda: ['litbool', rng.random() < 0.5]}
        if d <= 0 or rng.random() < 0.3:
            return leaf[t]()
        if t in num:
            lo = [x for x in num if num.index(x) <= num.index(t)]
            k = rng.choice(['arith', 'arith', 'cast', 'if', 'neg'])
            if k == 'arith':
                op = rng.choice(['+', '-', '*'] + (['/'] if t == 'float64' else ['//']))
                a_t = t if rng.random() < 0.6 else rng.choice(lo)
                return ['arith', op, self.expr(a_t, fields, d - 1), self.expr(t, fields, d - 1)]
            if k == 'cast':
                return ['cast', t, self.expr(rng.choice(num + ['bool']), fields, d - 1)]
            if k == 'neg':
                return ['neg', self.expr(t, fields, d - 1)]
            return ['if', self.expr('bool', fields, d - 1), self.expr(t, fields, d - 1), self.expr(rng.choice(lo), fields, d - 1)]
        if t == 'str':
            k = rng.choice(['concat', 'strof'])
            if k == 'concat':
                return ['concat', self.expr('str', fields, d - 1), self.expr('str', fields, d - 1)]
            return ['strof', self.expr(rng.choice(TYPES), fields, d - 1)]
        k = rng.choice(['cmp', 'cmp', 'not'])
        if k == 'not':
            return ['not', self.expr('bool', fields, d - 1)]
        ct = rng.choice(TYPES)
        ot = rng.choice(num) if ct in num and rng.random() < 0.4 else ct
        return ['cmp', rng.choice(L.CMP if ct != 'bool' else ['==', '!=']), self.expr(ct, fields, d - 1), self.expr(ot, fields, d - 1)]

    def table(self, interval=None, extra_key=False):
        """(program, {row field: type}, key) of a small table; interval: point type of an interval-typed first key field"""
        rng = self.rng
        P, fields = ['range'], {'idx': 'int32'}
        fs, base = [], dict(fields)
        for f in rng.sample(L.FIELDS, rng.randint(1, 3)):
            t = rng.choice(TYPES)
            fs.append([f, self.expr(t, base)])
            fields[f] = t
        P = ['annotate', P, fs]
        if rng.random() < 0.3:
            P = ['annotate_globals', P, [['g1', ['litint', 1]]]]
        key = ['idx']
        if interval is not None:
            lo = self.expr(interval, fields)
            ivf = rng.choice([f for f in L.FIELDS if f not in fields] or ['a'])
            hi = lo if rng.random() < 0.5 else self.expr(interval, fields)
            if rng.random() < 0.5:
                P = ['annotate', P, [[ivf, ['interval', lo, hi]]]]
                fields[ivf] = ['interval', interval]
                key = [ivf] + (['idx'] if extra_key else [])
                P = ['keyby', P, key]
            else:
                key = [ivf]
                P = ['keyby_expr', P, [[ivf, ['interval', lo, hi]]]]
                fields[ivf] = ['interval', interval]
        elif rng.random() < 0.7:
            names = [f for f in fields if isinstance(fields[f], str)]
            key = rng.sample(names, rng.randint(1, min(2, len(names))))
            P = ['keyby', P, key]
        if rng.random() < 0.25:
            drop = [f for f in fields if f not in key and rng.random() < 0.5]
            if drop:
                P = ['drop', P, drop]
                for f in drop:
                    del fields[f]
        return P, fields, key

    def matrix(self):
        rng = self.rng
        M = ['mrange']
        row, col, entry = {'row_idx': 'int32'}, {'col_idx': 'int32'}, {}
        names = list(L.FIELDS) + ['e', 'f']
        rng.shuffle(names)
        for _ in range(rng.randint(1, 4)):
            if not names:
                break
            f, t = names.pop(), rng.choice(TYPES)
            ax = rng.choice(['rows', 'cols', 'entries', 'globals'])
            if ax == 'rows':
                M = ['mannotate_rows', M, [[f, self.expr(t, row)]]]
                row[f] = t
            elif ax == 'cols':
                M = ['mannotate_cols', M, [[f, self.expr(t, col)]]]
                col[f] = t
            elif ax == 'entries':
                M = ['mannotate_entries', M, [[f, self.expr(t, {**row, **col, **entry})]]]
                entry[f] = t
            else:
                M = ['mannotate_globals', M, [[f, ['litint', 2]]]]
        rk, ck = ['row_idx'], ['col_idx']
        if rng.random() < 0.4:
            rk = rng.sample(list(row), rng.randint(1, min(2, len(row))))
            M = ['mkeyrows', M, rk]
        if rng.random() < 0.3:
            ck = rng.sample(list(col), 1)
            M = ['mkeycols', M, ck]
        return M, row, col, entry, rk, ck

    def union(self):
        """union of 2-3 tables over the same key: same / re-ordered / missing / numerically promotable / incompatible fields,
        key field at another position; sometimes followed by a field access or an aggregation over a unified field"""
        rng = self.rng
        num = ['int32', 'int64', 'float64']
        names = rng.sample(L.FIELDS, rng.randint(1, 3))
        base = {f: rng.choice(TYPES) for f in names}
        keyed = rng.random() < 0.3 and any(base[f] != 'bool' for f in names)
        key = ['idx'] if not keyed else [rng.choice(names)]
        mode = rng.choice(['same', 'reorder', 'promote', 'promote', 'promote', 'missing', 'clash', 'keypos'])
        tabs = []
        for i in range(rng.choice([2, 2, 2, 3])):
            fs = dict(base)
            order = list(names)
            if i > 0:
                if mode in ('reorder', 'promote', 'missing') and rng.random() < 0.6:
                    rng.shuffle(order)
                if mode == 'promote':
                    for f in order:
                        if fs[f] in num and f not in key and rng.random() < 0.7:
                            fs[f] = rng.choice(num)
                if mode == 'missing' and len(order) > 1:
                    order = [f for f in order if f in key or rng.random() < 0.6] or order[:1]
                if mode == 'clash':
                    f = rng.choice(order)
                    fs[f] = 'str' if fs[f] != 'str' else 'int32'
            P = ['annotate', ['range'], [[f, self.expr(fs[f], {'idx': 'int32'}, d=1)] for f in order]]
            if keyed:
                P = ['keyby', P, key]
                if mode == 'keypos' and i > 0:
                    P = ['select', P, [f for f in ['idx'] + order if f not in key]]
            tabs.append(P)
        unify = mode != 'same' or rng.random() < 0.5
        if mode in ('reorder', 'promote') and rng.random() < 0.1:
            unify = False
        U = ['union', tabs[0], tabs[1:], unify]
        nums = [f for f in names if base[f] in num and f not in key]
        r = rng.random()
        if r < 0.25 and nums:
            return ['annotate', U, [['z', ['arith', '+', ['rf', rng.choice(nums)], ['litint', 1]]]]]
        if r < 0.5 and nums:
            return ['group_sum', U, key, rng.choice(nums)]
        return U

    def sort_fields(self, fields, key):
        """order_by arguments: an ascending prefix of the key, the whole key, descending / non-key fields, none, computed"""
        rng = self.rng
        how = rng.choice(['prefix', 'prefix', 'key', 'desc', 'nonkey', 'none', 'mixed', 'computed'])
        o = lambda: rng.choice(['A', 'A+'])  # noqa: E731
        names = list(fields)
        if how == 'prefix' and key:
            return [[k, o()] for k in key[:rng.randint(1, len(key))]]
        if how == 'key':
            return [[k, o()] for k in key]
        if how == 'desc' and key:
            return [[k, 'D' if i == 0 or rng.random() < 0.5 else o()] for i, k in enumerate(key)]
        if how == 'none':
            return []
        if how == 'computed':
            num = [f for f in names if fields[f] in ('int32', 'int64', 'float64')]
            if num:
                return [[['arith', '+', ['rf', rng.choice(num)], ['litint', 1]], rng.choice(['A', 'A+', 'D'])]] + \
                       [[f, o()] for f in rng.sample(names, rng.randint(0, 1))]
        return [[f, rng.choice(['A', 'A+', 'D'])] for f in rng.sample(names, rng.randint(1, min(3, len(names))))]

    def use(self, lk, rfields, rkey, am):
        """an expression using the lookup: itself, one of its fields, or its length"""
        rng = self.rng
        vals = [f for f in rfields if f not in rkey]
        if am:
            return lk if rng.random() < 0.6 else ['len', lk]
        if vals and rng.random() < 0.6:
            return ['field', lk, rng.choice(vals)]
        return lk

    def keys_for(self, ktypes, fields, wrong=False):
        rng = self.rng
        out = []
        for t in ktypes:
            if wrong and rng.random() < 0.5:
                t = rng.choice([x for x in TYPES if x != t])
            cands = [f for f, ft in fields.items() if ft == t]
            if cands and rng.random() < 0.85:      # a key that depends on the row (scalar-only keys are rejected before typing)
                f = rng.choice(cands)
                out.append(['rf', f] if t not in ('int32', 'int64', 'float64') or rng.random() < 0.5
                           else ['arith', rng.choice(['+', '*']), ['rf', f], ['litint', rng.choice([1, 2])]])
            else:
                out.append(self.expr(t, fields, d=1))
        return out

    def program(self):
        rng = self.rng
        fam = rng.choice(['union', 'union', 'union', 'semi', 'chain', 'chain', 'lookup', 'lookup', 'lookup', 'ivlookup', 'ivlookup', 'ivlookup', 'mchain', 'mlookup', 'mlookup',
                          'mivlookup', 'mivlookup', 'msource', 'join'])
        if fam == 'union':
            return self.union()
        if fam == 'semi':
            A, af, ak = self.table()
            B = ['keyby', ['annotate', ['range'], [['z', ['litint', 1]]] + [[k, self.expr(af[k], {'idx': 'int32'})] for k in ak if k != 'idx']], list(ak)]
            if rng.random() < 0.2:
                B = self.table()[0]
            return [rng.choice(['semi_join', 'anti_join']), A, B]
        if fam == 'chain':
            P, fields, key = self.table()
            for _ in range(rng.randint(1, 3)):
                op = rng.choice(['annotate', 'select', 'drop', 'filter', 'keyby', 'globals', 'order_by', 'order_by'])
                nonkey = [f for f in fields if f not in key]
                if op == 'annotate':
                    f, t = rng.choice(L.FIELDS), rng.choice(TYPES)
                    P = ['annotate', P, [[f, self.expr(t, fields)]]]       # may hit a key field: rejected by the front end
                    if f not in key:
                        fields[f] = t
                elif op == 'select' and nonkey:
                    ks = rng.sample(nonkey, rng.randint(1, len(nonkey)))
                    P = ['select', P, ks]
                    fields = {f: fields[f] for f in key + ks}
                elif op == 'drop' and nonkey:
                    ks = rng.sample(nonkey, 1)
                    P = ['drop', P, ks]
                    del fields[ks[0]]
                elif op == 'order_by':
                    P = ['order_by', P, self.sort_fields(fields, key)]
                    key = []
                elif op == 'filter':
                    P = ['filter', P, self.expr('bool' if rng.random() < 0.9 else 'int32', fields)]
                elif op == 'keyby':
                    names = [f for f in fields if isinstance(fields[f], str)]
                    key = rng.sample(names, rng.randint(0, min(2, len(names))))
                    P = ['keyby', P, key]
                else:
                    P = ['annotate_globals', P, [['g2', self.expr(rng.choice(TYPES), {})]]]
            return P
        if fam in ('lookup', 'ivlookup'):
            iv = rng.choice(['int32', 'int32', 'float64', 'int64']) if fam == 'ivlookup' else None
            R, rfields, rkey = self.table(interval=iv, extra_key=(iv is not None and rng.random() < 0.15))
            Lp, lfields, lkey = self.table()
            am = rng.random() < 0.5 if iv else rng.random() < 0.1
            wrong = rng.random() < 0.1
            if iv:
                keys = self.keys_for([iv], lfields, wrong)
            else:
                n = len(rkey) if rng.random() < 0.8 else rng.randint(1, len(rkey))
                ktypes = [rfields[k] for k in rkey[:n]]
                if rng.random() < 0.25 and [lfields[k] for k in lkey[:n]] == ktypes:
                    keys = [['rf', k] for k in lkey[:n]]                  # the key fields themselves (no re-keying)
                else:
                    keys = self.keys_for(ktypes, lfields, wrong)
            lk = ['lookup', 'index', R, keys, am] if (am or rng.random() < 0.5) else ['lookup', 'getitem', R, keys]
            f = rng.choice([x for x in L.FIELDS if x not in lkey] or ['e'])
            fs = [[f, self.use(lk, rfields, rkey, am)]]
            if rng.random() < 0.2:
                fs.append(['e', self.expr(rng.choice(TYPES), lfields)])
            op = rng.random()
            if op < 0.85:
                return ['annotate', Lp, fs]
            if op < 0.93 and not am:
                return ['filter', Lp, ['cmp', '==', self.use(lk, rfields, rkey, am), self.use(lk, rfields, rkey, am)]]
            return ['keyby_expr', Lp, fs]
        if fam == 'mchain':
            M, row, col, entry, rk, ck = self.matrix()
            return rng.choice([M, ['rows', M], ['cols', M], ['entries', M]])
        if fam in ('mlookup', 'mivlookup'):
            # a MatrixTable row / col context looking up a table
            M, row, col, entry, rk, ck = self.matrix()
            iv = rng.choice(['int32', 'int32', 'str', 'float64']) if fam == 'mivlookup' else None
            R, rfields, rkey = self.table(interval=iv, extra_key=(iv is not None and rng.random() < 0.2))
            am = rng.random() < 0.5 if iv else False
            axis = 'rows' if iv or rng.random() < 0.6 else 'cols'
            fields, key = (row, rk) if axis == 'rows' else (col, ck)
            if iv:
                keys = [['rf', rk[0]]] if rng.random() < 0.6 and row[rk[0]] == iv else self.keys_for([iv], fields)
            else:
                ktypes = [rfields[k] for k in rkey]
                if [fields[k] for k in key[:len(ktypes)]] == ktypes and rng.random() < 0.8:
                    keys = [['rf', k] for k in key[:len(ktypes)]]
                else:
                    keys = self.keys_for(ktypes, fields)
            lk = ['lookup', 'index', R, keys, am]
            f = rng.choice([x for x in ['a', 'b', 'c', 'd', 'e', 'f', 'h'] if x not in row and x not in col and x not in entry])
            out = ['mannotate_rows' if axis == 'rows' else 'mannotate_cols', M, [[f, self.use(lk, rfields, rkey, am)]]]
            return rng.choice([out, [axis, out], ['entries', out]])
        if fam == 'msource':
            # a table looking up rows / cols / entries of a MatrixTable
            M, row, col, entry, rk, ck = self.matrix()
            Lp, lfields, lkey = self.table()
            how = rng.choice(['rows', 'cols', 'entries'])
            if how == 'rows':
                keys, rf, rkk = self.keys_for([row[k] for k in rk], lfields), row, rk
                lk = ['lookup', 'rows', M, keys]
            elif how == 'cols':
                keys, rf, rkk = self.keys_for([col[k] for k in ck], lfields), col, ck
                lk = ['lookup', 'cols', M, keys]
            else:
                keys = self.keys_for([row[k] for k in rk] + [col[k] for k in ck], lfields)
                rf, rkk = {**row, **col, **entry}, rk + ck
                lk = ['lookup', 'entries', M, keys, len(rk)]
            f = rng.choice([x for x in L.FIELDS if x not in lkey] or ['e'])
            return ['annotate', Lp, [[f, self.use(lk, rf, rkk, False)]]]
        # join
        A, af, ak = self.table()
        B, bf, bk = self.table()
        if rng.random() < 0.7:
            # make the keys and the value names compatible
            B = ['keyby', ['annotate', ['range'], [['z', self.expr(rng.choice(TYPES), {'idx': 'int32'})]] +
                           [[k, self.expr(af[k], {'idx': 'int32'})] for k in ak if k != 'idx']], list(ak)]
            if 'idx' not in ak:
                B = ['drop', B, ['idx']]
        return ['join', A, B, rng.choice(['inner', 'left', 'outer'])]
