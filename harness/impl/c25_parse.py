"""Run the real size-string parsers (hailtop/batch_client/parse.py) and the real job validator (batch/front_end/validate.py).

in : {"op": "eval", "strings": [[code points]], "server": bool}
out: {"cpu": [...], "memory": [...], "storage": [...]}   each  hex int string | null | "Raises:<ExcName>"
     {"server": {"cpu": [bool], "memory": [bool], "storage": [bool]}}   accepted by job_validator['resources'] for {key: s}
     {"fraction": [[num, den] | "Raises:..."]}  with op "fraction": fractions.Fraction(s) as two hex strings
"""
import json
import sys

import hailload
hailload.install()
from hailtop.batch_client import parse  # noqa: E402


def s_of(cps):
    return ''.join(chr(c) for c in cps)


def run(f, s):
    try:
        r = f(s)
    except Exception as e:  # noqa
        return 'Raises:' + type(e).__name__
    if r is None:
        return None
    if isinstance(r, bool) or not isinstance(r, int):
        return f'Raises:non-int-result:{type(r).__name__}:{r!r}'[:80]
    return hex(r)        # hex: no int<->str digit limit, the values may have thousands of digits


def main():
    req = json.load(sys.stdin)
    ss = [s_of(c) for c in req['strings']]
    out = {}
    if req['op'] == 'eval':
        out['cpu'] = [run(parse.parse_cpu_in_mcpu, s) for s in ss]
        out['memory'] = [run(parse.parse_memory_in_bytes, s) for s in ss]
        out['storage'] = [run(parse.parse_storage_in_bytes, s) for s in ss]
        if req.get('server'):
            from batch.front_end.validate import job_validator
            from hailtop.utils.validate import ValidationError
            res = job_validator['resources']
            srv = {}
            for key in ('cpu', 'memory', 'storage'):
                acc = []
                for s in ss:
                    try:
                        res.validate('resources', {key: s})
                        acc.append(True)
                    except ValidationError:
                        acc.append(False)
                    except Exception as e:  # noqa
                        acc.append('Raises:' + type(e).__name__)
                srv[key] = acc
            out['server'] = srv
            from batch.globals import memory_types
            out['memory_types'] = list(memory_types)
    elif req['op'] == 'fraction':
        from fractions import Fraction
        fr = []
        for s in ss:
            try:
                q = Fraction(s)
                fr.append([hex(q.numerator), hex(q.denominator)])
            except Exception as e:  # noqa
                fr.append('Raises:' + type(e).__name__)
        out['fraction'] = fr
    json.dump(out, sys.stdout)


main()
