"""C12 implementation side (real modules through the loader).

modes: tables | helpers (evaluate the real arithmetic helpers on given arguments) | sweep (exhaustive check of
adjust_cores_for_packability against its integer specification over a range) | storage_sweep (the real storage rounding
helpers at all given GiB boundaries, raw results) | select (build the real InstanceCollectionConfigs from given pool
configurations and run select_inst_coll on given requests; a request may carry its storage as the job-spec STRING
`storage_str`, which is then read by the real parse_storage_in_bytes as front_end._create_jobs does)
"""
import hashlib
import json
import sys

import hailload
hailload.install()

from batch.cloud import resource_utils as ru  # noqa: E402
from batch.cloud.gcp import resource_utils as g  # noqa: E402
from batch.cloud.azure import resource_utils as a  # noqa: E402
from batch import inst_coll_config as icc  # noqa: E402
from batch.driver.billing_manager import ProductVersions  # noqa: E402
from hailtop.batch_client import parse  # noqa: E402


def tables():
    t = {}
    t['mpc'] = [['gcp', wt, g.gcp_worker_memory_per_core_mib(g.GCP_MACHINE_FAMILY, wt)] for wt in g.gcp_valid_cores_for_pool_worker_type] + \
               [['azure', wt, a.azure_worker_memory_per_core_mib(wt)] for wt in a.azure_valid_cores_from_worker_type]
    t['pool_cores'] = [['gcp', wt, list(ru.possible_cores_from_worker_type('gcp', wt))] for wt in g.gcp_valid_cores_for_pool_worker_type] + \
                      [['azure', wt, list(ru.possible_cores_from_worker_type('azure', wt))] for wt in a.azure_valid_cores_from_worker_type]
    t['machines'] = []
    for cloud in ('gcp', 'azure'):
        for mt in ru.valid_machine_types(cloud):
            c, m = ru.machine_type_to_cores_and_memory_bytes(cloud, mt)
            t['machines'].append([cloud, mt, c, m])
    t['max_storage_gib'] = {'gcp': g.GCP_MAX_PERSISTENT_SSD_SIZE_GIB, 'azure': a.AZURE_MAX_PERSISTENT_SSD_SIZE_GIB}
    t['memory_to_worker_type'] = {c: dict(ru.memory_to_worker_type(c)) for c in ('gcp', 'azure')}
    return t


def guard(f, *args):
    try:
        return f(*args)
    except AssertionError:
        return 'AssertionError'
    except Exception as e:  # noqa
        return type(e).__name__


def helpers(req):
    out = []
    for name, args in req['calls']:
        if name == 'pack':
            out.append(guard(ru.adjust_cores_for_packability, *args))
        elif name == 'storage_gib':          # cloud, bytes, allow_zero
            out.append(guard(ru.requested_storage_bytes_to_actual_storage_gib, *args))
        elif name == 'round_gib':            # bytes
            out.append(guard(ru.round_storage_bytes_to_gib, *args))
        elif name == 'storage_str':          # cloud, request string, allow_zero: the storage path of a job spec
            out.append(storage_path(*args))
        elif name == 'adjust_mem':           # cloud, worker_type, cores, memory
            cloud, wt, c, m = args
            out.append(guard(g.gcp_adjust_cores_for_memory_request, c, m, g.GCP_MACHINE_FAMILY, wt) if cloud == 'gcp'
                       else guard(a.azure_adjust_cores_for_memory_request, c, m, wt))
        elif name == 'mem_of':               # cloud, worker_type, mcpu
            cloud, wt, c = args
            out.append(guard(g.gcp_cores_mcpu_to_memory_bytes, c, g.GCP_MACHINE_FAMILY, wt) if cloud == 'gcp'
                       else guard(a.azure_cores_mcpu_to_memory_bytes, c, wt))
        elif name == 'convert':              # cloud, worker_type, worker_cores, cores, memory, storage
            cloud, wt, wc, c, m, s = args
            r = guard(make_pool(dict(name='p', cloud=cloud, worker_type=wt, worker_cores=wc, preemptible=True, label='')).convert_requests_to_resources, c, m, s)
            out.append(list(r) if isinstance(r, tuple) else r)
        else:
            raise SystemExit('unknown helper ' + name)
    return out


def storage_path(cloud, string, allow_zero):
    """what happens to the `storage` string of a job spec: front_end parses it (parse_storage_in_bytes), the instance collection
    turns the bytes into whole GiB (requested_storage_bytes_to_actual_storage_gib), the worker accepts the GiB
    (is_valid_storage_request, asserted in Job.__init__) and limits the job's disk to storage_gib_to_bytes(GiB) bytes"""
    b = guard(parse.parse_storage_in_bytes, string)
    r = {'bytes': b, 'gib': None, 'quota': None, 'valid': None}
    if not isinstance(b, int) or isinstance(b, bool):
        return r
    gib = guard(ru.requested_storage_bytes_to_actual_storage_gib, cloud, b, allow_zero)
    r['gib'] = gib
    if isinstance(gib, int) and not isinstance(gib, bool):
        r['quota'] = guard(ru.storage_gib_to_bytes, gib)
        v = guard(ru.is_valid_storage_request, cloud, gib)
        r['valid'] = v if isinstance(v, str) else bool(gib == 0 or v)
    return r


def storage_sweep(req):
    """the real rounding helpers at every byte count k * 2^30 + offset (>= 0) of the given k's and offsets, k-major order:
    raw results only, the plug-in judges them"""
    gib = 1 << 30
    bs = [k * gib + off for k in req['ks'] for off in req['offsets'] if k * gib + off >= 0]
    out = {'n': len(bs), 'round': [guard(ru.round_storage_bytes_to_gib, b) for b in bs]}
    for cloud in ('gcp', 'azure'):
        for allow in (True, False):
            out[f'{cloud}:{int(allow)}'] = [guard(ru.requested_storage_bytes_to_actual_storage_gib, cloud, b, allow) for b in bs]
    return out


def sweep(req):
    """adjust_cores_for_packability == least 250*2^k >= max(1, c), for every c of the range; returns the disagreements"""
    bad = []
    lo, hi = req['lo'], req['hi']
    for c in range(lo, hi + 1):
        want = 250
        cc = max(1, c)
        while want < cc:
            want *= 2
        got = guard(ru.adjust_cores_for_packability, c)
        if got != want:
            bad.append([c, want, got])
            if len(bad) > 20:
                break
    return {'checked': hi - lo + 1, 'bad': bad}


def make_pool(p):
    return icc.PoolConfig(
        name=p['name'], cloud=p['cloud'], worker_type=p['worker_type'], worker_cores=p['worker_cores'],
        worker_local_ssd_data_disk=p.get('local_ssd', True), worker_external_ssd_data_disk_size_gb=p.get('ext_ssd', 0),
        standing_worker_cores=p['worker_cores'], boot_disk_size_gb=p.get('boot', 10), min_instances=0, max_instances=10, max_live_instances=10,
        preemptible=p['preemptible'], max_new_instances_per_autoscaler_loop=10, autoscaler_loop_period_secs=15, worker_max_idle_time_secs=30,
        standing_worker_max_idle_time_secs=30, job_queue_scheduling_window_secs=150, label=p['label'])


class Rates(dict):
    """a deterministic positive rate for every resource name (the real table lives in the database)"""

    def __init__(self, salt):
        super().__init__()
        self.salt = salt

    def __missing__(self, name):
        h = int(hashlib.sha256((self.salt + name).encode()).hexdigest()[:8], 16)
        v = (1 + h % 1000) * 1e-12
        self[name] = v
        return v


class PV(ProductVersions):
    def __init__(self):
        super().__init__({})

    def latest_version(self, product):
        return '1'


def select(req):
    out = []
    for sc in req['scenarios']:
        pools = {p['name']: make_pool(p) for p in sc['pools']}
        jp = icc.JobPrivateInstanceManagerConfig(name='job-private', cloud=sc['jpim_cloud'], boot_disk_size_gb=10, max_instances=10, max_live_instances=10,
                                                 max_new_instances_per_autoscaler_loop=10, autoscaler_loop_period_secs=15, worker_max_idle_time_secs=30)
        configs = icc.InstanceCollectionConfigs(pools, jp, Rates(sc.get('salt', '')), {})
        configs.product_versions = PV()
        locs = sc.get('locations', ['us-central1'])
        icc.possible_cloud_locations = lambda cloud, locs=locs: set(locs)
        res = []
        for r in sc['requests']:
            storage = r['storage']
            if r.get('storage_str') is not None:      # front_end._create_jobs: req_storage_bytes = parse_storage_in_bytes(resources['req_storage'])
                storage = guard(parse.parse_storage_in_bytes, r['storage_str'])
            if not isinstance(storage, int) or isinstance(storage, bool):
                res.append({'result': f'storage-string-unparsed:{storage}', 'prices': [], 'storage_bytes': None})
                continue
            got = guard(configs.select_inst_coll, r['cloud'], r.get('machine_type'), r['label'], r['preemptible'], r.get('worker_type'),
                        r.get('cores'), r.get('memory'), storage)
            if isinstance(got, tuple):
                got = None if got[0] is None else list(got[0])
            # prices of the candidates, from the real price function, for the model's cheapest-pool choice
            prices = []
            if r.get('machine_type') is None and r.get('worker_type') is None:
                for p in pools.values():
                    pr = None
                    if p.cloud == r['cloud'] and p.preemptible == r['preemptible'] and p.label == r['label']:
                        conv = guard(p.convert_requests_to_resources, r['cores'], r['memory'], storage)
                        if isinstance(conv, tuple):
                            pr = guard(lambda: max(p.price_per_hour(configs.resource_rates, configs.product_versions, loc, *conv) for loc in sorted(locs)))
                            if isinstance(pr, str):
                                pr = None      # the real select raised as well; reported through `result`
                    prices.append(pr)
            res.append({'result': got, 'prices': prices, 'storage_bytes': storage})
        out.append(res)
    return out


def main():
    req = json.load(sys.stdin)
    m = req['mode']
    if m == 'tables':
        json.dump(tables(), sys.stdout)
    elif m == 'helpers':
        json.dump({'results': helpers(req)}, sys.stdout)
    elif m == 'sweep':
        json.dump(sweep(req), sys.stdout)
    elif m == 'storage_sweep':
        json.dump(storage_sweep(req), sys.stdout)
    elif m == 'select':
        json.dump({'results': select(req)}, sys.stdout)
    else:
        raise SystemExit('unknown mode')


main()
