"""C32 implementation side: run the REAL HailType._convert_to_json_na / _convert_from_json_na (and the text level
_to_json / _from_json) of $VERIF_REPO on typed values described in the neutral format."""
import json
import math
import struct
import sys

from hail_values import mk_type, mk_value, canon_value, py_equal, describe_exception, cps
import numpy as np


def canon_json(j):
    """The Python object tree handed to json.dumps -> neutral JSON tree (untyped)."""
    if j is None:
        return ['null']
    if isinstance(j, (bool, np.bool_)):
        return ['bool', bool(j)]
    if isinstance(j, int):
        return ['int', j]
    if isinstance(j, float):
        if math.isnan(j):
            return ['float', 'nan', None]
        if math.isinf(j):
            return ['float', 'inf' if j > 0 else '-inf', None]
        return ['float', 'fin', struct.unpack('<Q', struct.pack('<d', j))[0]]
    if isinstance(j, str):
        return ['str', cps(j)]
    if isinstance(j, (list, tuple)):
        return ['list', [canon_json(x) for x in j]]
    if isinstance(j, dict):
        if not all(isinstance(k, str) for k in j):
            return ['?', 'non-str-key']
        return ['obj', [[cps(k), canon_json(v)] for k, v in j.items()]]
    return ['?', type(j).__name__, repr(j)[:60]]


def run_case(c):
    t, v = c['t'], c['v']
    out = {}
    ht = mk_type(t)
    pv = mk_value(t, v)
    try:
        j = ht._convert_to_json_na(pv)
        out['json'] = canon_json(j)
    except Exception as e:  # noqa: BLE001
        out['json_exc'] = describe_exception(e)
        j = None
    if 'json' in out:
        try:
            back = ht._convert_from_json_na(j)
            out['back'] = canon_value(t, back)
            out['eq'] = py_equal(t, pv, back)
            try:
                out['pyeq'] = bool(pv == back)
            except Exception:  # noqa: BLE001
                out['pyeq'] = None
        except Exception as e:  # noqa: BLE001
            out['back_exc'] = describe_exception(e)
    # text level (json.dumps / json.loads included)
    try:
        s = ht._to_json(pv)
        back2 = ht._from_json(s)
        out['text_back'] = canon_value(t, back2)
        out['text_eq'] = py_equal(t, pv, back2)
    except Exception as e:  # noqa: BLE001
        out['text_exc'] = describe_exception(e)
    return out


def main():
    req = json.load(sys.stdin)
    res = []
    for c in req['cases']:
        try:
            res.append(run_case(c))
        except Exception as e:  # noqa: BLE001   (building the type/value failed: harness-level problem, reported as such)
            res.append({'build_exc': describe_exception(e)})
    json.dump({'results': res}, sys.stdout)


main()
