"""C36 — program / value languages shared by harness/props/C36.py and harness/impl/c36_types.py, their generators and
the conversions to and from the Coq model (coq/theories/Typing/Model.v).  Pure Python.

Programs (what is written with the expression API):
  ['litint', z] ['litfloat', k] ['litbool', b] ['litstr', k] ['arith', op, a, b] ['neg', a] ['not', a] ['cmp', op, a, b]
  ['if', c, a, b] ['bind', x, a, b] ['var', x] ['struct', [[f, e]..]] ['field', e, f] ['annotate', e, [[f, e]..]]
  ['select', e, [f..]] ['drop', e, [f..]] ['array', [e..]] ['len', e] ['index', e, i] ['map', x, a, b] ['filter', x, a, b]
  ['fold', acc, x, a, z, b] ['tuple', [e..]] ['tupleget', e, i] ['cast', t, e] ['strof', e] ['concat', a, b]
Values: ['none'] ['bool', b] ['int', z] ['float', k] ['str', k] ['list', [v..]] ['tuple', [v..]] ['struct', [[f, v]..]]
Types: 'int32' 'int64' 'float32' 'float64' 'bool' 'str' ['array', t] ['stream', t] ['struct', [[f, t]..]] ['tuple', [t..]]
"""

ARITH = ['+', '-', '*', '//', '/']
CMP = ['<', '<=', '>', '>=', '==', '!=']
NUM = ['bool', 'int32', 'int64', 'float32', 'float64']
FIELDS = ['a', 'b', 'c', 'd']


class Names:
    def __init__(self):
        self.fields = {f: i for i, f in enumerate(FIELDS)}
        self.vars = {}

    def field(self, f):
        return str(self.fields.setdefault(f, len(self.fields)))

    def var(self, x):
        return str(self.vars.setdefault(x, len(self.vars)))

    def field_back(self, n):
        return {v: k for k, v in self.fields.items()}[n]


_TY = {'int32': 'TI32', 'int64': 'TI64', 'float32': 'TF32', 'float64': 'TF64', 'bool': 'TBool', 'str': 'TStr'}
_RTY = {v: k for k, v in _TY.items()}
_AR = {'+': 'Add', '-': 'Sub', '*': 'Mul', '//': 'FloorDiv', '/': 'Div'}
_RAR = {v: k for k, v in _AR.items()}
_CM = {'<': 'Lt', '<=': 'Le', '>': 'Gt', '>=': 'Ge', '==': 'Eq', '!=': 'Ne'}
_RCM = {v: k for k, v in _CM.items()}
_UN = {'Neg': '-', 'Not': '!'}


def ty_to_coq(t, names):
    if isinstance(t, str):
        return _TY[t]
    if t[0] == 'array':
        return f'(TArr {ty_to_coq(t[1], names)})'
    if t[0] == 'stream':
        return f'(TStream {ty_to_coq(t[1], names)})'
    if t[0] == 'interval':
        return f'(TInterval {ty_to_coq(t[1], names)})'
    if t[0] == 'struct':
        return '(TStruct [' + '; '.join(f'({names.field(f)}, {ty_to_coq(ft, names)})' for f, ft in t[1]) + '])'
    if t[0] == 'tuple':
        return '(TTuple [' + '; '.join(ty_to_coq(x, names) for x in t[1]) + '])'
    raise ValueError(t)


def fe_to_coq(p, names):
    k = p[0]
    r = lambda q: fe_to_coq(q, names)  # noqa: E731
    fl = lambda fs: '[' + '; '.join(f'({names.field(f)}, {r(q)})' for f, q in fs) + ']'  # noqa: E731
    if k == 'litint':
        return f'(ELitInt ({p[1]}))'
    if k == 'litfloat':
        return f'(ELitFloat {p[1]})'
    if k == 'litbool':
        return f'(ELitBool {"true" if p[1] else "false"})'
    if k == 'litstr':
        return f'(ELitStr {p[1]})'
    if k == 'arith':
        return f'(EArith {_AR[p[1]]} {r(p[2])} {r(p[3])})'
    if k == 'neg':
        return f'(ENeg {r(p[1])})'
    if k == 'not':
        return f'(ENot {r(p[1])})'
    if k == 'cmp':
        return f'(ECmp {_CM[p[1]]} {r(p[2])} {r(p[3])})'
    if k == 'if':
        return f'(EIf {r(p[1])} {r(p[2])} {r(p[3])})'
    if k == 'bind':
        return f'(EBind {names.var(p[1])} {r(p[2])} {r(p[3])})'
    if k == 'var':
        return f'(EVar {names.var(p[1])})'
    if k == 'struct':
        return f'(EStruct {fl(p[1])})'
    if k == 'field':
        return f'(EField {r(p[1])} {names.field(p[2])})'
    if k == 'annotate':
        return f'(EAnnotate {r(p[1])} {fl(p[2])})'
    if k in ('select', 'drop'):
        return f'({"ESelect" if k == "select" else "EDrop"} {r(p[1])} [' + '; '.join(names.field(f) for f in p[2]) + '])'
    if k == 'array':
        return '(EArray [' + '; '.join(r(q) for q in p[1]) + '])'
    if k == 'len':
        return f'(ELen {r(p[1])})'
    if k == 'index':
        return f'(EIndex {r(p[1])} {r(p[2])})'
    if k in ('map', 'filter'):
        return f'({"EMap" if k == "map" else "EFilter"} {names.var(p[1])} {r(p[2])} {r(p[3])})'
    if k == 'fold':
        return f'(EFold {names.var(p[1])} {names.var(p[2])} {r(p[3])} {r(p[4])} {r(p[5])})'
    if k == 'tuple':
        return '(ETuple [' + '; '.join(r(q) for q in p[1]) + '])'
    if k == 'tupleget':
        return f'(ETupleGet {r(p[1])} {p[2]}%nat)'
    if k == 'cast':
        return f'(ECast {_TY[p[1]]} {r(p[2])})'
    if k == 'strof':
        return f'(EStrOf {r(p[1])})'
    if k == 'concat':
        return f'(EConcat {r(p[1])} {r(p[2])})'
    if k == 'interval':
        return f'(EInterval {r(p[1])} {r(p[2])})'
    if k == 'coq':                       # a ready-made Gallina term (c36_tlang: field references, lookups)
        return p[1]
    raise ValueError(p)


def pv_to_coq(v, names):
    k = v[0]
    if k == 'none':
        return 'PNone'
    if k == 'bool':
        return f'(PBool {"true" if v[1] else "false"})'
    if k == 'int':
        return f'(PInt ({v[1]}))'
    if k == 'float':
        return f'(PFloat {v[1]})'
    if k == 'str':
        return f'(PStr {v[1]})'
    if k in ('list', 'tuple'):
        return f'({"PList" if k == "list" else "PTuple"} [' + '; '.join(pv_to_coq(x, names) for x in v[1]) + '])'
    if k == 'struct':
        return '(PStruct [' + '; '.join(f'({names.field(f)}, {pv_to_coq(x, names)})' for f, x in v[1]) + '])'
    raise ValueError(v)


def coq_to_ty(v, names):
    if isinstance(v, str):
        return _RTY[v]
    if v[0] == 'TArr':
        return ['array', coq_to_ty(v[1], names)]
    if v[0] == 'TStream':
        return ['stream', coq_to_ty(v[1], names)]
    if v[0] == 'TInterval':
        return ['interval', coq_to_ty(v[1], names)]
    if v[0] == 'TStruct':
        return ['struct', [[names.field_back(f), coq_to_ty(t, names)] for f, t in v[1]]]
    if v[0] == 'TTuple':
        return ['tuple', [coq_to_ty(t, names) for t in v[1]]]
    raise ValueError(v)


def coq_to_ir(v, names):
    """Parsed model IR -> neutral term in the form produced by c36_types.export_ir (binders still the model's numbers)."""
    if isinstance(v, str):
        return [[{'TrueIR': 'True', 'FalseIR': 'False'}[v]], []]
    k = v[0]
    r = lambda x: coq_to_ir(x, names)  # noqa: E731
    if k in ('I32', 'I64', 'F64', 'Str'):
        return [[k, v[1]], []]
    if k == 'Apply':
        return [['Apply', v[1], coq_to_ty(v[2], names)], [r(x) for x in v[3]]]
    if k == 'BinOp':
        return [['BinOp', _RAR[v[1]]], [r(v[2]), r(v[3])]]
    if k == 'UnOp':
        return [['UnOp', _UN[v[1]]], [r(v[2])]]
    if k == 'CmpOp':
        return [['CmpOp', _RCM[v[1]]], [r(v[2]), r(v[3])]]
    if k == 'If':
        return [['If'], [r(v[1]), r(v[2]), r(v[3])]]
    if k == 'Let':
        return [['Let', ('m', v[1])], [r(v[2]), r(v[3])]]
    if k == 'Ref':
        return [['Ref', ('m', v[1]), coq_to_ty(v[2], names)], []]
    if k == 'MakeStruct':
        return [['MakeStruct', [names.field_back(f) for f, _ in v[1]]], [r(x) for _, x in v[1]]]
    if k == 'GetField':
        return [['GetField', names.field_back(v[2])], [r(v[1])]]
    if k == 'InsertFields':
        return [['InsertFields', [names.field_back(f) for f, _ in v[2]]], [r(v[1])] + [r(x) for _, x in v[2]]]
    if k == 'SelectFields':
        return [['SelectFields', [names.field_back(f) for f in v[2]]], [r(v[1])]]
    if k in ('MakeArray', 'MakeTuple'):
        return [[k], [r(x) for x in v[1]]]
    if k in ('ArrayLen', 'CastToArray', 'ToArray', 'ToStream'):
        return [[k], [r(v[1])]]
    if k in ('StreamMap', 'StreamFilter'):
        return [[k, ('m', v[1])], [r(v[2]), r(v[3])]]
    if k == 'StreamFold':
        return [['StreamFold', ('m', v[1]), ('m', v[2])], [r(v[3]), r(v[4]), r(v[5])]]
    if k == 'GetTupleElement':
        return [['GetTupleElement', v[2]], [r(v[1])]]
    if k == 'Coalesce':
        return [['Coalesce'], [r(v[1]), r(v[2])]]
    raise ValueError(v)


def renumber(t, table=None):
    """Rename binder names (('m', n) markers) in order of first occurrence, as export_ir does for the real names."""
    table = {} if table is None else table
    h, cs = t
    h2 = [table.setdefault(x, len(table)) if isinstance(x, tuple) else x for x in h]
    return [h2, [renumber(c, table) for c in cs]]


# ------------------------------------------------------------------------------------------------ generators

STRUCTS = [[['a', 'int32']], [['a', 'int32'], ['b', 'str']], [['a', 'float64'], ['c', 'bool']], [['b', 'int64'], ['d', 'int32']]]


class Gen:
    """Typed programs, mostly accepted by the front end; a fraction deliberately mixes types (coercions, rejections)."""

    def __init__(self, rng, budget=8):
        self.rng, self.n, self.budget = rng, 0, budget

    def fresh(self):
        self.n += 1
        return f'v{self.n}'

    def program(self):
        t = self.rng.choice(['int32', 'int64', 'float64', 'bool', 'str', ['array', 'int32'], ['array', 'float64'],
                             ['struct', self.rng.choice(STRUCTS)], ['tuple', ['int32', 'str']], 'num', 'num'])
        return self.gen(t, self.budget, [])

    def num(self):
        return self.rng.choice(['int32', 'int32', 'int64', 'float64', 'float64', 'bool', 'float32'])

    def gen(self, t, d, env):
        rng = self.rng
        if t == 'num':
            t = self.num()
        vs = [x for x, xt in env if xt == t]
        if vs and rng.random() < 0.3:
            return ['var', rng.choice(vs)]
        if d <= 0:
            return self.leaf(t)
        h = d // 2
        if t in NUM and t != 'bool':
            k = rng.choice(['lit', 'arith', 'arith', 'arith', 'neg', 'if', 'bind', 'cast', 'field', 'index', 'fold', 'len', 'tupleget', 'mixif'])
            if k == 'arith':
                # operands of any numeric type not above t: the front end must insert the conversions
                op = rng.choice(ARITH)
                lo = [x for x in NUM if NUM.index(x) <= NUM.index(t)] or [t]
                if op == '/' and t in ('int32', 'int64'):
                    op = '+'
                a_t = t if rng.random() < 0.5 else rng.choice(lo)
                b_t = t if a_t != t or rng.random() < 0.6 else rng.choice(lo)
                if op == '/' and t == 'float64' and rng.random() < 0.3:
                    a_t, b_t = rng.choice(['int32', 'int64']), rng.choice(['int32', 'int64', 'bool'])
                return ['arith', op, self.gen(a_t, h, env), self.gen(b_t, h, env)]
            if k == 'neg':
                return ['neg', self.gen(t if t != 'int32' or rng.random() < 0.7 else 'bool', d - 1, env)]
            if k == 'cast':
                return ['cast', t, self.gen(self.num(), d - 1, env)]
            if k == 'len' and t == 'int32':
                return ['len', self.gen(['array', rng.choice(['int32', 'str', 'float64'])], d - 1, env)]
            if k == 'mixif':
                lo = [x for x in NUM if NUM.index(x) <= NUM.index(t)]
                return ['if', self.gen('bool', d // 3, env), self.gen(t, h, env), self.gen(rng.choice(lo), h, env)]
            if k == 'fold':
                et = rng.choice(['int32', 'float64', t])
                acc, x = self.fresh(), self.fresh()
                zt = t if rng.random() < 0.7 else rng.choice([y for y in NUM if NUM.index(y) <= NUM.index(t)])
                return ['fold', acc, x, self.gen(['array', et], d // 3, env), self.gen(zt, d // 3, env),
                        self.gen(t if rng.random() < 0.8 else self.num(), h, env + [(acc, zt), (x, et)])]
            if k in ('field', 'index', 'tupleget', 'if', 'bind'):
                return self.generic(k, t, d, env)
            return self.leaf(t)
        if t == 'bool':
            k = rng.choice(['lit', 'cmp', 'cmp', 'cmp', 'not', 'if', 'bind', 'field'])
            if k == 'cmp':
                ct = rng.choice(['num', 'num', 'str', 'bool', ['array', 'int32']])
                if ct == 'num':
                    return ['cmp', rng.choice(CMP), self.gen(self.num(), h, env), self.gen(self.num(), h, env)]
                return ['cmp', rng.choice(CMP), self.gen(ct, h, env), self.gen(ct, h, env)]
            if k == 'not':
                return ['not', self.gen('bool' if rng.random() < 0.9 else 'int32', d - 1, env)]
            if k in ('field', 'if', 'bind'):
                return self.generic(k, t, d, env)
            return self.leaf(t)
        if t == 'str':
            k = rng.choice(['lit', 'concat', 'strof', 'if', 'bind', 'field', 'tupleget'])
            if k == 'concat':
                return ['concat', self.gen('str', h, env), self.gen('str', h, env)]
            if k == 'strof':
                return ['strof', self.gen(rng.choice(['int32', 'float64', 'str', 'bool']), d - 1, env)]
            if k in ('field', 'if', 'bind', 'tupleget'):
                return self.generic(k, t, d, env)
            return self.leaf(t)
        if t[0] == 'array':
            k = rng.choice(['array', 'array', 'map', 'map', 'filter', 'if', 'bind'])
            if k == 'array':
                n = rng.randint(1, 3)
                ets = [t[1]] * n
                if t[1] in NUM and rng.random() < 0.5:
                    lo = [x for x in NUM if NUM.index(x) <= NUM.index(t[1])]
                    ets = [t[1]] + [rng.choice(lo) for _ in range(n - 1)]
                    rng.shuffle(ets)
                return ['array', [self.gen(et, d // (n + 1), env) for et in ets]]
            if k == 'map':
                et = rng.choice(['int32', 'float64', 'str', ['struct', rng.choice(STRUCTS)]])
                x = self.fresh()
                return ['map', x, self.gen(['array', et], h, env), self.gen(t[1], h, env + [(x, et)])]
            if k == 'filter':
                x = self.fresh()
                return ['filter', x, self.gen(t, h, env), self.gen('bool' if rng.random() < 0.9 else 'int32', h, env + [(x, t[1])])]
            return self.generic(k, t, d, env)
        if t[0] == 'struct':
            k = rng.choice(['struct', 'struct', 'annotate', 'annotate', 'select', 'drop', 'if', 'bind'])
            if k == 'struct':
                return ['struct', [[f, self.gen(ft, d // (len(t[1]) + 1), env)] for f, ft in t[1]]]
            if k == 'annotate':
                # base struct with some of the fields (possibly of another type), the rest annotated
                base = [[f, ft if rng.random() < 0.6 else rng.choice(['int32', 'str', 'float64'])] for f, ft in t[1] if rng.random() < 0.6]
                new = [[f, ft] for f, ft in t[1] if [f, ft] not in base]
                order = [f for f, _ in base] + [f for f, _ in new if f not in [g for g, _ in base]]
                if order != [f for f, _ in t[1]]:
                    return ['struct', [[f, self.gen(ft, d // (len(t[1]) + 1), env)] for f, ft in t[1]]]
                rng.shuffle(new)
                return ['annotate', self.gen(['struct', base], h, env), [[f, self.gen(ft, d // (len(new) + 1), env)] for f, ft in new]]
            if k == 'select':
                extra = [[f, rng.choice(['int32', 'str'])] for f in FIELDS if f not in [g for g, _ in t[1]] and rng.random() < 0.5]
                base = t[1] + extra
                rng.shuffle(base)
                return ['select', self.gen(['struct', base], d - 1, env), [f for f, _ in t[1]]]
            if k == 'drop':
                extra = [[f, rng.choice(['int32', 'str'])] for f in FIELDS if f not in [g for g, _ in t[1]] and rng.random() < 0.6]
                if not extra:
                    return self.leaf(t)
                pos = rng.randint(0, len(t[1]))
                base = t[1][:pos] + extra + t[1][pos:]
                return ['drop', self.gen(['struct', base], d - 1, env), [f for f, _ in extra]]
            return self.generic(k, t, d, env)
        if t[0] == 'tuple':
            k = rng.choice(['tuple', 'tuple', 'if', 'bind'])
            if k == 'tuple':
                return ['tuple', [self.gen(x, d // (len(t[1]) + 1), env) for x in t[1]]]
            return self.generic(k, t, d, env)
        raise AssertionError(t)

    def generic(self, k, t, d, env):
        rng = self.rng
        h = d // 2
        if k == 'if':
            return ['if', self.gen('bool', d // 3, env), self.gen(t, h, env), self.gen(t, h, env)]
        if k == 'bind':
            bt = rng.choice(['int32', 'float64', 'str', ['array', 'int32'], ['struct', rng.choice(STRUCTS)]])
            x = self.fresh()
            return ['bind', x, self.gen(bt, h, env), self.gen(t, h, env + [(x, bt)])]
        if k == 'field':
            f = rng.choice(FIELDS)
            others = [[g, rng.choice(['int32', 'str', 'bool'])] for g in FIELDS if g != f and rng.random() < 0.4]
            st = others + [[f, t]]
            rng.shuffle(st)
            return ['field', self.gen(['struct', st], d - 1, env), f]
        if k == 'index':
            return ['index', self.gen(['array', t], h, env), self.gen('int32' if rng.random() < 0.9 else 'int64', h, env)]
        if k == 'tupleget':
            ts = [rng.choice(['int32', 'str']) for _ in range(rng.randint(0, 2))]
            i = rng.randint(0, len(ts))
            ts.insert(i, t)
            return ['tupleget', self.gen(['tuple', ts], d - 1, env), i if rng.random() < 0.95 else len(ts)]
        raise AssertionError(k)

    def leaf(self, t):
        rng = self.rng
        if t == 'int32':
            return ['litint', rng.choice([0, 1, 3, -7, 2147483647, -2147483648])]
        if t == 'int64':
            return ['litint', rng.choice([2147483648, -2147483649, 2 ** 40, 9223372036854775807])]
        if t == 'float64':
            return ['litfloat', rng.randrange(4)]
        if t == 'float32':
            return ['cast', 'float32', ['litint', rng.choice([1, 2])]]
        if t == 'bool':
            return ['litbool', rng.random() < 0.5]
        if t == 'str':
            return ['litstr', rng.randrange(5)]
        if t[0] == 'array':
            return ['array', [self.leaf(t[1]) for _ in range(rng.randint(1, 2))]]
        if t[0] == 'struct':
            return ['struct', [[f, self.leaf(ft)] for f, ft in t[1]]]
        if t[0] == 'tuple':
            return ['tuple', [self.leaf(x) for x in t[1]]]
        raise AssertionError(t)


def gen_value(rng, d=3, same_fields=True):
    """Python values for impute_type: scalars, None, nested lists/tuples/Structs with mixed numeric element types."""
    k = rng.choice(['int', 'int', 'float', 'bool', 'str', 'none', 'list', 'list', 'list', 'tuple', 'struct'] if d > 0 else
                   ['int', 'float', 'bool', 'str', 'none'])
    if k == 'int':
        return ['int', rng.choice([0, 1, -5, 2147483647, 2147483648, -2147483649, 2 ** 40, 2 ** 63 - 1, 2 ** 63, -2 ** 63, -2 ** 63 - 1])]
    if k == 'float':
        return ['float', rng.randrange(5)]
    if k == 'bool':
        return ['bool', rng.random() < 0.5]
    if k == 'str':
        return ['str', rng.randrange(5)]
    if k == 'none':
        return ['none']
    if k == 'tuple':
        return ['tuple', [gen_value(rng, d - 1, same_fields) for _ in range(rng.randint(0, 3))]]
    if k == 'struct':
        fs = [f for f in FIELDS if rng.random() < 0.5]
        return ['struct', [[f, gen_value(rng, d - 1, same_fields)] for f in fs]]
    # list: elements drawn from one "family" so that unification usually succeeds
    n = rng.randint(0, 4)
    fam = rng.choice(['num', 'num', 'str', 'list', 'struct', 'tuple', 'any'])
    out = []
    fs = [f for f in FIELDS if rng.random() < 0.5]
    tl = rng.randint(0, 2)
    for _ in range(n):
        if rng.random() < 0.15:
            out.append(['none'])
        elif fam == 'num':
            out.append(rng.choice([['int', rng.choice([1, -2, 2 ** 40])], ['float', rng.randrange(5)], ['bool', True], ['int', 7]]))
        elif fam == 'str':
            out.append(['str', rng.randrange(5)])
        elif fam == 'list':
            out.append(['list', [rng.choice([['int', 1], ['float', 1], ['none'], ['int', 2 ** 40]]) for _ in range(rng.randint(0, 2))]]
                       if rng.random() < 0.7 else gen_value(rng, d - 1, same_fields))
        elif fam == 'struct':
            gs = fs if same_fields or rng.random() < 0.6 else [f for f in FIELDS if rng.random() < 0.5]
            out.append(['struct', [[f, rng.choice([['int', 1], ['float', 2], ['none'], ['str', 1], ['list', [['int', 3]]]])] for f in gs]])
        elif fam == 'tuple':
            out.append(['tuple', [rng.choice([['int', 1], ['str', 2], ['float', 0], ['none']]) for _ in range(tl)]])
        else:
            out.append(gen_value(rng, d - 1, same_fields))
    return ['list', out]


def struct_fields_agree(v):
    """True when every list in the value has Struct elements with identical field lists (the part of impute_type the
    model covers: the real function takes a union of the fields in an unspecified order otherwise)."""
    k = v[0]
    if k in ('list', 'tuple'):
        sigs = {tuple(f for f, _ in x[1]) for x in v[1] if x[0] == 'struct'}
        if k == 'list' and len(sigs) > 1:
            return False
        return all(struct_fields_agree(x) for x in v[1]) and (k == 'tuple' or _nested_struct_agree(v[1]))
    if k == 'struct':
        return all(struct_fields_agree(x) for _, x in v[1])
    return True


def _nested_struct_agree(elems):
    # lists of lists of structs, structs of structs ...: compare recursively by position
    lists = [x for x in elems if x[0] == 'list']
    if lists:
        merged = ['list', [y for x in lists for y in x[1]]]
        if not struct_fields_agree(merged):
            return False
    structs = [x for x in elems if x[0] == 'struct']
    if structs:
        for f in {f for s in structs for f, _ in s[1]}:
            col = ['list', [y for s in structs for g, y in s[1] if g == f]]
            if not struct_fields_agree(col):
                return False
    return True


# ------------------------------------------------------------------------------------------------
# reference: the type an IR term has under the strict rules (independent of the Coq model; used by the ORACLE on the IR the
# real front end emitted)

def _is_num(t):
    return t in NUM


def strict_ir_type(term, env=None):
    """Type of a neutral IR term, or None when some operand types disagree / a variable is unbound."""
    env = env or {}
    h, cs = term
    k = h[0]
    ty = lambda c, e=env: strict_ir_type(c, e)  # noqa: E731
    if k in ('I32', 'I64', 'F64', 'Str'):
        return {'I32': 'int32', 'I64': 'int64', 'F64': 'float64', 'Str': 'str'}[k]
    if k in ('True', 'False'):
        return 'bool'
    if k == 'Apply':
        ts = [ty(c) for c in cs]
        f, ret = h[1], h[2]
        if None in ts:
            return None
        if f in ('ToInt32', 'ToInt64', 'ToFloat32', 'ToFloat64'):
            want = {'ToInt32': 'int32', 'ToInt64': 'int64', 'ToFloat32': 'float32', 'ToFloat64': 'float64'}[f]
            return ret if len(ts) == 1 and _is_num(ts[0]) and ret == want else None
        if f == 'FConcat':
            return ret if ts == ['str', 'str'] and ret == 'str' else None
        if f == 'FLength':
            return ret if ts == ['str'] and ret == 'int32' else None
        if f == 'FIndexArray':
            return ret if len(ts) == 2 and isinstance(ts[0], list) and ts[0][0] == 'array' and ts[1] == 'int32' and ts[0][1] == ret else None
        if f == 'FStr':
            return ret if len(ts) == 1 and ret == 'str' else None
        if f == 'FInterval':
            return ret if len(ts) == 4 and ts[0] == ts[1] and ts[2] == ts[3] == 'bool' and ret == ['interval', ts[0]] else None
        return None
    if k == 'BinOp':
        a, b = ty(cs[0]), ty(cs[1])
        if a is None or a != b or not _is_num(a) or a == 'bool':
            return None
        return 'float64' if h[1] == '/' and a in ('int32', 'int64') else a
    if k == 'UnOp':
        a = ty(cs[0])
        if h[1] == '-':
            return a if _is_num(a) and a != 'bool' else None
        return 'bool' if a == 'bool' else None
    if k == 'CmpOp':
        a, b = ty(cs[0]), ty(cs[1])
        return 'bool' if a is not None and a == b else None
    if k == 'If':
        c, a, b = ty(cs[0]), ty(cs[1]), ty(cs[2])
        return a if c == 'bool' and a is not None and a == b else None
    if k == 'Let':
        a = ty(cs[0])
        return None if a is None else strict_ir_type(cs[1], {**env, h[1]: a})
    if k == 'NA':
        return h[1]
    if k == 'IsNA':
        return 'bool' if ty(cs[0]) is not None else None
    if k == 'AggSum':                     # AggOp Sum: the result has the type of the summed argument (a numeric, not bool)
        a = ty(cs[0])
        return a if a in NUM and a != 'bool' else None
    if k == 'Coalesce':
        ts = [ty(c) for c in cs]
        return ts[0] if ts and None not in ts and all(t == ts[0] for t in ts) else None
    if k == 'Ref':
        if h[2] is None:                 # a top-level reference (row / global / va / sa / g): typed by the node that binds it
            return env.get(h[1])
        return h[2] if env.get(h[1]) == h[2] else None
    if k == 'MakeStruct':
        ts = [ty(c) for c in cs]
        if None in ts or len(set(h[1])) != len(h[1]):
            return None
        return ['struct', [[f, t] for f, t in zip(h[1], ts)]]
    if k == 'GetField':
        a = ty(cs[0])
        if not (isinstance(a, list) and a[0] == 'struct'):
            return None
        return dict((f, t) for f, t in a[1]).get(h[1])
    if k == 'InsertFields':
        a = ty(cs[0])
        ts = [ty(c) for c in cs[1:]]
        if not (isinstance(a, list) and a[0] == 'struct') or None in ts:
            return None
        d = dict((f, t) for f, t in a[1])
        for f, t in zip(h[1], ts):
            d[f] = t
        return ['struct', [[f, t] for f, t in d.items()]]
    if k == 'SelectFields':
        a = ty(cs[0])
        if not (isinstance(a, list) and a[0] == 'struct') or len(set(h[1])) != len(h[1]):
            return None
        d = dict((f, t) for f, t in a[1])
        if any(f not in d for f in h[1]):
            return None
        return ['struct', [[f, d[f]] for f in h[1]]]
    if k == 'MakeArray':
        ts = [ty(c) for c in cs]
        if not ts or None in ts or any(t != ts[0] for t in ts):
            return None
        return ['array', ts[0]]
    if k == 'ArrayLen':
        a = ty(cs[0])
        return 'int32' if isinstance(a, list) and a[0] == 'array' else None
    if k == 'CastToArray':
        a = ty(cs[0])
        return a if isinstance(a, list) and a[0] == 'array' else None
    if k == 'ToArray':
        a = ty(cs[0])
        return ['array', a[1]] if isinstance(a, list) and a[0] == 'stream' else None
    if k == 'ToStream':
        a = ty(cs[0])
        return ['stream', a[1]] if isinstance(a, list) and a[0] == 'array' else None
    if k in ('StreamMap', 'StreamFilter'):
        a = ty(cs[0])
        if not (isinstance(a, list) and a[0] == 'stream'):
            return None
        b = strict_ir_type(cs[1], {**env, h[1]: a[1]})
        if k == 'StreamMap':
            return None if b is None else ['stream', b]
        return a if b == 'bool' else None
    if k == 'StreamFold':
        a, z = ty(cs[0]), ty(cs[1])
        if not (isinstance(a, list) and a[0] == 'stream') or z is None:
            return None
        b = strict_ir_type(cs[2], {**env, h[1]: z, h[2]: a[1]})
        return z if b == z else None
    if k == 'MakeTuple':
        ts = [ty(c) for c in cs]
        return None if None in ts else ['tuple', ts]
    if k == 'GetTupleElement':
        a = ty(cs[0])
        if not (isinstance(a, list) and a[0] == 'tuple') or not 0 <= h[1] < len(a[1]):
            return None
        return a[1][h[1]]
    return None
