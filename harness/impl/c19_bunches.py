"""Run the real Batch._create_bunches on specs of prescribed serialised sizes."""
import json
import sys

import hailload
hailload.install()
from hailtop.batch_client import aioclient  # noqa: E402
import orjson  # noqa: E402


def spec_of_size(ident, size):
    # smallest JSON we control: a string padded to the requested number of bytes
    base = len(orjson.dumps({'i': ident, 'p': ''}))
    if size >= base:
        s = {'i': ident, 'p': 'x' * (size - base)}
        assert len(orjson.dumps(s)) == size
        return s
    # sizes too small for the dict form: use a bare padded string / number
    s = 'x' * max(0, size - 2)
    if len(orjson.dumps(s)) == size:
        return s
    return int('1' * size)


def main():
    req = json.load(sys.stdin)
    out = []
    b = object.__new__(aioclient.Batch)
    for g, j, mb, ms in req['cases']:
        specs = [spec_of_size(i, s) for i, s in enumerate(g + j)]
        index = {id(orjson.dumps(s)): i for i, s in enumerate(specs)}
        gs, js = specs[:len(g)], specs[len(g):]
        try:
            bunches = b._create_bunches(gs, js, mb, ms)
            # identify each SpecBytes by position: serialised bytes are unique per ident only in dict form, so map by order
            flat_bytes = [orjson.dumps(s) for s in specs]
            res = []
            pos = 0
            for bunch in bunches:
                ids = []
                for sb in bunch:
                    # find this spec from pos onward (order-preserving search), fall back to any match
                    k = None
                    for t in range(pos, len(flat_bytes)):
                        if flat_bytes[t] == sb.spec_bytes:
                            k = t
                            break
                    if k is None:
                        for t in range(len(flat_bytes)):
                            if flat_bytes[t] == sb.spec_bytes:
                                k = t
                                break
                    ids.append(-1 if k is None else k)
                    if k is not None:
                        pos = k + 1
                res.append(ids)
            out.append(res)
        except AssertionError as e:
            out.append('AssertionError')
        except Exception as e:  # noqa
            out.append(type(e).__name__)
    json.dump({'results': out}, sys.stdout)


main()
