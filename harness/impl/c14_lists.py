"""C14, list endpoints: SCOPING of the rows a listing can return.

The job / job-group / batch listing endpoints do not filter on the caller in a separate statement: the scope (the batch / job
group of the URL, the caller's billing projects) is one conjunct of a WHERE clause that the query builders
(batch/batch/front_end/query/query_v1.py, query_v2.py, query.py; two inline builders in front_end.py) assemble as TEXT from the
search terms of `q`.  This script runs the REAL code on a small multi-batch, multi-billing-project MySQL-subset database
(harness/minisql, fake gear.Database of harness/batchdb/fakedb.py):

  {"mode": "run", "queries": {...}|null, "callers": [...], "routes": [...]}
        every listing route registered by the real run() is called through its FULL decorator stack (real gear.auth decorators,
        real billing_project_users_only whose membership SELECT runs on the same database) for every caller x batch x job group x
        query x paging combination; every row any SELECT of the request fetched, and every entry of the response, is checked
        against the ground truth (memberships / batch / job-group tree as inserted).
  {"mode": "where", "cases": [...]}
        the real builders are called and the boolean structure of the WHERE clause they emit is returned (bracket tree with the
        AND / OR / NOT keywords of the top levels kept, every other maximal chunk an opaque atom; harness/translate/c14_lists.py),
        together with the boolean skeleton the minisql expression parser (MySQL precedence) gives the same text.

SQL outside the minisql subset is rewritten, by text, in two semantics-preserving ways only (rewrite_sql): a non-recursive
`WITH name AS (body) SELECT ... FROM name` is inlined as the derived table `FROM (body) AS name`; the optimiser hint
`SELECT STRAIGHT_JOIN` is dropped; `(A, B) IN (SELECT c1, c2 FROM t WHERE w)` becomes `EXISTS (SELECT 1 FROM t WHERE t.c1 = A AND
t.c2 = B AND (w))` (same truth value for non-NULL keys); `x INNER JOIN y USING (c)` becomes `ON x.c = y.c`; JSON_EXTRACT(doc, '$[0]'), JSON_QUOTE,
JSON_CONTAINS(array, scalar) and the aggregate JSON_ARRAYAGG are supplied as Python functions; a datetime.datetime parameter at
midnight (the parsed start / end of GET /billing) is passed as the datetime.date of that day (compared with a DATE column).  The boolean structure
of the WHERE clause (brackets, AND, OR, NOT) is executed exactly as emitted; anything else minisql cannot run fails closed.
"""
import asyncio
import datetime
import json
import os
import re
import sys
import warnings

warnings.simplefilter('ignore')
HERE = os.path.dirname(os.path.abspath(__file__))
for p in (HERE, os.path.join(HERE, '..'), os.path.join(HERE, '..', 'batchdb'), os.path.join(HERE, '..', '..')):
    if p not in sys.path:
        sys.path.insert(0, p)

import c14_routes as R  # noqa: E402   (installs the loader, imports the real front end, fake auth service)

from aiohttp import web  # noqa: E402
from aiohttp.test_utils import make_mocked_request  # noqa: E402
from multidict import CIMultiDict  # noqa: E402

import hailload  # noqa: E402
from minisql.exec import Engine  # noqa: E402
from minisql import Unsupported  # noqa: E402
import batchdb.fakedb as fakedb  # noqa: E402
from harness.translate.c14_lists import where_items  # noqa: E402

fe = R.fe
gauth = R.gauth
import batch.front_end.query as Q  # noqa: E402
import batch.front_end.query.query as QQ  # noqa: E402
import batch.front_end.query.query_v1 as Q1  # noqa: E402
import batch.front_end.query.query_v2 as Q2  # noqa: E402

_EPOCH = datetime.datetime(1970, 1, 1, tzinfo=datetime.timezone.utc)


def _parse_timestamp_msecs(ts):
    # hailtop.utils.parse_timestamp_msecs needs dateutil (a stub here): same contract with the standard library
    if ts is None:
        return ts
    try:
        dt = datetime.datetime.fromisoformat(ts)
    except TypeError as e:
        raise ValueError(str(e)) from e
    assert dt.tzinfo is not None and dt.tzinfo.utcoffset(dt) is not None
    return int((dt - _EPOCH) / datetime.timedelta(milliseconds=1))


QQ.parse_timestamp_msecs = _parse_timestamp_msecs

# ---------------------------------------------------------------------------------------------------------------- SQL rewriting


def _match_paren(s, i):
    assert s[i] == '('
    d = 0
    k = i
    q = None
    while k < len(s):
        c = s[k]
        if q:
            if c == q:
                q = None
        elif c in '\'"`':
            q = c
        elif c == '(':
            d += 1
        elif c == ')':
            d -= 1
            if d == 0:
                return k
        k += 1
    raise ValueError('unbalanced')


_ROW_IN = re.compile(r'\(\s*([\w.]+)\s*,\s*([\w.]+)\s*\)\s+IN\s*(?P<sub>\()\s*SELECT\s+(\w+)\s*,\s*(\w+)\s+FROM\s+(\w+)\s+WHERE\s', re.I)
_USING = re.compile(r'\b(\w+)\s+INNER\s+JOIN\s+(\w+)\s+USING\s*\(\s*(\w+)\s*\)', re.I)
_WITH = re.compile(r'\bWITH\s+(\w+)\s+AS\s*\(', re.I)


def rewrite_sql(sql):
    """Inline `WITH n AS (body) SELECT ... FROM n` as `SELECT ... FROM (body) AS n`; drop the SELECT STRAIGHT_JOIN hint."""
    n = 0
    while True:
        m = _WITH.search(sql)
        if not m:
            break
        n += 1
        if n > 10:
            raise Unsupported('too many CTEs')
        name = m.group(1)
        lp = m.end() - 1
        rp = _match_paren(sql, lp)
        body = sql[lp:rp + 1]
        rest = sql[rp + 1:]
        if rest.lstrip().startswith(','):
            raise Unsupported('several CTEs in one WITH')
        uses = [u for u in re.finditer(r'\b(FROM|JOIN)\s+%s\b(?!\s*\.)' % re.escape(name), rest)]
        if len(uses) != 1:
            raise Unsupported(f'CTE {name} referenced {len(uses)} times')
        u = uses[0]
        rest = rest[:u.start()] + f'{u.group(1)} {body} AS {name}' + rest[u.end():]
        sql = sql[:m.start()] + rest
    sql = re.sub(r'\bSELECT\s+STRAIGHT_JOIN\b', 'SELECT', sql, flags=re.I)
    # (A, B) IN (SELECT c1, c2 FROM t WHERE w)  ->  EXISTS (SELECT 1 FROM t WHERE t.c1 = A AND t.c2 = B AND (w))
    # (equivalent when none of A, B, c1, c2 is NULL: they are primary-key columns in every use)
    n = 0
    while True:
        m = _ROW_IN.search(sql)
        if not m:
            break
        n += 1
        if n > 50:
            raise Unsupported('too many row constructors')
        lp = m.start('sub')
        rp = _match_paren(sql, lp)
        w = sql[m.end():rp]
        a, b, c1, c2, t = m.group(1), m.group(2), m.group(4), m.group(5), m.group(6)
        new = f'EXISTS (SELECT 1 FROM {t} WHERE {t}.{c1} = {a} AND {t}.{c2} = {b} AND ({w}))'
        sql = sql[:m.start()] + new + sql[rp + 1:]
    # FROM x INNER JOIN y USING (c)  ->  FROM x INNER JOIN y ON x.c = y.c
    sql = _USING.sub(lambda u: f'{u.group(1)} INNER JOIN {u.group(2)} ON {u.group(1)}.{u.group(3)} = {u.group(2)}.{u.group(3)}', sql)
    return sql


# JSON_EXTRACT(doc, '$[0]') (used by the exit_code search term on jobs.status) is not a minisql function: provide exactly that
# form here (first element of a JSON array, NULL for a NULL document / JSON null), everything else stays Unsupported.
import minisql.engine as _ME  # noqa: E402

_orig_x_func = _ME.Compiler.x_Func


def _x_func(self, node, scope):
    if node.name == 'JSON_EXTRACT':
        from minisql import ast as A
        if len(node.args) != 2 or not (isinstance(node.args[1], A.Lit) and node.args[1].value == '$[0]'):
            raise Unsupported('JSON_EXTRACT with a path other than $[0]')
        a = self.expr(node.args[0], scope)
        f = a.fn

        def fn(env):
            v = f(env)
            if v is None:
                return None
            doc = json.loads(v)
            return doc[0] if isinstance(doc, list) and doc else None
        return _ME.CE(fn, a.refs, a.agg, volatile=a.volatile)
    if node.name == 'JSON_QUOTE' and len(node.args) == 1:
        a = self.expr(node.args[0], scope)
        f = a.fn
        return _ME.CE(lambda env: None if f(env) is None else json.dumps(str(f(env))), a.refs, a.agg, volatile=a.volatile)
    if node.name == 'JSON_CONTAINS' and len(node.args) == 2:
        # JSON_CONTAINS(array document, scalar candidate document): the candidate is an element of the array (the only form used)
        a, c = self.expr(node.args[0], scope), self.expr(node.args[1], scope)
        fa, fc = a.fn, c.fn

        def fn2(env):
            d, x = fa(env), fc(env)
            if d is None or x is None:
                return None
            d, x = json.loads(d), json.loads(x)
            if not isinstance(d, list) or isinstance(x, (list, dict)):
                raise Unsupported('JSON_CONTAINS on something else than (array, scalar)')
            return 1 if x in d else 0
        return _ME.CE(fn2, a.refs | c.refs, a.agg or c.agg, volatile=a.volatile or c.volatile)
    return _orig_x_func(self, node, scope)


_ME.Compiler.x_Func = _x_func

_orig_aggregate = _ME.Compiler._aggregate


def _aggregate(self, node, scope):
    if node.name == 'JSON_ARRAYAGG' and len(node.args) == 1 and not node.distinct:
        if getattr(scope, 'no_agg', False):
            raise Unsupported('aggregate JSON_ARRAYAGG in a context without grouping')
        scope.has_agg = True
        a = self.expr(node.args[0], scope)
        if a.agg:
            raise Unsupported('nested aggregates')
        f = a.fn

        def fn(env):
            saved = env.rows
            out = None
            for combo in env.group:
                env.rows = combo
                out = (out or []) + [f(env)]
            env.rows = saved
            return None if out is None else json.dumps(out)
        return _ME.CE(fn, a.refs, agg=True)
    return _orig_aggregate(self, node, scope)


_ME.Compiler._aggregate = _aggregate

# ---------------------------------------------------------------------------------------------------------------- the world

USERS = ['alice', 'bob', 'carol', 'dave', 'dev', 'auth']      # dave: member of nothing; dev: developer; auth: the auth service account
DEVELOPERS = {'dev'}
BILLING = {'pa': ['alice'], 'pb': ['bob'], 'pab': ['alice', 'bob'], 'pc': ['carol'], 'pclosed': ['bob'], 'pdel': ['alice']}
BP_STATUS = {'pclosed': 'closed', 'pdel': 'deleted'}
# spend rows (billing project, user); one row per date of SPEND_DATES in the by-date table
SPEND = [('pa', 'alice'), ('pb', 'bob'), ('pab', 'alice'), ('pab', 'bob'), ('pc', 'carol'), ('pclosed', 'bob'), ('pdel', 'alice')]
TODAY = datetime.date.today()
SPEND_DATES = [datetime.date(2024, 3, 10), datetime.date(2024, 4, 10), TODAY.replace(day=1), TODAY]
STATES = ['Pending', 'Ready', 'Creating', 'Running', 'Cancelled', 'Error', 'Failed', 'Success']
# job groups of every batch: id -> parent (0 = root)
GROUPS = {1: 0, 2: 1, 3: 0}
# batch id -> (owner, billing project, state, deleted, has an uncommitted second update)
BATCHES = {
    1: ('alice', 'pa', 'running', 0, False),
    2: ('bob', 'pb', 'running', 0, False),
    3: ('bob', 'pab', 'complete', 0, False),
    4: ('alice', 'pa', 'running', 1, False),
    5: ('carol', 'pc', 'complete', 0, False),
    6: ('alice', 'pa', 'open', 0, True),
    7: ('bob', 'pb', 'complete', 0, True),
}


def ancestors(g):
    out = [g]
    while g != 0:
        g = GROUPS[g]
        out.append(g)
    return out


class World:
    def __init__(self):
        self.engine = Engine(repo=hailload.REPO, seed=0)
        self.db = fakedb.FakeDatabase(self.engine)
        self.jobs = {}          # (batch, job) -> dict(group, state, committed)
        self.groups = {}        # (batch, group) -> dict(parent, committed)
        self.seed()

    def seed(self):
        s = self.engine.connect()
        x = s.execute
        self.engine.fk_checks = False        # attempts.instance_name -> instances: the instances table plays no role in a listing
        for i, r in enumerate(['cpu', 'mem'], start=1):
            x("INSERT INTO resources (resource, rate, resource_id, deduped_resource_id) VALUES (%s, %s, %s, %s)", (r, 0.001 * i, i, i))
        for name, is_pool in (('standard', 1), ('highmem', 1)):
            x("INSERT INTO inst_colls (name, is_pool, boot_disk_size_gb, max_instances, max_live_instances, cloud, "
              "max_new_instances_per_autoscaler_loop, autoscaler_loop_period_secs, worker_max_idle_time_secs) "
              "VALUES (%s, %s, 10, 100, 100, 'gcp', 10, 10, 10)", (name, is_pool))
        for bp, users in BILLING.items():
            x("INSERT INTO billing_projects (name, name_cs, status, `limit`) VALUES (%s, %s, %s, %s)",
              (bp, bp, BP_STATUS.get(bp, 'open'), 100.0 if bp == 'pab' else None))
            for u in users:
                x("INSERT INTO billing_project_users (billing_project, user, user_cs) VALUES (%s, %s, %s)", (bp, u, u))
        for b, (owner, bp, state, deleted, open_update) in BATCHES.items():
            njobs = 3 * len(STATES)
            done = state == 'complete'
            x("INSERT INTO batches (id, userdata, user, billing_project, attributes, callback, state, deleted, n_jobs, time_created, "
              "time_closed, time_completed, token, format_version, cancel_after_n_failures) "
              "VALUES (%s, %s, %s, %s, %s, NULL, %s, %s, %s, %s, %s, %s, %s, 7, NULL)",
              (b, json.dumps({'username': owner}), owner, bp, json.dumps({'name': f'b{b}'}), state, deleted, njobs, 1000 * b, 1000 * b + 1, 5000 + b if done else None,
               f'tok{b}'))
            x("INSERT INTO batch_updates (batch_id, update_id, token, start_job_id, n_jobs, start_job_group_id, n_job_groups, committed, "
              "time_created, time_committed) VALUES (%s, 1, 'u1', 1, %s, 1, %s, 1, %s, %s)", (b, njobs, len(GROUPS), 1000 * b, 1000 * b + 1))
            if open_update:
                x("INSERT INTO batch_updates (batch_id, update_id, token, start_job_id, n_jobs, start_job_group_id, n_job_groups, committed, "
                  "time_created, time_committed) VALUES (%s, 2, 'u2', %s, 4, 4, 1, 0, %s, NULL)", (b, njobs + 1, 1000 * b + 2))
            groups = dict(GROUPS)
            groups[0] = None
            gl = [(0, 1)] + [(g, 1) for g in GROUPS] + ([(4, 2)] if open_update else [])
            for g, upd in gl:
                x("INSERT INTO job_groups (batch_id, job_group_id, update_id, user, attributes, cancel_after_n_failures, state, n_jobs, "
                  "time_created, time_completed, callback) VALUES (%s, %s, %s, %s, %s, NULL, %s, %s, %s, %s, NULL)",
                  (b, g, upd, owner, json.dumps({'name': f'g{g}'}), 'complete' if done else 'running', njobs, 1000 * b + g,
                   5000 + b if done else None))
                anc = [0] if g == 0 else ([4, 0] if g == 4 else ancestors(g))
                for lvl, a in enumerate(anc):
                    x("INSERT INTO job_group_self_and_ancestors (batch_id, job_group_id, ancestor_id, level) VALUES (%s, %s, %s, %s)",
                      (b, g, a, lvl))
                x("INSERT INTO job_groups_n_jobs_in_complete_states (id, job_group_id, n_completed, n_succeeded, n_failed, n_cancelled) "
                  "VALUES (%s, %s, %s, %s, %s, %s)", (b, g, njobs if done else 2, njobs if b == 3 else 1, 1 if b != 3 else 0, 0))
                x("INSERT INTO job_group_attributes (batch_id, job_group_id, `key`, `value`) VALUES (%s, %s, 'name', %s)", (b, g, f'g{g}'))
                x("INSERT INTO job_group_attributes (batch_id, job_group_id, `key`, `value`) VALUES (%s, %s, 'team', 'red')", (b, g))
                x("INSERT INTO aggregated_job_group_resources_v3 (batch_id, job_group_id, resource_id, token, `usage`) VALUES (%s, %s, 1, 0, %s)",
                  (b, g, 1000 * (g + 1)))
                self.groups[(b, g)] = {'parent': (0 if g == 4 else GROUPS[g]) if g != 0 else None, 'committed': upd == 1}
            # jobs: two per state, spread over the groups 0..3 ; ids identical in every batch
            jid = 0
            for rep in range(3):
                for si, st in enumerate(STATES):
                    jid += 1
                    g = (si + rep) % 4
                    self._job(x, b, jid, 1, st, g, True)
            if open_update:
                for k in range(4):
                    jid += 1
                    self._job(x, b, jid, 2, STATES[(2 * k + 1) % 8], 4 if k % 2 else 0, False)
        for k, (bp, u) in enumerate(SPEND):
            x("INSERT INTO aggregated_billing_project_user_resources_v3 (billing_project, `user`, resource_id, token, `usage`) "
              "VALUES (%s, %s, 1, 0, %s)", (bp, u, 1000 * (k + 1)))
            for d in sorted(set(SPEND_DATES)):
                x("INSERT INTO aggregated_billing_project_user_resources_by_date_v3 (billing_date, billing_project, `user`, resource_id, "
                  "token, `usage`) VALUES (%s, %s, %s, 1, 0, %s)", (d, bp, u, 100 * (k + 1)))
        x("INSERT INTO job_groups_cancelled (id, job_group_id) VALUES (3, 1)")
        x("INSERT INTO job_groups_cancelled (id, job_group_id) VALUES (5, 0)")
        self.engine.fk_checks = True
        s.commit()
        s.close()

    def _job(self, x, b, jid, upd, st, g, committed):
        started = st in ('Running', 'Cancelled', 'Error', 'Failed', 'Success')
        ended = st in ('Error', 'Failed', 'Success')
        att = f'att{jid}' if started else None
        status = None
        if ended:
            ec = {'Error': None, 'Failed': 1, 'Success': 0}[st]
            status = json.dumps([ec, 70])        # format_version >= 3: [exit code, duration]
        x("INSERT INTO jobs (batch_id, job_id, update_id, state, spec, always_run, cores_mcpu, status, n_pending_parents, cancelled, "
          "msec_mcpu, attempt_id, inst_coll, n_regions, regions_bits_rep, job_group_id, n_max_attempts) "
          "VALUES (%s, %s, %s, %s, %s, %s, 1000, %s, 0, 0, 0, %s, %s, NULL, NULL, %s, 20)",
          (b, jid, upd, st, json.dumps({'process': {'type': 'docker'}}), jid % 2, status, att, 'standard' if jid % 3 else 'highmem', g))
        x("INSERT INTO job_attributes (batch_id, job_id, `key`, `value`) VALUES (%s, %s, 'name', %s)", (b, jid, f'job{jid}'))
        if jid % 2 == 0:
            x("INSERT INTO job_attributes (batch_id, job_id, `key`, `value`) VALUES (%s, %s, 'team', 'red')", (b, jid))
        if started:
            x("INSERT INTO attempts (batch_id, job_id, attempt_id, instance_name, start_time, rollup_time, end_time, reason) "
              "VALUES (%s, %s, %s, %s, %s, %s, %s, NULL)", (b, jid, att, f'inst-{jid % 2}', 10 * jid, 10 * jid + 7, 10 * jid + 7 if ended else None))
            x("INSERT INTO aggregated_job_resources_v3 (batch_id, job_id, resource_id, `usage`) VALUES (%s, %s, 1, %s)", (b, jid, 100 * jid))
        self.jobs[(b, jid)] = {'group': g, 'state': st, 'committed': committed}

    # -- ground truth
    def member(self, user, b):
        return b in BATCHES and user in BILLING[BATCHES[b][1]]

    @staticmethod
    def privileged(user):
        """developers and the auth service may read every billing project"""
        return user in DEVELOPERS or user == 'auth'

    def group_in_scope(self, b, g, scope_group, recursive):
        if g == scope_group:
            return True
        if not recursive:
            return False
        while (b, g) in self.groups and self.groups[(b, g)]['parent'] is not None:
            g = self.groups[(b, g)]['parent']
            if g == scope_group:
                return True
        return False


# ---------------------------------------------------------------------------------------------------------------- instrumentation

class Tap:
    """Every statement of the current request: (rewritten?, sql head, args, rows)."""
    current = None
    unsupported = None


_orig_run = fakedb.FakeCursor._run


def _run(self, sql, args):
    try:
        new = rewrite_sql(sql)
        if isinstance(args, (list, tuple)) and any(isinstance(a, datetime.datetime) for a in args):
            if any(isinstance(a, datetime.datetime) and (a.hour, a.minute, a.second, a.microsecond) != (0, 0, 0, 0) for a in args):
                raise Unsupported('datetime parameter that is not a midnight')
            args = [a.date() if isinstance(a, datetime.datetime) else a for a in args]
        r = _orig_run(self, new, args)
    except Unsupported as e:
        Tap.unsupported = str(e)[:300]      # some handlers swallow every Exception: remember it
        raise
    if Tap.current is not None and r.rows is not None:
        Tap.current.append((sql, list(args) if isinstance(args, (list, tuple)) else args, list(r.rows)))
    return r


fakedb.FakeCursor._run = _run

for u in USERS:
    R.AUTH_CLIENT.sessions['sid-' + u] = {'id': 7, 'state': 'active', 'username': u, 'login_id': 'l', 'namespace_name': 'ns',
                                         'is_developer': 1 if u in DEVELOPERS else 0, 'is_service_account': 0, 'hail_credentials_secret_name': 'creds',
                                         'tokens_secret_name': 'tokens'}


class Captured(Exception):
    def __init__(self, ctx):
        self.ctx = ctx


async def _fake_render_template(service, request, userdata, file, page_context):
    raise Captured(page_context)


fe.render_template = _fake_render_template


def make_request(world, method, path, user, match, query):
    concrete = path
    for k, v in match.items():
        concrete = concrete.replace('{' + k + '}', str(v))
    if query:
        from urllib.parse import urlencode
        concrete += '?' + urlencode(query)
    headers = CIMultiDict()
    headers['Authorization'] = 'Bearer sid-' + user
    app = R.FakeApp()
    app['db'] = world.db
    app['frozen'] = False
    app[gauth.CommonAiohttpAppKeys.CLIENT_SESSION] = R.AUTH_CLIENT
    req = make_mocked_request(method, concrete, headers=headers, match_info={k: str(v) for k, v in match.items()}, app=app)
    req['_verif_session'] = {'session_id': 'sid-' + user}
    return req


LIST_ROUTES = {
    # path -> (kind, query version or None)
    '/api/v1alpha/batches/{batch_id}/jobs': ('jobs', 1),
    '/api/v2alpha/batches/{batch_id}/jobs': ('jobs', 2),
    '/api/v1alpha/batches/{batch_id}/job-groups/{job_group_id}/jobs': ('jobs', 1),
    '/api/v2alpha/batches/{batch_id}/job-groups/{job_group_id}/jobs': ('jobs', 2),
    '/batches/{batch_id}': ('jobs-ui', 2),
    '/api/v1alpha/batches/{batch_id}/jobs/resources': ('jobs-billing', None),
    '/api/v1alpha/batches/{batch_id}/job-groups': ('groups', None),
    '/api/v1alpha/batches/{batch_id}/job-groups/{job_group_id}/job-groups': ('groups', None),
    '/api/v1alpha/batches': ('batches', 1),
    '/api/v2alpha/batches': ('batches', 2),
    '/batches': ('batches-ui', 2),
    '/api/v1alpha/batches/completed': ('batches-completed', None),
    # billing read paths
    '/billing': ('billing-ui', None),
    '/billing_limits': ('bp-ui-limits', None),
    '/billing_projects': ('bp-ui-dev', None),
    '/api/v1alpha/billing_projects': ('bp-api', None),
    '/api/v1alpha/billing_projects/{billing_project}': ('bp-api-one', None),
}
BILLING_KINDS = {'billing-ui', 'bp-ui-limits', 'bp-ui-dev', 'bp-api', 'bp-api-one'}


def _rows_violations(world, user, url_batch, tap):
    """Ground-truth check of every row fetched during the request: a row that identifies a batch must identify a batch of a
    billing project the caller belongs to, and the batch of the URL when there is one."""
    bad = []
    for sql, args, rows in tap:
        for row in rows:
            if not isinstance(row, dict):
                continue
            b = None
            if 'batch_id' in row:
                b = row['batch_id']
            elif 'id' in row and 'billing_project' in row and 'user' in row:
                b = row['id']
            if b is None:
                continue
            why = None
            if not world.member(user, b):
                why = 'row of a batch whose billing project the caller is not a member of'
            elif url_batch is not None and b != url_batch:
                why = 'row of another batch than the one in the URL'
            if why:
                bad.append({'why': why, 'row_batch': b, 'row_job': row.get('job_id'), 'row_group': row.get('job_group_id'),
                            'row_state': row.get('state'), 'sql_head': ' '.join(sql.split())[:80]})
    return bad


async def call(world, handler, method, path, user, match, query):
    Tap.current = tap = []
    Tap.unsupported = None
    req = make_request(world, method, path, user, match, query)
    out = {'status': None, 'body': None}
    try:
        resp = await handler(req)
        out['status'] = getattr(resp, 'status', 200)
        body = getattr(resp, 'body', None)
        if body is not None:
            try:
                out['body'] = json.loads(body if isinstance(body, (bytes, str)) else bytes(body))
            except Exception:  # noqa
                out['body'] = None
    except Captured as c:
        out['status'] = 200
        out['body'] = c.ctx
    except web.HTTPException as e:
        out['status'] = e.status
    finally:
        Tap.current = None
    if Tap.unsupported is not None:
        raise Unsupported(Tap.unsupported)
    return out, tap


def entry_violations(world, kind, user, match, query, body):
    """Ground-truth check of the response entries."""
    bad = []
    if body is None:
        return bad
    ub = match.get('batch_id')
    if kind in ('jobs', 'jobs-ui', 'jobs-billing'):
        jobs = body['batch']['jobs'] if kind == 'jobs-ui' else body.get('jobs', [])
        sg = int(match.get('job_group_id', 0))
        recursive = kind == 'jobs-ui' or str(query.get('recursive', '')).lower() in ('1', 'true')
        for j in jobs:
            b, jid = j.get('batch_id'), j.get('job_id')
            if b != ub:
                bad.append({'why': 'job of another batch in the response', 'batch': b, 'job': jid, 'state': j.get('state')})
                continue
            info = world.jobs.get((b, jid))
            if info is None:
                bad.append({'why': 'unknown job in the response', 'batch': b, 'job': jid})
            elif kind != 'jobs-billing' and not world.group_in_scope(b, info['group'], sg, recursive):
                bad.append({'why': 'job outside the job group of the URL', 'batch': b, 'job': jid, 'group': info['group']})
    elif kind == 'groups':
        sg = int(match.get('job_group_id', 0))
        for g in body.get('job_groups', []):
            b, gid = g.get('batch_id'), g.get('job_group_id')
            if b != ub:
                bad.append({'why': 'job group of another batch in the response', 'batch': b, 'group': gid})
            elif (b, gid) not in world.groups or world.groups[(b, gid)]['parent'] != sg:
                bad.append({'why': 'job group that is not a child of the job group of the URL', 'batch': b, 'group': gid})
    else:
        for bt in body.get('batches', []):
            b = bt.get('id')
            if not world.member(user, b):
                bad.append({'why': 'batch of a billing project the caller is not a member of', 'batch': b,
                            'billing_project': bt.get('billing_project')})
    return bad


def billing_check(world, kind, user, match, out, tap):
    """Billing read paths.  A caller who is neither a developer nor the auth service may only be shown (a) spend rows of his
    own user, (b) billing projects whose member list contains him; the developers-only page refuses him.
    -> (allowed, n entries, bad rows, bad entries, wrongly served)"""
    priv = world.privileged(user)
    bad_rows, bad_entries = [], []
    if not priv:
        for sql, args, rows in tap:
            for row in rows:
                if not isinstance(row, dict) or 'billing_project' not in row:
                    continue
                if 'users' in row:
                    users = row['users'] if isinstance(row['users'], list) else json.loads(row['users'] or '[]')
                    if user not in users or user not in BILLING.get(row['billing_project'], []):
                        bad_rows.append({'why': 'billing project the caller is not a member of', 'billing_project': row['billing_project'],
                                         'users': users, 'sql_head': ' '.join(sql.split())[:80]})
                elif 'user' in row and 'cost' in row:
                    if row['user'] != user:
                        bad_rows.append({'why': 'spend row of another user', 'billing_project': row['billing_project'], 'user': row['user'],
                                         'cost': row['cost'], 'sql_head': ' '.join(sql.split())[:80]})
    body = out['body']
    n = 0
    served = out['status'] == 200
    if served and body is not None:
        if kind == 'billing-ui':
            ents = body['billing_by_project_user']
            n = len(ents)
            if not priv:
                for e in ents:
                    if e['user'] != user:
                        bad_entries.append({'why': 'spend of another user on the page', **e})
                for e in body['billing_by_user']:
                    if e['user'] != user:
                        bad_entries.append({'why': 'spend of another user on the page', **e})
                for e in body['billing_by_project']:
                    if user not in BILLING.get(e['billing_project'], []):
                        bad_entries.append({'why': 'spend of a billing project the caller is not a member of on the page', **e})
        else:
            if kind == 'bp-ui-limits':
                ents = body['open_billing_projects'] + body['closed_billing_projects']
            elif kind == 'bp-ui-dev':
                ents = body['billing_projects'] + body['closed_projects']
            elif kind == 'bp-api-one':
                ents = [body]
            else:
                ents = body
            n = len(ents)
            if not priv:
                for e in ents:
                    if user not in BILLING.get(e['billing_project'], []):
                        bad_entries.append({'why': 'billing project the caller is not a member of in the response',
                                            'billing_project': e['billing_project'], 'users': e.get('users')})
    allowed = True
    if kind == 'bp-ui-dev':
        allowed = user in DEVELOPERS
    elif kind == 'bp-api-one':
        allowed = priv or user in BILLING.get(match.get('billing_project'), [])
    leak = served and not allowed
    # the statements on the billing tables, for the tie: bracket / keyword structure and the argument bound to every atom
    stmts = []
    for sql, args, rows in tap:
        if 'billing_projects' not in sql or 'billing_project_users.`user_cs` = %s' in sql:
            continue
        try:
            items = where_items(sql)
        except Exception as e:  # noqa
            stmts.append({'error': str(e)[:200]})
            continue
        bound, k = [], 0
        al = list(args or [])
        for it in items:
            if isinstance(it, list) and it[0] == 'A':
                m = it[1].count('%s')
                bound.append([it[1], [str(a) for a in al[k:k + m]]])
                k += m
        stmts.append({'items': items, 'bound': bound, 'n_args': len(al), 'n_placeholders': sql.count('%s')})
    return allowed, n, bad_rows, bad_entries, leak, stmts


async def mode_run(req):
    world = World()
    R.real_app()
    handlers = {}
    for method, path, handler, name in R.registered():
        if method == 'GET' and path in LIST_ROUTES:
            handlers[path] = (handler, name)
    missing = sorted(set(LIST_ROUTES) - set(handlers))
    cases = req['cases']
    results = []
    for c in cases:
        path = c['path']
        if path not in handlers:
            continue
        kind, version = LIST_ROUTES[path]
        handler, name = handlers[path]
        match = dict(c.get('match') or {})
        query = dict(c.get('query') or {})
        user = c['user']
        try:
            out, tap = await call(world, handler, 'GET', path, user, match, query)
        except Unsupported as e:
            results.append({'case': c, 'unsupported': str(e)[:300]})
            continue
        except Exception as e:  # noqa
            import traceback
            results.append({'case': c, 'status': 'crash:' + type(e).__name__, 'detail': traceback.format_exc()[-700:], 'n': 0, 'bad_rows': [], 'bad_entries': []})
            continue
        if kind in BILLING_KINDS:
            allowed, n, bad_rows, bad_entries, leak, stmts = billing_check(world, kind, user, match, out, tap)
            results.append({'case': c, 'handler': name, 'kind': kind, 'status': out['status'], 'allowed': allowed, 'n': n,
                            'bad_rows': bad_rows[:6], 'bad_entries': bad_entries[:6], 'refused_wrongly_served': leak, 'stmts': stmts,
                            'privileged': world.privileged(user)})
            continue
        ub = match.get('batch_id')
        allowed = ub is None or world.member(user, ub)
        bad_rows = _rows_violations(world, user, ub, tap)
        bad_entries = entry_violations(world, kind, user, match, query, out['body']) if out['status'] == 200 else []
        n = 0
        if out['status'] == 200 and out['body'] is not None:
            b = out['body']
            n = len(b['batch']['jobs']) if kind == 'jobs-ui' else len(b.get('jobs', b.get('job_groups', b.get('batches', []))))
        leak = (not allowed) and out['status'] == 200
        results.append({'case': c, 'handler': name, 'kind': kind, 'status': out['status'], 'allowed': allowed, 'n': n,
                        'bad_rows': bad_rows[:6], 'bad_entries': bad_entries[:6], 'refused_wrongly_served': leak})
    return {'results': results, 'missing_routes': missing,
            'world': {'billing': BILLING, 'billing_project_status': BP_STATUS, 'developers': sorted(DEVELOPERS), 'spend': SPEND,
                      'spend_dates': [str(d) for d in sorted(set(SPEND_DATES))], 'batches': {str(k): list(v) for k, v in BATCHES.items()}, 'groups': GROUPS}}


# ---------------------------------------------------------------------------------------------------------------- where structure

def _ast_eval(node, env):
    from minisql import ast as A
    if isinstance(node, A.Binary) and node.op in ('AND', 'OR'):
        l, r = _ast_eval(node.left, env), _ast_eval(node.right, env)
        return (l and r) if node.op == 'AND' else (l or r)
    if isinstance(node, A.Unary) and node.op == 'NOT':
        return not _ast_eval(node.expr, env)
    if isinstance(node, A.Col) and node.table is None:
        return env[node.name]
    raise Unsupported(f'unexpected node {node!r} in a boolean skeleton')


def precedence_check(items, rng):
    """The item list read by the left-to-right evaluator of the model (Python twin of ListModel.run) against the same bracket /
    keyword sequence parsed by the minisql expression parser (MySQL precedence), on truth assignments of the atoms
    (all of them when there are at most 6 atoms, else 64 random ones).  -> (number of assignments, first disagreement or None)"""
    from minisql.parser import Parser
    from harness.translate.c14_lists import atoms_of, placeholder_text, run_items
    atoms = atoms_of(items)
    names = {a: f'a{i}' for i, a in enumerate(atoms)}
    text = placeholder_text(items, names)
    p = Parser(text)
    tree = p.parse_expr()
    if not p.at_end():
        raise Unsupported('trailing tokens after the boolean skeleton')
    k = len(atoms)
    if k <= 6:
        envs = [[bool((m >> i) & 1) for i in range(k)] for m in range(2 ** k)]
    else:
        envs = [[rng.random() < 0.5 for _ in range(k)] for _ in range(64)]
    for bits in envs:
        e1 = {names[a]: b for a, b in zip(atoms, bits)}
        e2 = {a: b for a, b in zip(atoms, bits)}
        v1 = bool(_ast_eval(tree, e1))
        v2 = bool(run_items(items, e2))
        if v1 != v2:
            return len(envs), {'assignment': e2, 'sql_parser': v1, 'model_run': v2, 'text': text}
    return len(envs), None


def build(c):
    f = c['builder']
    if f == 'jobs_v1':
        return Q1.parse_job_group_jobs_query_v1(c['batch_id'], c['job_group_id'], c['q'], c['last'], c['recursive'])
    if f == 'jobs_v2':
        return Q2.parse_job_group_jobs_query_v2(c['batch_id'], c['job_group_id'], c['q'], c['last'], c['recursive'])
    if f == 'batches_v1':
        return Q1.parse_list_batches_query_v1(c['user'], c['q'], c['last'])
    if f == 'batches_v2':
        return Q2.parse_list_batches_query_v2(c['user'], c['q'], c['last'])
    if f == 'groups_v1':
        return Q1.parse_list_job_groups_query_v1(c['batch_id'], c['job_group_id'], c['last'])
    raise ValueError(f)


def mode_where(req):
    from batch.exceptions import QueryError
    import random
    rng = random.Random(req.get('seed', 0))
    out = []
    for c in req['cases']:
        try:
            sql, args = build(c)
        except QueryError as e:
            out.append({'error': 'QueryError', 'message': str(getattr(e, 'message', e))[:100]})
            continue
        items = where_items(sql)
        n_envs, bad = precedence_check(items, rng)
        out.append({'items': items, 'args': [a if isinstance(a, (int, str, float)) or a is None else str(a) for a in args],
                    'n_placeholders': sql.count('%s'), 'n_envs': n_envs, 'precedence_disagreement': bad})
    return out


def main():
    req = json.load(sys.stdin)
    mode = req['mode']
    if mode == 'run':
        loop = asyncio.new_event_loop()
        asyncio.set_event_loop(loop)
        R.real_app()
        res = asyncio.get_event_loop().run_until_complete(mode_run(req))
    elif mode == 'where':
        res = mode_where(req)
    else:
        raise SystemExit('unknown mode')
    json.dump({'result': res}, sys.stdout)


if __name__ == '__main__':
    main()
