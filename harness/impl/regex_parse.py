"""Parse regex pattern strings with the IMPLEMENTATION interpreter's own front end (re._parser.parse, the parser behind
re.compile) and return the op-trees as JSON.   in: {"patterns": [str]}   out: {"parsed": [{"tree":..., "flags": int} | {"error": str}]}"""
import json
import sys

try:
    import re._parser as sre_parse          # 3.11+
    import re._constants as sre_constants
except ImportError:                          # pragma: no cover
    import sre_parse
    import sre_constants


def conv(x):
    if isinstance(x, sre_parse.SubPattern):
        return [conv(i) for i in x]
    if x is sre_constants.MAXREPEAT:
        return 'MAXREPEAT'
    if isinstance(x, sre_constants._NamedIntConstant):
        return str(x)
    if isinstance(x, (list, tuple)):
        return [conv(i) for i in x]
    if x is None or isinstance(x, (int, str)):
        return x
    raise TypeError(f'unexpected parse-tree element {x!r}')


def main():
    req = json.load(sys.stdin)
    out = []
    for p in req['patterns']:
        try:
            t = sre_parse.parse(p, 0)
            import re
            re.compile(p)
            out.append({'tree': conv(t), 'flags': int(t.state.flags)})
        except Exception as e:  # noqa
            out.append({'error': f'{type(e).__name__}: {e}'})
    json.dump({'parsed': out}, sys.stdout)


main()
