"""Run the real auth validators (auth/auth/auth_utils.py) and the real insert_new_user (auth/auth/auth.py, fake DB).

in : {"op": "eval",    "strings": [[code points]]}                     -> {"user": [...], "secret": [...]}   (true/false/"ExcName")
     {"op": "service", "pairs": [[user cps, secret cps | null]]}       -> {"results": ["inserted" | "ExcName"]}
     {"op": "tables",  "points": [code points]}                        -> ascii tables of str.isdigit/islower/isascii, + the requested points
     {"op": "sweep", "templates": [[prefix cps, suffix cps]]}          -> per template: ALL code points c with prefix+c+suffix accepted
Strings travel as code-point lists so that lone surrogates and control characters survive JSON.
"""
import asyncio
import json
import sys

import hailload
hailload.install()
from auth import auth_utils  # noqa: E402
from auth.exceptions import AuthUserError  # noqa: E402


def s_of(cps):
    return ''.join(chr(c) for c in cps)


def run_user(s):
    try:
        r = auth_utils.is_valid_username(s)
        return r if isinstance(r, bool) else f'non-bool:{r!r}'
    except Exception as e:  # noqa
        return type(e).__name__


def run_secret(s):
    try:
        auth_utils.validate_credentials_secret_name_input(s)
        return True
    except AuthUserError:
        return False
    except Exception as e:  # noqa
        return type(e).__name__


class FakeTx:
    def __init__(self, log):
        self.log = log

    async def execute_and_fetchall(self, sql, args=None, **kw):
        self.log.append(('select', sql.split()[0].upper()))
        for _ in ():
            yield _

    async def execute_insertone(self, sql, args=None, **kw):
        self.log.append(('insert', list(args)))
        return 1

    async def just_execute(self, sql, args=None, **kw):
        self.log.append(('execute', sql.split()[0].upper()))

    async def execute_update(self, sql, args=None, **kw):
        self.log.append(('update', sql.split()[0].upper()))
        return 0


class FakeStart:
    def __init__(self, log):
        self.log = log

    async def __aenter__(self):
        return FakeTx(self.log)

    async def __aexit__(self, *a):
        return False


class FakeDB:
    def __init__(self):
        self.log = []

    def start(self, read_only=False):
        return FakeStart(self.log)


def service(pairs):
    import gear.cloud_config as cc
    cc.global_config = {'cloud': 'gcp', 'domain': 'example.org', 'default_namespace': 'default', 'gcp_project': 'p',
                        'gcp_region': 'r', 'gcp_zone': 'z', 'batch_gcp_regions': '["r"]'}
    import auth.auth as A
    out = []

    async def one(u, sec):
        db = FakeDB()
        try:
            await asyncio.wait_for(A.insert_new_user(db, u, 'login-id', False, False, hail_identity=None,
                                                     hail_credentials_secret_name=sec), timeout=20)
        except Exception as e:  # noqa
            ins = [x for x in db.log if x[0] == 'insert']
            return type(e).__name__ + ('+inserted' if ins else '')
        ins = [x for x in db.log if x[0] == 'insert']
        if len(ins) == 1 and ins[0][1][1] == u and ins[0][1][6] == sec:
            return 'inserted'
        return f'no-exception-but-inserts={len(ins)}'

    async def all_():
        for u, sec in pairs:
            out.append(await one(s_of(u), None if sec is None else s_of(sec)))
    asyncio.run(all_())
    return out


def main():
    req = json.load(sys.stdin)
    op = req['op']
    if op == 'eval':
        ss = [s_of(c) for c in req['strings']]
        res = {'user': [run_user(s) for s in ss], 'secret': [run_secret(s) for s in ss]}
    elif op == 'service':
        res = {'results': service(req['pairs'])}
    elif op == 'tables':
        res = {
            'ascii_digit': [c for c in range(128) if chr(c).isdigit()],
            'ascii_lower': [c for c in range(128) if chr(c).islower()],
            'isascii_mismatch': [c for c in range(0x110000) if chr(c).isascii() != (c < 128)][:10],
            'points': {str(c): [chr(c).isdigit(), chr(c).islower(), chr(c).isascii()] for c in req.get('points', [])},
        }
    elif op == 'sweep':
        res = {}
        for pre, suf in req['templates']:
            pre_s, suf_s = s_of(pre), s_of(suf)
            acc_u, acc_s, odd = [], [], []
            for c in range(0x110000):
                s = pre_s + chr(c) + suf_s
                u = run_user(s)
                t = run_secret(s)
                if u is True:
                    acc_u.append(c)
                elif u is not False:
                    odd.append([c, 'user', u])
                if t is True:
                    acc_s.append(c)
                elif t is not False:
                    odd.append([c, 'secret', t])
            res[json.dumps([pre, suf])] = {'user': acc_u[:2000], 'secret': acc_s[:2000], 'odd': odd[:20]}
        res = {'templates': res, 'points': 0x110000}
    else:
        raise SystemExit(f'unknown op {op}')
    json.dump(res, sys.stdout)


main()
