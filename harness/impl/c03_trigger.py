"""C03: run the LIVE `attempts_before_update` trigger text of $VERIF_REPO on the minisql engine for a grid of (OLD, NEW) rows.

stdin : {"times": [null, 1, 2, 3], "reasons": [null, "activation_timeout", "completed"]}
stdout: {"source": "<migration file>", "olds": [[start, rollup, end, reason], ...], "news": [...],
         "results": [[ [start, rollup, end, reason] for each old ] for each new ]}

The engine holds ONLY the `attempts` table (DDL of the repo, foreign keys dropped) and ONLY that trigger, so that what is
observed is the BEFORE UPDATE trigger applied by a real `UPDATE attempts SET start_time = .., rollup_time = .., end_time = ..,
reason = ..` statement to a row with the given OLD values.
"""
import itertools
import json
import os
import sys

sys.path.insert(0, os.path.dirname(os.path.dirname(os.path.abspath(__file__))))

from minisql import Engine  # noqa: E402
from minisql.schema import Schema, load_schema  # noqa: E402


def main():
    req = json.load(sys.stdin)
    repo = os.environ.get('VERIF_REPO', '/repo')
    full = load_schema(repo)
    key = ('TRIGGER', 'attempts_before_update')
    if key not in full.routines:
        print(json.dumps({'error': 'no live attempts_before_update trigger'}))
        return
    sch = Schema()
    t = full.tables['attempts']
    t.fks = []
    sch.tables['attempts'] = t
    sch.routines[key] = full.routines[key]
    eng = Engine(schema=sch, seed=0)
    s = eng.connect()
    times, reasons = req['times'], req['reasons']
    grid = [list(x) for x in itertools.product(times, times, times, reasons)]
    for k, (st, rl, en, rs) in enumerate(grid):
        s.execute('INSERT INTO attempts (batch_id, job_id, attempt_id, instance_name, start_time, rollup_time, end_time, reason) '
                  'VALUES (1, %s, %s, %s, %s, %s, %s, %s)', (k, 'a', 'i', st, rl, en, rs))
    s.commit()
    results = []
    for new in grid:
        s.start_transaction()
        s.execute('UPDATE attempts SET start_time = %s, rollup_time = %s, end_time = %s, reason = %s', tuple(new))
        rows = s.execute('SELECT job_id, start_time, rollup_time, end_time, reason FROM attempts ORDER BY job_id').rows
        s.rollback()
        assert [r['job_id'] for r in rows] == list(range(len(grid)))
        results.append([[r['start_time'], r['rollup_time'], r['end_time'], r['reason']] for r in rows])
    print(json.dumps({'source': full.routines[key].source_file, 'olds': grid, 'news': grid, 'results': results}))


main()
