"""C21 implementation side: run the REAL retry helpers of hailtop.utils.utils on scripted failure sequences.

stdin : {"cases": [case...], "delay_cases": [[tries, base, max, draw]...]}
  case = {"entry": "debug"|"plain"|"delayed"|"sync", "script": [evspec...], "draws": [int...]|"lo"|"hi", "patched": bool}
  evspec = {"t": "probe", "cls": [lim, rate, trans]}           (only with patched classifiers)
         | {"t": "base", "name": "KeyboardInterrupt"|"CancelledError"|"SystemExit"|"GeneratorExit"}
         | {"t": "exc", "type": <name>, ...fields, "cause": evspec?, "context": evspec?, "from_none": bool?}
           (real instances, real classifiers).  Chains are made by the interpreter, not by assigning attributes:
             cause only            raise E from CAUSE
             context               try: raise CONTEXT / except: raise E            (implicit: E raised while CONTEXT was being handled)
             context + from_none   try: raise CONTEXT / except: raise E from None  (__context__ stays, __suppress_context__ set)
             context + cause       try: raise CONTEXT / except: raise E from CAUSE
             "reraise_from": spec  try: raise E / except: try: raise B / except: raise E from B   (E re-raised from an error that
                                   occurred while handling E; the interpreter cuts the context cycle)
  "shapes": [evspec...]  -> "shape_cls": [[limited, rate, transient] by the REAL classifiers, plus the links the interpreter really set]
stdout: {"results": [{"calls", "outcome", "sleeps", "rr_args", "cls"}...], "delays": [...], "constants": {...}, "touched": [...]}

Nothing sleeps: asyncio.sleep / time.sleep / random.randrange are replaced *inside the utils module namespace only*.
"""
import asyncio
import errno
import json
import logging
import random
import socket
import sys
import time
import types

import hailload
hailload.install()
# the absent third-party packages are permissive stubs; importing their `exceptions` submodules as MODULES first makes
# `<pkg>.exceptions.<Name>Error` raisable Exception subclasses (otherwise they are plain stub classes)
import aiodocker.exceptions  # noqa: E402,F401
import botocore.exceptions  # noqa: E402,F401
import requests.exceptions  # noqa: E402,F401
import urllib3.exceptions  # noqa: E402,F401
import aiohttp  # noqa: E402
import hailtop.utils.utils as u  # noqa: E402
import hailtop.httpx  # noqa: E402
from hailtop.aiocloud.aiogoogle.client.compute_client import GCPOperationError  # noqa: E402

logging.disable(logging.CRITICAL)


class Probe(Exception):
    def __init__(self, cls):
        super().__init__('probe')
        self._cls = [bool(x) for x in cls]


class _Abort(BaseException):
    """raised by the scripted operation when the helper calls it far more often than any correct loop could"""


class _Proxy:
    def __init__(self, real, **over):
        self.__dict__['_real'] = real
        self.__dict__.update(over)

    def __getattr__(self, name):
        return getattr(self._real, name)


_REQ = types.SimpleNamespace(real_url='http://verif.example/x', url='http://verif.example/x', method='GET', headers={})
_KEY = types.SimpleNamespace(host='verif.example', port=443, ssl=None, is_ssl=True)


def _errno(v):
    if v is None:
        return None
    if isinstance(v, str):
        return getattr(errno, v, None) if hasattr(errno, v) else getattr(socket, v)
    return int(v)


def build(spec):
    t = spec['t']
    if t == 'probe':
        return Probe(spec['cls'])
    if t == 'base':
        return {'KeyboardInterrupt': KeyboardInterrupt, 'CancelledError': asyncio.CancelledError, 'SystemExit': SystemExit,
                'GeneratorExit': GeneratorExit}[spec['name']]()
    ty = spec['type']
    if ty == 'aiohttp.ClientResponseError':
        e = aiohttp.ClientResponseError(_REQ, (), status=spec['status'], message=spec.get('message', 'm'))
    elif ty == 'hailtop.httpx.ClientResponseError':
        e = hailtop.httpx.ClientResponseError(_REQ, (), body=spec.get('body', ''), status=spec['status'], message='m')
    elif ty == 'aiohttp.ServerTimeoutError':
        e = aiohttp.ServerTimeoutError('timeout')
    elif ty == 'aiohttp.ServerDisconnectedError':
        e = aiohttp.ServerDisconnectedError()
    elif ty == 'asyncio.TimeoutError':
        e = asyncio.TimeoutError()
    elif ty == 'aiohttp.ClientConnectorError':
        e = aiohttp.ClientConnectorError(_KEY, build(spec['os_error']))
    elif ty == 'aiohttp.ClientPayloadError':
        e = aiohttp.ClientPayloadError(spec.get('msg', 'Response payload is not completed'))
    elif ty == 'aiohttp.ClientOSError':
        e = aiohttp.ClientOSError(_errno(spec.get('errno')), spec.get('strerror', 'x'))
    elif ty == 'aiohttp.ClientConnectionError':
        e = aiohttp.ClientConnectionError('x')
    elif ty in ('OSError', 'ConnectionResetError', 'ConnectionRefusedError', 'ConnectionAbortedError', 'BrokenPipeError', 'TimeoutError',
                'FileNotFoundError', 'PermissionError'):
        cls = {'OSError': OSError, 'ConnectionResetError': ConnectionResetError, 'ConnectionRefusedError': ConnectionRefusedError,
               'ConnectionAbortedError': ConnectionAbortedError, 'BrokenPipeError': BrokenPipeError, 'TimeoutError': TimeoutError,
               'FileNotFoundError': FileNotFoundError, 'PermissionError': PermissionError}[ty]
        en = _errno(spec.get('errno'))
        e = cls() if en is None else cls(en, 'x')
    elif ty == 'socket.timeout':
        e = socket.timeout('timed out')
    elif ty == 'socket.gaierror':
        e = socket.gaierror(_errno(spec['errno']), 'x')
    elif ty == 'TransientError':
        e = u.TransientError('t')
    elif ty == 'GCPOperationError':
        e = GCPOperationError(500, 'm', spec.get('error_codes'), None, {})
    elif ty == 'stub.DockerError':
        e = u.aiodocker.exceptions.DockerError()
        e.status = spec['status']
        e.message = spec.get('message', '')
    elif ty == 'stub.urllib3.ReadTimeoutError':
        e = u.urllib3.exceptions.ReadTimeoutError()
    elif ty == 'stub.requests.ConnectionError':
        e = u.requests.exceptions.ConnectionError()
    elif ty == 'stub.botocore.ConnectionClosedError':
        e = u.botocore.exceptions.ConnectionClosedError()
    elif ty in ('ValueError', 'KeyError', 'RuntimeError', 'AssertionError', 'TypeError', 'ZeroDivisionError', 'Exception',
                'NotImplementedError', 'UnicodeDecodeError_', 'LookupError'):
        e = {'ValueError': ValueError, 'KeyError': KeyError, 'RuntimeError': RuntimeError, 'AssertionError': AssertionError,
             'TypeError': TypeError, 'ZeroDivisionError': ZeroDivisionError, 'Exception': Exception,
             'NotImplementedError': NotImplementedError, 'LookupError': LookupError}[ty]('x')
    else:
        raise SystemExit(f'c21_retry: unknown exception type in spec: {ty}')
    if not isinstance(e, BaseException):
        raise SystemExit(f'c21_retry: {ty} did not build an exception instance (stub class?)')
    if 'atom' in spec:
        e._atom = spec['atom']
    return _chain(e, spec)


def _chain(e, spec):
    cause = build(spec['cause']) if spec.get('cause') is not None else None
    handling = build(spec['context']) if spec.get('context') is not None else None
    from_none = bool(spec.get('from_none'))
    if spec.get('reraise_from') is not None:
        b = build(spec['reraise_from'])
        try:
            try:
                raise e
            except BaseException as e1:
                try:
                    raise b
                except BaseException as b1:
                    raise e1 from b1
        except BaseException as x:
            if x is not e:
                raise
            return x
    if cause is None and handling is None and not from_none:
        return e

    def do_raise():
        if cause is not None:
            raise e from cause
        if from_none:
            raise e from None
        raise e

    try:
        if handling is not None:
            try:
                raise handling
            except BaseException:
                do_raise()
        else:
            do_raise()
    except BaseException as x:
        if x is not e:
            raise
    e.__traceback__ = None
    return e


def links(e, depth=0):
    """what the interpreter really set (reported back so that the model is evaluated on the object that exists)"""
    if e is None or depth > 12:
        return None
    return {'type': type(e).__name__, 'atom': getattr(e, '_atom', None), 'cause': links(e.__cause__, depth + 1), 'context': links(e.__context__, depth + 1),
            'suppress': bool(e.__suppress_context__)}


REAL = (u.is_limited_retries_error, u.is_rate_limit_error, u.is_transient_error)
PROBE = (lambda e: e._cls[0], lambda e: e._cls[1], lambda e: e._cls[2])


def run_case(loop, case):
    script = [build(s) for s in case['script']]
    patched = bool(case.get('patched'))
    clsf = PROBE if patched else REAL
    u.is_limited_retries_error, u.is_rate_limit_error, u.is_transient_error = clsf
    cls = [None if not isinstance(e, Exception) else [bool(c(e)) for c in clsf] for e in script]
    draws = case.get('draws', [])
    st = {'calls': 0, 'rr': 0}
    sleeps, rr_args = [], []

    def randrange(n, *rest):
        if rest:
            raise SystemExit('c21_retry: randrange called with more than one argument')
        rr_args.append(n)
        if n <= 0:
            raise ValueError('empty range for randrange()')
        k = st['rr']
        st['rr'] += 1
        if draws == 'lo':
            return 0
        if draws == 'hi':
            return n - 1
        return (draws[k] if k < len(draws) else 0) % n

    async def asleep(d, *a):
        sleeps.append(d)

    def ssleep(d):
        sleeps.append(d)

    limit = len(script) + 6
    args, kwargs = (1, 'a'), {'kw': [2]}

    def step(a, k):
        i = st['calls']
        st['calls'] += 1
        if st['calls'] > limit:
            raise _Abort()
        if a != args or k != kwargs:
            raise SystemExit('c21_retry: arguments not forwarded')
        if i < len(script):
            raise script[i]
        return ('ok', i)

    async def f(*a, **k):
        return step(a, k)

    def fs(*a, **k):
        return step(a, k)

    u.asyncio = _Proxy(asyncio, sleep=asleep)
    u.random = _Proxy(random, randrange=randrange)
    u.time = _Proxy(time, sleep=ssleep)
    entry = case.get('entry', 'debug')
    try:
        if entry == 'sync':
            val = u.sync_retry_transient_errors(fs, *args, **kwargs)
        else:
            if entry == 'debug':
                coro = u.retry_transient_errors_with_debug_string('dbg', 0, f, *args, **kwargs)
            elif entry == 'plain':
                coro = u.retry_transient_errors(f, *args, **kwargs)
            elif entry == 'delayed':
                coro = u.retry_transient_errors_with_delayed_warnings(1000, f, *args, **kwargs)
            else:
                raise SystemExit(f'c21_retry: unknown entry {entry}')
            val = loop.run_until_complete(asyncio.wait_for(coro, 30))
        outcome = 'returned' if val == ('ok', len(script)) else ['returned-wrong', repr(val)]
    except _Abort:
        outcome = 'runaway'
    except BaseException as ex:  # noqa
        idx = [i for i, s in enumerate(script) if s is ex]
        outcome = ['raised', idx[0]] if idx else ['raised-other', type(ex).__name__ + ': ' + str(ex)[:200]]
    finally:
        u.asyncio, u.random, u.time = asyncio, random, time
        u.is_limited_retries_error, u.is_rate_limit_error, u.is_transient_error = REAL
    return {'calls': st['calls'], 'outcome': outcome, 'sleeps': sleeps, 'rr_args': rr_args, 'cls': cls}


def run_delay(tries, base, mx, draw):
    """delay_ms_for_try(tries, base, max) with randrange(n) := draw mod n ('lo' -> 0, 'hi' -> n-1)"""
    seen = []

    def randrange(n, *rest):
        seen.append(n)
        if n <= 0:
            raise ValueError('empty range for randrange()')
        return 0 if draw == 'lo' else (n - 1 if draw == 'hi' else draw % n)

    u.random = _Proxy(random, randrange=randrange)
    try:
        return {'value': u.delay_ms_for_try(tries, base, mx), 'rr_args': seen}
    except Exception as ex:  # noqa
        return {'value': None, 'error': type(ex).__name__, 'rr_args': seen}
    finally:
        u.random = random


def main():
    req = json.load(sys.stdin)
    loop = asyncio.new_event_loop()
    asyncio.set_event_loop(loop)
    out = [run_case(loop, c) for c in req.get('cases', [])]
    delays = [run_delay(*d) for d in req.get('delay_cases', [])]
    shape_cls = []
    for sp in req.get('shapes', []):
        e = build(sp)
        try:
            shape_cls.append({'cls': [bool(c(e)) for c in REAL], 'links': links(e)})
        except RecursionError:
            shape_cls.append({'cls': None, 'links': None, 'error': 'RecursionError'})
    loop.close()
    consts = {k: getattr(u, k, None) for k in ('LOG_2_MAX_MULTIPLIER', 'DEFAULT_MAX_DELAY_MS', 'DEFAULT_BASE_DELAY_MS')}
    json.dump({'results': out, 'delays': delays, 'constants': consts, 'shape_cls': shape_cls,
               'touched': sorted(t for t in hailload.TOUCHED if t.split('.')[0] in ('aiodocker', 'urllib3', 'requests', 'botocore'))},
              sys.stdout)


main()
