"""C33 implementation side: run the REAL HailType._to_encoding / _convert_from_encoding of $VERIF_REPO on typed values
(numpy arrays in C and Fortran memory order), no JVM."""
import json
import sys

from hail_values import mk_type, mk_value, canon_value, py_equal, describe_exception
from hail.utils.byte_reader import ByteReader

JUNK = bytes([0xA5, 0x5A, 0xFF, 0x00, 0x80, 0x01, 0x7F, 0xC3, 0x28])


def run_case(c):
    t, v = c['t'], c['v']
    out = {}
    ht = mk_type(t)
    pv = mk_value(t, v)
    out['built'] = canon_value(t, pv)          # sets in the iteration order of the Python objects actually encoded
    try:
        enc = ht._to_encoding(pv)
        out['bytes'] = list(enc)
    except Exception as e:  # noqa: BLE001
        out['enc_exc'] = describe_exception(e)
        return out
    try:
        back = ht._from_encoding(enc)
        out['back'] = canon_value(t, back)
        out['eq'] = py_equal(t, pv, back)
        try:
            out['pyeq'] = bool(pv == back)
        except Exception:  # noqa: BLE001
            out['pyeq'] = None
    except Exception as e:  # noqa: BLE001
        out['dec_exc'] = describe_exception(e)
        return out
    # decoding must stop exactly at the end of the value when more bytes follow
    try:
        br = ByteReader(memoryview(enc + JUNK))
        back2 = ht._convert_from_encoding(br)
        out['consumed'] = br._offset
        out['back_with_rest'] = canon_value(t, back2)
    except Exception as e:  # noqa: BLE001
        out['rest_exc'] = describe_exception(e)
    return out


def main():
    req = json.load(sys.stdin)
    res = []
    for c in req['cases']:
        try:
            res.append(run_case(c))
        except Exception as e:  # noqa: BLE001
            res.append({'build_exc': describe_exception(e)})
    json.dump({'results': res, 'junk': list(JUNK)}, sys.stdout)


main()
