"""C30 implementation side: REAL ci.github.PR / WatchedBranch objects driven by event histories against a scripted fake
GitHub, a fake batch service and a fake database.

stdin: {"histories": [[event, ...], ...], "mode": "steps"|"loop"}
events
  ["Open", n]                      a new pull request n (fresh head sha) appears on GitHub
  ["Push", n]                      new head commit (fresh sha); commit statuses of the new head start empty
  ["Review", n, d]                 d in APPROVED | CHANGES_REQUESTED | REVIEW_REQUIRED | NONE
  ["Label", n, dnm, hp, dnt]       booleans: WIP label, prio:high label, do-not-test label
  ["Status", n, ctx, s]            an external required check ctx>=1 reports s in SUCCESS|PENDING|FAILURE on the current head
  ["TargetMove"]                   somebody pushes to the target branch (fresh sha)
  ["BatchComplete", n, ok]         the newest running test batch of PR n completes
  ["Fetch", k]                     wb._update_github(gh); k = null (all succeed) or the number of per-PR refreshes that succeed before GitHub fails
  ["UpdateBatch"]                  wb._update_batch(...)
  ["HealMerge", do_merge]          wb._heal(...); then wb.try_to_merge(gh) iff do_merge
  ["Notify", what, k]              (mode loop) wb.notify_github_changed / notify_batch_changed / update; reports the sub-steps it ran

Output per history: the observable state after every event plus the list of merges, each with the PROVENANCE of what the
merge decision used (for which head commit the review decision and every status were obtained; the batch's target and
source commit and its real state), recorded by the fakes.
"""
import asyncio
import json
import os
import re
import sys
import warnings

warnings.simplefilter('ignore')
import hailload  # noqa: E402

hailload.install()
import gear.cloud_config as cc  # noqa: E402

cc.global_config = {'cloud': 'gcp', 'docker_prefix': 'd', 'docker_root_image': 'u', 'domain': 'hail.example', 'kubernetes_server_url': 'k',
                    'default_namespace': 'default', 'batch_gcp_regions': '["us-central1"]', 'gcp_region': 'us-central1',
                    'gcp_project': 'p', 'gcp_zone': 'z'}
import gidgethub  # noqa: E402  (stub)
import ci.github as G  # noqa: E402
from ci.constants import AUTHORIZED_USERS  # noqa: E402

CI = G.GITHUB_STATUS_CONTEXT
AUTHOR = AUTHORIZED_USERS[0].gh_username
REPO = G.Repo('hail-is', 'hail')
BRANCH = G.FQBranch(REPO, 'main')


class GithubDown(Exception):
    pass


class World:
    """GitHub + batch service truth."""

    def __init__(self):
        self.counter = 1
        self.target = 'sha0'
        self.prs = {}          # n -> dict(head, review, labels(dnm,hp,dnt), statuses{ctx:state}, open)
        self.batches = []      # dict(id, attributes, state)
        self.merges = []
        self.prov = {}         # n -> {'review_for': sha, 'status_for': {ctx: sha}}
        self.fail_after = None
        self.racing_push = None     # PR number whose branch gets a push just before CI's next merge request reaches GitHub
        self.fetched = 0
        self.posts = []

    def fresh(self):
        s = 'sha%d' % self.counter
        self.counter += 1
        return s


class FakeGH:
    def __init__(self, w):
        self.w = w

    async def getitem(self, url):
        assert '/git/refs/heads/' in url, url
        return {'object': {'sha': self.w.target}}

    async def getiter(self, url):
        assert '/pulls?state=open' in url, url
        for n in sorted(self.w.prs):
            p = self.w.prs[n]
            if not p['open']:
                continue
            labels = (['WIP'] if p['labels'][0] else []) + (['prio:high'] if p['labels'][1] else []) + (['do-not-test'] if p['labels'][2] else [])
            yield {'number': n, 'title': 't', 'body': None, 'user': {'login': AUTHOR}, 'assignees': [], 'requested_reviewers': [],
                   'labels': [{'name': x} for x in labels],
                   'head': {'sha': p['head'], 'ref': 'feature%d' % n, 'repo': {'owner': {'login': 'contrib'}, 'name': 'hail'}}}

    async def post(self, url, data=None):
        w = self.w
        if url == '/graphql':
            m = re.search(r'pullRequest \(number: (\d+)\)', data['query'])
            n = int(m.group(1))
            # cursor pagination as GitHub does it: `contexts (first: N, after: "<cursor>")`
            q = data['query']
            first = int(re.search(r'contexts \(first: (\d+)', q).group(1))
            ma = re.search(r'after: "([^"]*)"', q)
            start = int(ma.group(1)) if ma else 0
            if start == 0:     # a refresh of this PR begins (the scripted failure counts pull requests, not pages)
                if w.fail_after is not None and w.fetched >= w.fail_after:
                    raise GithubDown('scripted GitHub failure')
                w.fetched += 1
            p = w.prs[n]
            nodes = [{'__typename': 'StatusContext', 'context': (CI if c == 0 else 'check%d' % c), 'state': s, 'isRequired': True}
                     for c, s in sorted(p['statuses'].items())]
            page = nodes[start:start + first]
            more = start + first < len(nodes)
            rollup = {'contexts': {'nodes': page, 'pageInfo': {'hasNextPage': more, 'endCursor': str(start + first) if more else None}}} if nodes else None
            if start == 0:
                w.prov[n] = {'review_for': p['head'], 'status_for': {c: p['head'] for c in p['statuses']}, 'status_truth': dict(p['statuses'])}
            return {'data': {'repository': {'pullRequest': {'reviewDecision': None if p['review'] == 'NONE' else p['review'],
                                                            'commits': {'nodes': [{'commit': {'statusCheckRollup': rollup}}]}}}}}
        m = re.fullmatch(r'/repos/[^/]+/[^/]+/statuses/(\w+)', url)
        if m:
            sha = m.group(1)
            w.posts.append([sha, data['state']])
            for n, p in w.prs.items():
                if p['head'] == sha:
                    p['statuses'][0] = data['state'].upper()
            # the PR object that posted it will store the status under the CI context: provenance = the sha it was posted on
            for n, pr in WB.prs.items():
                if pr.source_sha == sha:
                    w.prov.setdefault(n, {'review_for': None, 'status_for': {}})['status_for'][0] = sha
            return {}
        raise AssertionError('unexpected POST ' + url)

    async def put(self, url, data=None):
        w = self.w
        m = re.fullmatch(r'/repos/[^/]+/[^/]+/pulls/(\d+)/merge', url)
        assert m, url
        n = int(m.group(1))
        p = w.prs[n]
        if w.racing_push == n and p['open']:
            p['head'] = w.fresh()
            p['statuses'] = {}
            w.racing_push = None
        # GitHub's merge API: `sha` is optional - "SHA that pull request head must match to allow merge"; without it the current head is merged
        sent = (data or {}).get('sha')
        if not p['open'] or (sent is not None and p['head'] != sent):
            raise gidgethub.HTTPException('409 head branch was modified / not mergeable')
        data = dict(data or {}, sha=p['head'])
        pr = WB.prs[n]
        b = pr.batch
        truth = None
        if b is not None and hasattr(b, 'id'):
            truth = next((x['state'] for x in w.batches if x['id'] == b.id), None)
        prov = w.prov.get(n, {'review_for': None, 'status_for': {}})
        w.merges.append({'pr': n, 'sha': data['sha'], 'github_head': p['head'], 'review_state': pr.review_state, 'review_for': prov['review_for'],
                         'labels': sorted(pr.labels),
                         'statuses': {ctx_id(k): [v.value, prov['status_for'].get(ctx_id(k))] for k, v in pr.last_known_github_status.items()},
                         'batch': None if b is None else {'target_sha': b.attributes.get('target_sha'), 'source_sha': b.attributes.get('source_sha'),
                                                          'state': truth},
                         # checks GitHub reported for this head at the last refresh that CI did not record (e.g. a dropped result page)
                         'unseen_statuses': {str(c): st for c, st in prov.get('status_truth', {}).items()
                                             if c != 0 and prov['status_for'].get(c) == data['sha']
                                             and c not in {ctx_id(k) for k in pr.last_known_github_status}},
                         'build_state': pr.build_state, 'ci_target_sha': WB.sha, 'github_target_sha': w.target})
        p['open'] = False
        w.target = w.fresh()
        return {'merged': True}


def ctx_id(name):
    return 0 if name == CI else int(name[len('check'):])


class FakeBatch:
    def __init__(self, w, attributes):
        self.w = w
        self.attributes = attributes
        self.id = None

    async def submit(self, **kw):
        self.id = len(self.w.batches) + 1
        self.w.batches.append({'id': self.id, 'attributes': dict(self.attributes), 'state': 'running', 'obj': self})
        return self

    def _rec(self):
        return next(x for x in self.w.batches if x['id'] == self.id)

    async def status(self):
        s = self._rec()['state']
        return {'state': s, 'complete': s in ('success', 'failure', 'cancelled'), 'id': self.id, 'attributes': self.attributes}

    async def cancel(self):
        r = self._rec()
        if r['state'] == 'running':
            r['state'] = 'cancelled'


G.Batch = FakeBatch


class FakeBatchClient:
    def __init__(self, w):
        self.w = w

    def create_batch(self, attributes=None, callback=None, **kw):
        return FakeBatch(self.w, dict(attributes or {}))

    async def list_batches(self, q):
        toks = q.split()
        for r in sorted(self.w.batches, key=lambda x: -x['id']):
            ok = True
            for t in toks:
                if t == 'user:ci':
                    continue
                if t == '!complete':
                    ok = ok and r['state'] == 'running'
                elif t == '!open':
                    pass
                elif '=' in t:
                    k, v = t.split('=', 1)
                    ok = ok and r['attributes'].get(k) == v
                else:
                    raise AssertionError('unexpected query token ' + t)
            if ok:
                yield r['obj']


class FakeDB:
    async def execute_and_fetchone(self, sql, args=None, **kw):
        return None

    select_and_fetchone = execute_and_fetchone

    async def execute_insertone(self, *a, **k):
        return None

    async def execute_many(self, *a, **k):
        return None


class FakeBuildConfiguration:
    def __init__(self, code, text, scope=None, **kw):
        pass

    def namespace(self):
        return 'pr-ns'

    def deployed_services(self):
        return []

    def build(self, batch, code, scope=None):
        pass


async def _noop(*a, **k):
    return None


async def _rev_parse(*a, **k):
    return (b'mergesha\n', b'')

G.BuildConfiguration = FakeBuildConfiguration
G.check_shell = _noop
G.check_shell_output = _rev_parse
G.add_deployed_services = _noop

WB = None


def observe(w):
    prs = []
    for n in sorted(WB.prs):
        pr = WB.prs[n]
        b = pr.batch
        prs.append({'n': n, 'src': pr.source_sha, 'review': pr.review_state,
                    'labels': ['WIP' in pr.labels, 'prio:high' in pr.labels, 'do-not-test' in pr.labels],
                    'statuses': sorted([ctx_id(k), v.value] for k, v in pr.last_known_github_status.items()),
                    'batch': None if b is None else [b.attributes.get('target_sha'), b.attributes.get('source_sha'), type(b).__name__],
                    'build': pr.build_state, 'intended': pr.intended_github_status.value})
    return {'wb_sha': WB.sha, 'prs': prs, 'target': w.target,
            'gh': sorted([n, p['head'], p['open'], sorted(p['statuses'].items())] for n, p in w.prs.items()),
            'batches': [[b['id'], b['attributes'].get('pr'), b['attributes'].get('source_sha'), b['attributes'].get('target_sha'), b['state']]
                        for b in w.batches],
            'n_merges': len(w.merges)}


async def apply_event(w, gh, bc, db, ev, mode):
    global WB
    k = ev[0]
    if k == 'Open':
        assert ev[1] not in w.prs
        w.prs[ev[1]] = {'head': w.fresh(), 'review': 'NONE', 'labels': [False, False, False], 'statuses': {}, 'open': True}
    elif k == 'Push':
        p = w.prs.get(ev[1])
        if p and p['open']:
            p['head'] = w.fresh()
            p['statuses'] = {}
    elif k == 'Review':
        if ev[1] in w.prs:
            w.prs[ev[1]]['review'] = ev[2]
    elif k == 'Label':
        if ev[1] in w.prs:
            w.prs[ev[1]]['labels'] = [bool(x) for x in ev[2:5]]
    elif k == 'Status':
        if ev[1] in w.prs and ev[2] >= 1:
            w.prs[ev[1]]['statuses'][ev[2]] = ev[3]
    elif k == 'TargetMove':
        w.target = w.fresh()
    elif k == 'RacingPush':        # oracle-only event (no model counterpart): see World.racing_push
        w.racing_push = ev[1]
    elif k == 'BatchComplete':
        for b in sorted(w.batches, key=lambda x: -x['id']):
            if b['attributes'].get('pr') == str(ev[1]) and b['state'] == 'running':
                b['state'] = 'success' if ev[2] else 'failure'
                break
    elif k == 'Fetch':
        w.fail_after, w.fetched = ev[1], 0
        await WB._update_github(gh)
    elif k == 'UpdateBatch':
        await WB._update_batch(bc, db)
    elif k == 'HealMerge':
        await WB._heal(db, bc, gh, False)
        if ev[1]:
            await WB.try_to_merge(gh)
    elif k == 'Notify':
        w.fail_after, w.fetched = ev[2], 0
        calls = []
        orig = {}
        for name in ('_update_github', '_update_batch', '_heal', 'try_to_merge'):
            f = getattr(WB, name)
            orig[name] = f

            def mk(name, f):
                async def wrapped(*a, **kw):
                    calls.append(name)
                    if name == '_update_github':
                        w.fetched = 0
                    return await f(*a, **kw)
                return wrapped
            setattr(WB, name, mk(name, f))
        try:
            fn = {'github': WB.notify_github_changed, 'batch': WB.notify_batch_changed, 'all': WB.update}[ev[1]]
            try:
                await fn(db, bc, gh, False)
            finally:
                for name in orig:
                    delattr(WB, name)
        except BaseException as e:  # noqa
            return {'calls': calls, 'error': type(e).__name__}
        return {'calls': calls}
    else:
        raise AssertionError('unknown event %r' % (ev,))
    return None


async def run_history(events, mode):
    global WB
    w = World()
    gh, bc, db = FakeGH(w), FakeBatchClient(w), FakeDB()
    WB = G.WatchedBranch(0, BRANCH, False, True, [])
    os.makedirs('repos/hail-is/hail/ci/test/resources', exist_ok=True)
    for f in ('repos/hail-is/hail/build.yaml', 'repos/hail-is/hail/ci/test/resources/build.yaml'):
        if not os.path.exists(f):
            open(f, 'w').write('steps: []\n')
    trace = []
    for ev in events:
        err = None
        extra = None
        try:
            extra = await asyncio.wait_for(apply_event(w, gh, bc, db, ev, mode), 20)
        except AssertionError:
            err = 'AssertionError'
        except GithubDown:
            err = 'GithubDown'
        except Exception as e:  # noqa
            err = 'Exception:' + type(e).__name__ + ':' + str(e)[:200]
        o = observe(w)
        o['error'] = err
        if extra:
            o['extra'] = extra
        trace.append(o)
    return {'trace': trace, 'merges': w.merges}


def main():
    req = json.load(sys.stdin)
    loop = asyncio.new_event_loop()
    asyncio.set_event_loop(loop)
    out = []
    for h in req['histories']:
        out.append(loop.run_until_complete(run_history(h, req.get('mode', 'steps'))))
    json.dump({'results': out, 'ci_context': CI}, sys.stdout)


if __name__ == '__main__':
    main()
