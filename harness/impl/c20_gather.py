"""C20 implementation side: run the REAL bounded gather helpers of hailtop.utils.utils on the deterministic asyncio loop
under harness schedules and report what is observable after every action.

request : {"cases": [{"entry": "gather2" | "gather", "mode": "ret" | "raise" | "cancel", "N": permits, "n": tasks, "acts": [...]}, ...]}
  entry gather2: the caller does `async with sema: await bounded_gather2(sema, *pfs, ...)` with sema = asyncio.Semaphore(N)
                 (the documented protocol: the caller holds one permit, bounded_gather2 lends it out while it waits)
  entry gather : the caller does `await bounded_gather(*pfs, parallelism=N, ...)`
  mode ret = return_exceptions=True, raise = defaults, cancel = cancel_on_error=True
actions : ["K", i]     partial function i returns (value 100+i)
          ["E", i, e]  partial function i raises error class e (0 -> ErrA, 1 -> ErrB)
          ["X"]        the caller's task is cancelled
          ["T", i]     (entry online) the task returned by pool.call for partial function i is cancelled
  entry online : the caller does `async with sema: async with OnlineBoundedGather2(sema) as pool: [pool.call(pf) ...]`
                 (optionally "body": "raise" - the with-body raises ErrB after submitting); result = list of task results
  the start of the call is implicit; observation 0 is taken after it.
answer  : {"results": [[obs0, obs after action 1, ...], ...]}
obs     : {"pf": ["W" never entered | "R" running | "ok" | "err" | "cancelled", ...],   body of every partial function
           "alive": number of unfinished asyncio tasks other than the caller (entry online: unfinished tasks returned by pool.call),
           "value": semaphore value (entry gather2 only), "waiters": live waiters of the semaphore,
           "caller": "P" | ["V", results] | ["E", name] | "X",
           "at_return": null | {"running": [i..], "alive": k}     taken by the caller at the instant the helper returned or raised
           "peak": largest value seen so far of (number of running bodies + 1 if the caller itself holds its permit)}
"""
import asyncio
import json
import sys

import hailload
hailload.install()
sys.path.insert(0, hailload.HERE + '/..')
from aio.detloop import DetLoop  # noqa: E402
from hailtop.utils import utils as U  # noqa: E402


class ErrA(Exception):
    pass


class ErrB(Exception):
    pass


class ErrC(BaseException):
    """A failure that is not an `Exception` (like KeyboardInterrupt, or the CancelledError of a future someone else cancelled)."""


ERR = [ErrA, ErrB, ErrC]


def canon_result(mode, res):
    if mode == 'ret':
        out = []
        for pair in res:
            v, e = pair
            out.append(['V', v] if e is None else ['E', type(e).__name__])
        return out
    return list(res)


def run_case(case):
    dl = DetLoop(start=1000.0)
    dl.loop.set_exception_handler(lambda loop, context: None)
    try:
        N, n, mode, entry = case['N'], case['n'], case['mode'], case['entry']
        futs = [dl.loop.create_future() for _ in range(n)]
        pf_state = ['W'] * n
        running = set()
        holding = [False]
        peak = [0]
        at_return = [None]
        sema = asyncio.Semaphore(N) if entry in ('gather2', 'online') else None
        caller_box = []
        online_tasks = []

        def alive():
            if entry == 'online':        # the pool's background tasks (not its internal _shutdown helper task)
                return sum(1 for t in online_tasks if not t.done())
            return sum(1 for t in asyncio.all_tasks(dl.loop) if not t.done() and (not caller_box or t is not caller_box[0]))

        def make_pf(i):
            async def pf():
                pf_state[i] = 'R'
                running.add(i)
                peak[0] = max(peak[0], len(running) + (1 if holding[0] else 0))
                try:
                    v = await futs[i]
                    pf_state[i] = 'ok'
                    return v
                except asyncio.CancelledError:
                    pf_state[i] = 'cancelled'
                    raise
                except BaseException:
                    pf_state[i] = 'err'
                    raise
                finally:
                    running.discard(i)
            return pf

        pfs = [make_pf(i) for i in range(n)]
        kw = {}
        if mode == 'ret':
            kw['return_exceptions'] = True
        elif mode == 'cancel':
            kw['cancel_on_error'] = True

        async def caller_online():
            async with sema:
                holding[0] = True
                try:
                    try:
                        async with U.OnlineBoundedGather2(sema) as pool:
                            for pf in pfs:
                                online_tasks.append(pool.call(pf))
                            if case.get('body') == 'raise':
                                raise ErrB()
                            holding[0] = False        # __aexit__ lends the permit out while it waits
                    finally:
                        holding[0] = True
                        at_return[0] = {'running': sorted(running), 'alive': alive()}
                        peak[0] = max(peak[0], len(running) + 1)
                    return [t.result() if (t.done() and not t.cancelled() and t.exception() is None) else None for t in online_tasks]
                finally:
                    holding[0] = False

        async def caller():
            if entry == 'online':
                return await caller_online()
            if entry == 'gather2':
                async with sema:
                    holding[0] = True
                    try:
                        holding[0] = False            # the helper lends the permit out from here ...
                        try:
                            return await U.bounded_gather2(sema, *pfs, **kw)
                        finally:
                            holding[0] = True         # ... and the caller has it back from here
                            at_return[0] = {'running': sorted(running), 'alive': alive()}
                            peak[0] = max(peak[0], len(running) + 1)
                    finally:
                        holding[0] = False
            else:
                try:
                    return await U.bounded_gather(*pfs, parallelism=N, **kw)
                finally:
                    at_return[0] = {'running': sorted(running), 'alive': alive()}

        caller_box.append(dl.spawn(caller()))
        ct = caller_box[0]

        def observe():
            if not ct.done():
                cs = 'P'
            elif ct.cancelled():
                cs = 'X'
            elif ct.exception() is not None:
                cs = ['E', type(ct.exception()).__name__]
            else:
                cs = ['V', canon_result(mode, ct.result())]
            return {'pf': list(pf_state), 'alive': alive(),
                    'value': sema._value if sema is not None else None,
                    'waiters': (sum(1 for w in (sema._waiters or ()) if not w.done()) if sema is not None else None),
                    'caller': cs, 'at_return': at_return[0], 'peak': peak[0]}

        dl.settle()
        out = [observe()]
        for a in case['acts']:
            op = a[0]
            if op in ('K', 'E'):
                i = a[1]
                if 0 <= i < n and pf_state[i] == 'R' and not futs[i].done():
                    if op == 'K':
                        futs[i].set_result(100 + i)
                    else:
                        futs[i].set_exception(ERR[a[2]]())
            elif op == 'X':
                ct.cancel()
            elif op == 'T':
                if 0 <= a[1] < len(online_tasks):
                    online_tasks[a[1]].cancel()
            else:
                raise ValueError(f'bad action {a}')
            dl.settle()
            out.append(observe())
        return out
    finally:
        dl.close()


def main():
    req = json.load(sys.stdin)
    res = []
    for case in req['cases']:
        try:
            res.append(run_case(case))
        except Exception as e:  # the harness, not the code under test, failed
            res.append({'harness_error': f'{type(e).__name__}: {e}'})
    json.dump({'results': res}, sys.stdout)


main()
