"""C35 implementation side: build expression DAGs with the REAL hail front end of $VERIF_REPO (through the expression API, or
directly as hail.ir nodes), export the real object graph (ids = object identity), and render it with the REAL CSERenderer.

Program language (JSON):  ['int', z] ['bool', b] ['bin', op, P, P] ['un', op, P] ['cmp', op, P, P] ['if', P, P, P]
  ['share', py, P1, P2] (python-level `py = P1; P2`: the SAME object is used wherever ['use', py] appears)  ['use', py]
  ['bind', x, P1, P2]  ['var', x, type]  ['struct', [[f, P]..]]  ['field', f, P]  ['array', [P..]]  ['len', P]
  ['map', x, Parr, Pbody]  ['filter', x, Parr, Pbody]  ['fold', acc, x, Parr, Pzero, Pbody]  ['idx', Parr, Pint]
  mode 'agg' only (hail.ir nodes; scan = is_scan):  ['tagg', Q] TableAggregate(TableRange, Q)   ['tscan', [[f, Q]..]] TableMapRows(
  TableRange, InsertFields(row, ..))   ['aggop', scan, op, [Pinit..], [Pseq..]] ApplyAggOp / ApplyScanOp   ['aggfilter', scan, Pcond, Q]
  ['agggroupby', scan, Pkey, Q]  ['aggexplode', scan, x, Parr, Q]  ['aggarrayper', scan, elt, idx, Parr, Q]  ['agglet', scan, x, P, Q]
  ['cast64', P]  ['tuple', [Q..]]  ['streamagg', x, Parr, Q] StreamAgg(ToStream(Parr), x, Q)  ['streamaggscan', x, Parr, Q]
  bin ops: + - * // %   (API mode: python operators on int32 expressions; `a[i]` is Apply indexArray; IR mode: ArrayRef)
types: 'int' | 'bool' | ['array', t] | ['struct', [[f, t]..]]
"""
import json
import sys
import traceback

import hailload
hailload.install()
import hail as hl  # noqa: E402
import hail.ir as ir  # noqa: E402
from hail.ir.renderer import CSERenderer  # noqa: E402
from hail.expr.expressions import construct_expr  # noqa: E402


def mk_type(t):
    if t == 'int':
        return hl.tint32
    if t == 'bool':
        return hl.tbool
    if t[0] == 'array':
        return hl.tarray(mk_type(t[1]))
    if t[0] == 'struct':
        return hl.tstruct(**{f: mk_type(ft) for f, ft in t[1]})
    raise ValueError(t)


# ---- API mode: every construct goes through the public expression API

def build_api(p, py, var):
    k = p[0]
    if k == 'int':
        return hl.int32(p[1])
    if k == 'bool':
        return hl.literal(bool(p[1]))
    if k == 'bin':
        a, b = build_api(p[2], py, var), build_api(p[3], py, var)
        return {'+': lambda: a + b, '-': lambda: a - b, '*': lambda: a * b, '//': lambda: a // b, '%': lambda: a % b}[p[1]]()
    if k == 'un':
        a = build_api(p[2], py, var)
        return -a if p[1] == '-' else ~a
    if k == 'cmp':
        a, b = build_api(p[2], py, var), build_api(p[3], py, var)
        return {'<': lambda: a < b, '<=': lambda: a <= b, '>': lambda: a > b, '>=': lambda: a >= b,
                '==': lambda: a == b, '!=': lambda: a != b}[p[1]]()
    if k == 'if':
        return hl.if_else(build_api(p[1], py, var), build_api(p[2], py, var), build_api(p[3], py, var))
    if k == 'share':
        obj = build_api(p[2], py, var)
        return build_api(p[3], {**py, p[1]: obj}, var)
    if k == 'use':
        return py[p[1]]
    if k == 'bind':
        return hl.bind(lambda v: build_api(p[3], py, {**var, p[1]: v}), build_api(p[2], py, var))
    if k == 'var':
        return var[p[1]]
    if k == 'struct':
        return hl.struct(**{f: build_api(q, py, var) for f, q in p[1]})
    if k == 'field':
        return build_api(p[2], py, var)[p[1]]
    if k == 'array':
        return hl.array([build_api(q, py, var) for q in p[1]])
    if k == 'len':
        return hl.len(build_api(p[1], py, var))
    if k == 'idx':
        return build_api(p[1], py, var)[build_api(p[2], py, var)]
    if k == 'map':
        return hl.map(lambda v: build_api(p[3], py, {**var, p[1]: v}), build_api(p[2], py, var))
    if k == 'filter':
        return hl.filter(lambda v: build_api(p[3], py, {**var, p[1]: v}), build_api(p[2], py, var))
    if k == 'fold':
        return hl.fold(lambda a, v: build_api(p[5], py, {**var, p[1]: a, p[2]: v}), build_api(p[4], py, var),
                       build_api(p[3], py, var))
    raise ValueError(f'unknown program node {k}')


# ---- IR mode: hail.ir nodes built directly (arbitrary names: shadowing, free variables, shared binders)

def build_ir(p, py):
    k = p[0]
    if k == 'int':
        return ir.I32(p[1])
    if k == 'bool':
        return ir.TrueIR() if p[1] else ir.FalseIR()
    if k == 'bin':
        return ir.ApplyBinaryPrimOp(p[1], build_ir(p[2], py), build_ir(p[3], py))
    if k == 'un':
        return ir.ApplyUnaryPrimOp(p[1], build_ir(p[2], py))
    if k == 'cmp':
        return ir.ApplyComparisonOp(p[1], build_ir(p[2], py), build_ir(p[3], py))
    if k == 'if':
        return ir.If(build_ir(p[1], py), build_ir(p[2], py), build_ir(p[3], py))
    if k == 'share':
        obj = build_ir(p[2], py)
        return build_ir(p[3], {**py, p[1]: obj})
    if k == 'use':
        return py[p[1]]
    if k == 'bind':
        return ir.Let(p[1], build_ir(p[2], py), build_ir(p[3], py))
    if k == 'var':
        return ir.Ref(p[1], mk_type(p[2]))
    if k == 'struct':
        return ir.MakeStruct([(f, build_ir(q, py)) for f, q in p[1]])
    if k == 'field':
        return ir.GetField(build_ir(p[2], py), p[1])
    if k == 'array':
        return ir.MakeArray([build_ir(q, py) for q in p[1]], None)
    if k == 'len':
        return ir.ArrayLen(ir.CastToArray(build_ir(p[1], py)))
    if k == 'idx':
        return ir.ArrayRef(build_ir(p[1], py), build_ir(p[2], py))
    if k == 'map':
        return ir.ToArray(ir.StreamMap(ir.ToStream(build_ir(p[2], py)), p[1], build_ir(p[3], py)))
    if k == 'filter':
        return ir.ToArray(ir.StreamFilter(ir.ToStream(build_ir(p[2], py)), p[1], build_ir(p[3], py)))
    if k == 'fold':
        return ir.StreamFold(ir.ToStream(build_ir(p[3], py)), build_ir(p[4], py), p[1], p[2], build_ir(p[5], py))
    # ---- aggregation / scan contexts (mode 'agg'; `scan` = is_scan flag)
    if k == 'aggop':
        cls = ir.ApplyScanOp if p[1] else ir.ApplyAggOp
        return cls(p[2], [build_ir(q, py) for q in p[3]], [build_ir(q, py) for q in p[4]])
    if k == 'aggfilter':
        return ir.AggFilter(build_ir(p[2], py), build_ir(p[3], py), bool(p[1]))
    if k == 'agggroupby':
        return ir.AggGroupBy(build_ir(p[2], py), build_ir(p[3], py), bool(p[1]))
    if k == 'aggexplode':
        return ir.AggExplode(ir.ToStream(build_ir(p[3], py)), p[2], build_ir(p[4], py), bool(p[1]))
    if k == 'aggarrayper':
        return ir.AggArrayPerElement(build_ir(p[4], py), p[2], p[3], build_ir(p[5], py), bool(p[1]))
    if k == 'agglet':
        return ir.AggLet(p[2], build_ir(p[3], py), build_ir(p[4], py), bool(p[1]))
    if k == 'cast64':
        return ir.Cast(build_ir(p[1], py), hl.tint64)
    if k == 'tuple':
        return ir.MakeTuple([build_ir(q, py) for q in p[1]])
    if k == 'streamagg':
        return ir.StreamAgg(ir.ToStream(build_ir(p[2], py)), p[1], build_ir(p[3], py))
    if k == 'streamaggscan':
        return ir.ToArray(ir.StreamAggScan(ir.ToStream(build_ir(p[2], py)), p[1], build_ir(p[3], py)))
    if k == 'tagg':
        return ir.TableAggregate(ir.TableRange(10, 1), build_ir(p[1], py))
    if k == 'tscan':
        row = ir.Ref('row', hl.tstruct(idx=hl.tint32))
        return ir.TableMapRows(ir.TableRange(10, 1), ir.InsertFields(row, [(f, build_ir(q, py)) for f, q in p[1]], None))
    raise ValueError(f'unknown program node {k}')


# ---- export of the real object graph

class OutsideSubset(Exception):
    pass


def head_of(x):
    c = type(x).__name__
    if c == 'I32':
        return ['I32', int(x.x)]
    if c == 'TrueIR':
        return ['True']
    if c == 'FalseIR':
        return ['False']
    if c == 'ApplyBinaryPrimOp':
        return ['Bin', x.op]
    if c == 'ApplyUnaryPrimOp':
        return ['Un', x.op]
    if c == 'ApplyComparisonOp':
        return ['Cmp', x.op]
    if c == 'If':
        return ['If']
    if c == 'Let':
        return ['Let', x.name]
    if c == 'Ref':
        return ['Ref', x.name]
    if c == 'MakeStruct':
        return ['MakeStruct', [f for f, _ in x.fields]]
    if c == 'GetField':
        return ['GetField', x.name]
    if c in ('MakeArray', 'ArrayLen', 'CastToArray', 'ToArray', 'ToStream'):
        return [c]
    if c in ('StreamMap', 'StreamFilter'):
        return [c, x.name]
    if c == 'StreamFold':
        return ['StreamFold', x.accum_name, x.value_name]
    if c == 'ArrayRef':
        return ['Idx', False]
    if c == 'Apply' and x.function == 'indexArray' and len(x.children) == 2 and not x.type_args:
        return ['Idx', True]
    raise OutsideSubset(c)


def export(root):
    ids = {}
    nodes = {}
    keep = []

    def go(x):
        if id(x) in ids:
            return ids[id(x)]
        n = len(ids) + 1
        ids[id(x)] = n
        keep.append(x)
        h = head_of(x)
        for name in ([h[1]] if h[0] in ('Let', 'Ref', 'StreamMap', 'StreamFilter') else h[1:] if h[0] == 'StreamFold' else []):
            if name.startswith('__cse_'):
                raise OutsideSubset('input uses a __cse_ name')
        cs = [go(c) for c in x.children]
        nodes[str(n)] = {'h': h, 'c': cs, 'strm': bool(x.is_stream), 'eff': bool(x.is_effectful()),
                         'fv': sorted(x.free_vars), 'agg': sorted(x.free_agg_vars) + sorted(x.free_scan_vars),
                         'meta': [[bool(x.new_block(i)), sorted(x.bindings(i, 0).keys()),
                                   bool(x.uses_agg_context(i) or x.uses_scan_context(i)),
                                   sorted(list(x.agg_bindings(i, 0).keys()) + list(x.scan_bindings(i, 0).keys()))]
                                  for i in range(len(x.children))]}
        return n

    r = go(root)
    return {'root': r, 'nodes': nodes}


def run_agg_case(c):
    """mode 'agg': aggregation / scan programs (TableAggregate / TableMapRows roots).  Outside the Coq model: only the plain
    rendering (= the inlined IR) and the CSE rendering of the SAME object graph are returned."""
    out = {'agg': True}
    try:
        root = build_ir(c['prog'], {})
        out['plain'] = str(root)
        n_obj, n_tree = set(), [0]

        def count(x):
            n_tree[0] += 1
            n_obj.add(id(x))
            for ch in x.children:
                count(ch)
        count(root)
        out['objects'], out['tree_size'] = len(n_obj), n_tree[0]
    except Exception as ex:  # noqa: BLE001  building failed: generator/harness problem, reported as such
        return {'agg': True, 'build_exc': f'{type(ex).__name__}: {ex}', 'tb': traceback.format_exc()[-1500:]}
    try:
        out['cse'] = CSERenderer()(root)
    except BaseException as ex:  # noqa: BLE001
        tb = traceback.extract_tb(ex.__traceback__)
        last = tb[-1]
        out['cse_exc'] = {'type': type(ex).__name__, 'msg': str(ex)[:200], 'where': f'{last.name}:{last.line}'}
    return out


def run_case(c):
    if c['mode'] == 'agg':
        return run_agg_case(c)
    out = {}
    try:
        if c['mode'] == 'api':
            e = build_api(c['prog'], {}, {})
            root = e._ir
            out['dtype'] = str(e.dtype)
        else:
            root = build_ir(c['prog'], {})
        out['irtyp'] = str(root.typ)
        out['dag'] = export(root)
    except OutsideSubset as ex:
        return {'outside': str(ex)}
    except Exception as ex:  # noqa: BLE001  building failed: generator/harness problem, reported as such
        return {'build_exc': f'{type(ex).__name__}: {ex}', 'tb': traceback.format_exc()[-1500:]}
    try:
        out['plain'] = str(root)
    except Exception as ex:  # noqa: BLE001
        out['plain_exc'] = f'{type(ex).__name__}: {ex}'
    try:
        out['cse'] = CSERenderer()(root)
    except BaseException as ex:  # noqa: BLE001   (AssertionError included: it is data for the oracle)
        tb = traceback.extract_tb(ex.__traceback__)
        last = tb[-1]
        out['cse_exc'] = {'type': type(ex).__name__, 'msg': str(ex)[:200], 'where': f'{last.name}:{last.line}'}
    return out


def main():
    req = json.load(sys.stdin)
    sys.setrecursionlimit(20000)
    json.dump({'results': [run_case(c) for c in req['cases']]}, sys.stdout)


main()
