"""Run the real PoolScheduler._compute_fair_share on given (running, ready) user lists and free-core amounts.

stdin : {"cases": [[[ [running, ready], ... ], free], ...], "mode": "import"|"ast"}
stdout: {"results": [ [alloc_0, alloc_1, ...] | "<ExceptionName>" , ...], "loaded_from": ...}
The method is the repository's own code: either the class imported through the loader, or (fallback, when the
module no longer imports) the method's source extracted by AST and compiled in a namespace with the real
sortedcontainers.  The database is replaced by an async generator of rows shaped like the SELECT's result.
"""
import asyncio
import json
import signal
import sys

import hailload
hailload.install()


def load(mode):
    if mode == 'import':
        from batch.driver.instance_collection import pool  # noqa: E402
        return pool.PoolScheduler._compute_fair_share, 'import batch.driver.instance_collection.pool'
    import sortedcontainers
    from typing import Dict
    src, _ = hailload.load_function_source('batch/batch/driver/instance_collection/pool.py', 'PoolScheduler._compute_fair_share')
    import textwrap
    ns = {'sortedcontainers': sortedcontainers, 'Dict': Dict}
    exec(compile(textwrap.dedent(src), 'pool.py::_compute_fair_share', 'exec'), ns)
    return ns['_compute_fair_share'], 'ast-extracted'


class FakeDB:
    def __init__(self, rows):
        self.rows = rows

    def execute_and_fetchall(self, sql, args=None, query_name=None):
        rows = self.rows

        async def gen():
            for r in rows:
                yield dict(r)
        return gen()

    select_and_fetchall = execute_and_fetchall


class FakePool:
    name = 'verif-pool'


class Sched:
    pass


class Timeout(Exception):
    pass


def _alarm(signum, frame):
    raise Timeout()


def main():
    req = json.load(sys.stdin)
    try:
        fn, how = load(req.get('mode', 'import'))
    except Exception as e:  # noqa
        if req.get('mode', 'import') == 'import':
            fn, how = load('ast')
            how += f' (import failed: {type(e).__name__}: {e})'
        else:
            raise
    signal.signal(signal.SIGALRM, _alarm)
    out = []
    loop = asyncio.new_event_loop()
    for users, free in req['cases']:
        s = Sched()
        s.db = FakeDB([{'user': f'u{i:04d}', 'n_ready_jobs': 1 if rd else 0, 'ready_cores_mcpu': rd,
                        'n_running_jobs': 1 if rn else 0, 'running_cores_mcpu': rn} for i, (rn, rd) in enumerate(users)])
        s.pool = FakePool()
        signal.alarm(20)
        try:
            r = loop.run_until_complete(fn(s, free))
            out.append([r[f'u{i:04d}']['allocated_cores_mcpu'] for i in range(len(users))])
        except Timeout:
            out.append('Timeout')
        except Exception as e:  # noqa
            out.append(type(e).__name__)
        finally:
            signal.alarm(0)
    json.dump({'results': out, 'loaded_from': how}, sys.stdout)


main()
