"""C29 implementation side.

stdin: {"strings": [[codepoint,...], ...], "domain": "hail.example", "base_path": null|"/ns"}
For every string s (given as code points so that nothing is lost in transport):
  netloc    : urllib.parse.urlparse(s).netloc of THIS interpreter (code points), or "ValueError"
  accepted  : the real auth.auth.validate_next_page_url(s) returned (True) / raised HTTPBadRequest (False) / other exception name
  location  : the Location header the real aiohttp.web.HTTPFound(s) would send (code points) or the exception name
  twin_raw / twin_location : host computed by the Python transcription of the WHATWG URL parser below (the oracle's
              "browser") for the raw string and for the Location header, base URL https://auth.<domain>/oauth2callback
Also returns the list of allowed hosts computed exactly as validate_next_page_url computes it.
"""
import json
import sys
import warnings

warnings.simplefilter('ignore')
import hailload  # noqa: E402

hailload.install()
import gear.cloud_config as cc  # noqa: E402

cc.global_config = {'cloud': 'gcp', 'docker_prefix': 'd', 'docker_root_image': 'u', 'domain': 'hail.example', 'kubernetes_server_url': 'k',
                    'default_namespace': 'default', 'batch_gcp_regions': '["us-central1"]', 'gcp_region': 'us-central1',
                    'gcp_project': 'p', 'gcp_zone': 'z', 'organization_domain': 'example.org'}

from urllib.parse import urlparse  # noqa: E402

from aiohttp import web  # noqa: E402

# ---------------------------------------------------------------------------------------------- WHATWG twin

SPECIAL = {'ftp', 'file', 'http', 'https', 'ws', 'wss'}
FORBIDDEN_HOST = set('\x00\t\n\r #/:<>?@[\\]^|')
FORBIDDEN_DOMAIN = FORBIDDEN_HOST | set(chr(c) for c in range(0, 0x20)) | {'%', '\x7f'}


def _is_alpha(c):
    return ('a' <= c <= 'z') or ('A' <= c <= 'Z')


def _is_schemechar(c):
    return _is_alpha(c) or ('0' <= c <= '9') or c in '+-.'


def _lower(s):
    return ''.join(chr(ord(c) + 32) if 'A' <= c <= 'Z' else c for c in s)


def whatwg_host(s, base_scheme='https'):
    """('host', h) | ('base',) | ('nohost',) | ('fail',) | ('other', why).  Transcription of https://url.spec.whatwg.org/
    #concept-basic-url-parser restricted to what determines the host, for a special base URL with a host."""
    # strip leading and trailing C0 control or space, remove tab / LF / CR
    i, j = 0, len(s)
    while i < j and ord(s[i]) <= 0x20:
        i += 1
    while j > i and ord(s[j - 1]) <= 0x20:
        j -= 1
    u = ''.join(c for c in s[i:j] if c not in '\t\n\r')
    # scheme start / scheme state
    k = 0
    scheme = None
    if u and _is_alpha(u[0]):
        k = 1
        while k < len(u) and _is_schemechar(u[k]):
            k += 1
        if k < len(u) and u[k] == ':':
            scheme = _lower(u[:k])
            rest = u[k + 1:]
    if scheme is None:
        return _relative(u)                            # no scheme state -> relative state (base is special, not file)
    if scheme == 'file':
        return _file(rest)
    if scheme in SPECIAL:
        if scheme == base_scheme:                      # special relative or authority state
            if rest[:2] == '//':
                return _ignore_slashes(rest[2:])
            return _relative(rest)
        if rest[:2] == '//':                           # special authority slashes state
            return _ignore_slashes(rest[2:])
        return _ignore_slashes(rest)
    if rest[:1] == '/':                                # path or authority state
        if rest[1:2] == '/':
            return _authority(rest[2:], False)
        return ('nohost',)
    return ('nohost',)                                 # opaque path


def _relative(r):
    if r[:1] in ('/', '\\'):                           # relative slash state (url is special: it takes the base scheme)
        if r[1:2] in ('/', '\\'):
            return _ignore_slashes(r[2:])
        return ('base',)
    return ('base',)


def _ignore_slashes(r):
    k = 0
    while k < len(r) and r[k] in '/\\':
        k += 1
    return _authority(r[k:], True)


def _authority(r, special):
    k = 0
    while k < len(r) and not (r[k] in '/?#' or (special and r[k] == '\\')):
        k += 1
    seg = r[:k]
    at = seg.rfind('@')
    if at >= 0:
        hostport = seg[at + 1:]
        if hostport == '':
            return ('fail',)
    else:
        hostport = seg
    # host state: split the port off at the first ':' outside brackets
    inside = False
    host, port = hostport, None
    for idx, c in enumerate(hostport):
        if c == '[':
            inside = True
        elif c == ']':
            inside = False
        elif c == ':' and not inside:
            host, port = hostport[:idx], hostport[idx + 1:]
            break
    if host == '':
        if special or port is not None or at >= 0:
            return ('fail',)
        return ('host', '')
    if port is not None:
        if any(not ('0' <= c <= '9') for c in port):
            return ('fail',)
        if port != '' and int(port) > 65535:
            return ('fail',)
    return _host_parse(host, special)


def _host_parse(h, special):
    if h[:1] == '[':
        return ('other', 'ipv6')
    if not special:                                    # opaque host
        if any(c in FORBIDDEN_HOST for c in h):
            return ('fail',)
        if any(ord(c) > 0x7e or ord(c) <= 0x20 or c == '%' for c in h):
            return ('other', 'opaque-encoding')
        return ('host', h)
    if any(ord(c) > 0x7f for c in h) or '%' in h:
        return ('other', 'idna-or-percent')
    low = _lower(h)
    if any(c in FORBIDDEN_DOMAIN for c in low):
        return ('fail',)
    labels = low.split('.')
    last = labels[-1] if labels[-1] != '' or len(labels) == 1 else labels[-2]
    if last != '' and (all('0' <= c <= '9' for c in last) or (last[:2] in ('0x', '0X'))):
        return ('other', 'ipv4')
    if any(lab[:4] == 'xn--' for lab in labels):
        return ('other', 'punycode')
    return ('host', low)


def _file(r):
    if r[:1] in ('/', '\\') and r[1:2] in ('/', '\\'):
        k = 2
        while k < len(r) and r[k] not in '/\\?#':
            k += 1
        seg = r[2:k]
        if len(seg) == 2 and _is_alpha(seg[0]) and seg[1] in ':|':
            return ('nohost',)
        if seg == '':
            return ('host', '')
        res = _host_parse(seg, True)
        if res == ('host', 'localhost'):
            return ('host', '')
        return res
    return ('nohost',)


# ---------------------------------------------------------------------------------------------- the use sites (real handlers)

class Session(dict):
    """stands for aiohttp_session.Session"""


class FlowResult:
    login_id = 'login-1'
    unverified_email = 'u@example.org'
    organization_id = None


class FakeFlow:
    def initiate_flow(self, redirect_uri):
        return {'authorization_url': 'https://accounts.idp.example/authorize', 'state': 'st'}

    def receive_callback(self, request, flow_dict):
        return FlowResult()

    def organization_id(self):
        return None


class FakeDB:
    async def select_and_fetchall(self, sql, args=None, **kw):
        yield {'id': 7, 'state': 'active', 'username': 'alice', 'login_id': 'login-1', 'is_developer': 0}


async def run_handlers(A, s):
    """Drive the four real handlers that consume a next-page URL.  For each: the HTTP outcome, the Location header if a
    redirect was raised, and what ended up in session['next']."""
    import aiohttp_session
    from aiohttp.test_utils import make_mocked_request
    import urllib.parse
    out = {}

    async def fake_create_session(db, user_id, *a, **k):
        return 'sid-1'
    A.create_session = fake_create_session
    A.set_message = lambda *a, **k: None
    for name in ('login', 'signup', 'callback', 'creating_account'):
        session = Session()
        if name == 'callback':
            session.update({'flow': {'state': 'st'}, 'caller': 'login', 'next': s})
        if name == 'creating_account':
            session.update({'pending': True, 'login_id': 'login-1', 'next': s})

        async def get_session(request, _s=session):
            return _s
        aiohttp_session.get_session = get_session
        aiohttp_session.new_session = get_session
        app = {A.AppKeys.FLOW_CLIENT: FakeFlow(), A.AppKeys.DB: FakeDB()}
        path = '/' + name + ('?next=' + urllib.parse.quote(s, safe='') if name in ('login', 'signup') else '')
        try:
            req = make_mocked_request('GET', path, app=app)
            if name in ('login', 'signup') and req.query.get('next') != s:
                out[name] = {'outcome': 'untransportable'}       # the string cannot be carried in a query parameter
                continue
        except Exception as e:  # noqa
            out[name] = {'outcome': 'untransportable:' + type(e).__name__}
            continue
        handler = getattr(A, name)
        try:
            if name == 'creating_account':
                # skip the maybe_authenticated_user layer (needs the auth database); the handler body is what consumes `next`
                f = handler
                while hasattr(f, '__wrapped__'):
                    f = f.__wrapped__
                resp = await f(req, None)
            else:
                resp = await handler(req)
            o = {'outcome': 'ok:%s' % getattr(resp, 'status', '?')}
        except web.HTTPFound as e:
            loc = e.headers.get('Location', '')
            o = {'outcome': 'redirect', 'location': [ord(c) for c in loc], 'twin': list(whatwg_host(loc))}
        except web.HTTPException as e:
            o = {'outcome': 'http:%d' % e.status}
        except Exception as e:  # noqa
            o = {'outcome': 'exc:' + type(e).__name__}
        o['session_next'] = [ord(c) for c in session['next']] if 'next' in session else None
        out[name] = o
    return out


# ---------------------------------------------------------------------------------------------- real code

def main():
    req = json.load(sys.stdin)
    import hailtop.config.deploy_config as dc
    cfg = dc.DeployConfig('external', 'default', req.get('domain', 'hail.example'), req.get('base_path'))
    import auth.auth as A
    A.deploy_config = cfg
    allowed = [urlparse(cfg.external_url(s, '/')).netloc for s in ['batch', 'auth', 'ci', 'monitoring']]
    out = []
    for cps in req['strings']:
        s = ''.join(chr(c) for c in cps)
        try:
            nl = [ord(c) for c in urlparse(s).netloc]
        except ValueError:
            nl = 'ValueError'
        try:
            A.validate_next_page_url(s)
            acc = True
        except web.HTTPBadRequest:
            acc = False
        except Exception as e:  # noqa
            acc = type(e).__name__
        try:
            loc = web.HTTPFound(s).headers['Location']
            loc_cp = [ord(c) for c in loc]
            twin_loc = list(whatwg_host(loc))
        except Exception as e:  # noqa
            loc_cp = type(e).__name__
            twin_loc = None
        out.append({'netloc': nl, 'accepted': acc, 'location': loc_cp, 'twin_raw': list(whatwg_host(s)), 'twin_location': twin_loc})
    handlers = []
    if req.get('handler_strings'):
        import asyncio
        loop = asyncio.new_event_loop()
        asyncio.set_event_loop(loop)
        for cps in req['handler_strings']:
            s = ''.join(chr(c) for c in cps)
            handlers.append(loop.run_until_complete(run_handlers(A, s)))
    json.dump({'results': out, 'allowed': allowed, 'handlers': handlers}, sys.stdout)


if __name__ == '__main__':
    main()
