"""C38 implementation-side runner (executed by /venv/bin/python through ctx.run_impl).

Runs the REAL hail/python/hail/vds/combiner/variant_dataset_combiner.py (whole module, unmodified) and the REAL
`calculate_even_genome_partitioning` (function body extracted by AST from combine.py) from $VERIF_REPO, with the `hail`
package replaced by provenance-tracking fakes: a dataset is the list of inputs it was built from, the file system is a
dict, `combine_variant_datasets` concatenates provenance.  No engine, no JVM, no numpy.

stdin : {"op": "plans", "cases": [{"gvcfs": G, "vdses": [n_samples...], "b": .., "g": .., "names": bool,
                                   "events": ["step" | ["resume", b, g] ...]}]}
        {"op": "partition", "cases": [[[L...25 lengths], size, rg_name] ...]}
stdout: {"results": [...]}   (see run_plan / run_partition)
"""
import ast
import importlib.util
import io
import json
import math
import os
import sys
import types
from math import floor, log

import hailload

REPO = hailload.REPO
COMBINER_REL = 'hail/python/hail/vds/combiner/variant_dataset_combiner.py'
COMBINE_REL = 'hail/python/hail/vds/combiner/combine.py'


# ------------------------------------------------------------------------------------------------
# fakes

class World:
    def __init__(self):
        self.files = {}        # path -> provenance list   (datasets)
        self.fs = {}           # path -> text              (plain files: plans, _SUCCESS markers)
        self.outputs = []      # (path, provenance) of every write to the combiner's output path
        self.output_path = None
        self.log = []


WORLD = World()


class FakeFS:
    def exists(self, path):
        return path in WORLD.fs

    def copy(self, a, b):
        WORLD.fs[b] = WORLD.fs[a]

    def remove(self, path):
        del WORLD.fs[path]

    def open(self, path, mode='r'):
        fs = self

        class _W(io.StringIO):
            def close(self_inner):
                WORLD.fs[path] = self_inner.getvalue()
                super().close()

            def __exit__(self_inner, *a):
                self_inner.close()
                return False
        if 'w' in mode:
            return _W()
        return io.StringIO(WORLD.fs[path])


class FakeBackend:
    fs = FakeFS()


class RG:
    def __init__(self, name, lengths=None):
        self.name = name
        self.lengths = lengths or {}

    def __str__(self):
        return self.name

    def __eq__(self, other):
        return isinstance(other, RG) and other.name == self.name

    def __ne__(self, other):
        return not self.__eq__(other)

    def __hash__(self):
        return hash(self.name)


class tlocus:
    def __init__(self, reference_genome='default'):
        self.reference_genome = reference_genome

    def __eq__(self, o):
        return isinstance(o, tlocus) and o.reference_genome == self.reference_genome

    def __hash__(self):
        return 1


class Locus:
    def __init__(self, contig, position, reference_genome='default'):
        self.contig, self.position, self.reference_genome = contig, position, reference_genome

    def __eq__(self, o):
        return isinstance(o, Locus) and (o.contig, o.position) == (self.contig, self.position)

    def __hash__(self):
        return hash((self.contig, self.position))


class Struct:
    def __init__(self, **kw):
        self.fields = kw
        for k, v in kw.items():
            setattr(self, k, v)

    def annotate(self, **kw):
        d = dict(self.fields)
        d.update(kw)
        return Struct(**d)

    def __eq__(self, o):
        return isinstance(o, Struct) and o.fields == self.fields

    def __hash__(self):
        return 2


class Interval:
    def __init__(self, start, end, includes_start=True, includes_end=False, point_type=None):
        self.start, self.end, self.includes_start, self.includes_end = start, end, includes_start, includes_end
        if point_type is None and isinstance(start, Locus):
            point_type = tlocus(start.reference_genome)
        self.point_type = point_type

    def __eq__(self, o):
        return isinstance(o, Interval) and (o.start, o.end, o.includes_start, o.includes_end) == \
            (self.start, self.end, self.includes_start, self.includes_end)

    def __hash__(self):
        return 3

    def __str__(self):
        return f'{"[" if self.includes_start else "("}{self.start.contig}:{self.start.position}-{self.end.position}{"]" if self.includes_end else ")"}'


class tinterval:
    def __init__(self, point_type):
        self.point_type = point_type


class tarray:
    def __init__(self, element_type):
        self.element_type = element_type

    def _convert_to_json(self, xs):
        return [[i.start.contig, i.start.position, i.end.position, i.includes_start, i.includes_end] for i in xs]

    def _convert_from_json(self, js):
        rg = self.element_type.point_type.reference_genome
        return [Interval(Locus(c, s, rg), Locus(c, e, rg), a, b) for c, s, e, a, b in js]


class tstruct:
    def __init__(self, **kw):
        self.fields = kw


class HailType:
    pass


class tmatrix:
    def __init__(self, tag):
        self.tag = tag

    def to_dict(self):
        return {'tmatrix_tag': self.tag}

    @staticmethod
    def _from_json(js):
        return tmatrix(js['tmatrix_tag'])

    def __eq__(self, o):
        return isinstance(o, tmatrix) and o.tag == self.tag

    def __hash__(self):
        return 4

    def __str__(self):
        return f'tmatrix<{self.tag}>'


class FatalError(Exception):
    pass


class Lit:
    """hl.literal / array expression: carries the Python value."""

    def __init__(self, value):
        self.value = value

    def map(self, f):
        return Lit([f(x) for x in self.value])

    def __getitem__(self, idx):
        return Lit(('indexed', self.value))


class Header:
    def __init__(self, src):
        self.src = src

    @property
    def sampleIDs(self):
        return Lit(('sampleIDs', self.src))


class RangeTable:
    def __init__(self, n, n_partitions=None):
        self.n = n
        self.idx = ('idx',)
        self.sample_id = None

    def annotate(self, **kw):
        t = RangeTable(self.n)
        for k, v in kw.items():
            setattr(t, k, v)
        return t

    def aggregate(self, agg):
        # agg = ('collect', Lit(('indexed', ('sampleIDs', Header(Lit(('indexed', vcfs)))))))
        kind, expr = agg
        assert kind == 'collect'
        v = expr.value
        assert v[0] == 'indexed' and v[1][0] == 'sampleIDs', v
        src = v[1][1]
        assert isinstance(src, Lit) and src.value[0] == 'indexed'
        vcfs = src.value[1]
        assert len(vcfs) == self.n
        return [sample_of(p) for p in vcfs]


def sample_of(path):
    return 's' + path[1:]


class ZipJoin:
    def __init__(self, contexts):
        self.paths = [p for _, p in contexts.value]
        assert [i for i, _ in contexts.value] == list(range(len(self.paths)))


class FakeTable:
    def __init__(self, prov):
        self.prov = prov
        self.globals = []

    def _unlocalize_entries(self, *a, **k):
        return self

    def _key_rows_by_assert_sorted(self, *a, **k):
        return self

    @staticmethod
    def _generate(contexts, partitions, rowfn, globals=None):
        iv = Struct(contig='c', start=1, end=2)
        zj = rowfn(iv, globals)
        assert isinstance(zj, ZipJoin)
        cols = globals.fields['g'].value
        ids = [list(c.fields.values())[0][0].fields['s'] for c in cols]
        if len(ids) != len(zj.paths):
            prov = [('MISALIGNED', p) for p in zj.paths]
        else:
            prov = list(zip(zj.paths, ids))
        return FakeTable(prov)


class VariantDataset:
    ref_block_max_length_field = 'ref_block_max_length'

    def __init__(self, reference_data, variant_data):
        assert reference_data.prov == variant_data.prov, 'reference and variant halves built from different inputs'
        self.reference_data, self.variant_data = reference_data, variant_data
        self.prov = list(reference_data.prov)

    @staticmethod
    def _reference_path(p):
        return os.path.join(p, 'reference_data')

    @staticmethod
    def _variants_path(p):
        return os.path.join(p, 'variant_data')

    def write(self, path, **kw):
        write_dataset(path, self.prov)


def write_dataset(path, prov):
    WORLD.files[path] = list(prov)
    if path == WORLD.output_path:
        WORLD.outputs.append((path, list(prov)))
        WORLD.fs[os.path.join(VariantDataset._reference_path(path), '_SUCCESS')] = ''
        WORLD.fs[os.path.join(VariantDataset._variants_path(path), '_SUCCESS')] = ''


def read_vds(path, **kw):
    t = FakeTable(WORLD.files[path])       # KeyError = reading a dataset nobody wrote
    return VariantDataset(t, FakeTable(WORLD.files[path]))


def write_variant_datasets(vdss, paths, **kw):
    assert len(vdss) == len(paths)
    for v, p in zip(vdss, paths):
        write_dataset(p, v.prov)


def combine_variant_datasets(vdss):
    prov = [x for v in vdss for x in v.prov]
    return VariantDataset(FakeTable(prov), FakeTable(prov))


def build_fake_hail():
    hl = types.ModuleType('hail')
    hl.__path__ = []
    hl.__pip_version__ = '0.2.999'
    hl.tlocus, hl.tarray, hl.tinterval, hl.tstruct = tlocus, tarray, tinterval, tstruct
    hl.Struct, hl.Interval, hl.Locus = Struct, Interval, Locus
    hl.struct = lambda **kw: Struct(**kw)
    hl.current_backend = lambda: FakeBackend
    flags = {}
    hl._get_flags = lambda *names: {n: flags.get(n) for n in names}
    hl._set_flags = lambda **kw: flags.update(kw)
    hl.eval = lambda x: x
    hl.get_vcf_header_info = lambda src: Header(src)
    hl.literal = lambda v, *a: Lit(v)
    hl.enumerate = lambda lit: Lit(list(enumerate(lit.value)))
    hl.rbind = lambda x, f: f(x)
    hl._zip_join_producers = lambda contexts, stream_f, key, join_f: ZipJoin(contexts)
    hl.import_gvcf_interval = lambda *a, **k: ('import', a)
    hl.Table = FakeTable
    hl.get_reference = lambda name: RG(str(name))
    hl.tcall = 'tcall'
    hl.is_defined = lambda x: x

    agg = types.ModuleType('hail.agg')
    agg.collect = lambda e: ('collect', e)
    hl.agg = agg

    utils = types.ModuleType('hail.utils')
    utils.__path__ = []
    utils.FatalError, utils.Interval = FatalError, Interval
    utils.range_table = lambda n, n_partitions=None: RangeTable(n, n_partitions)
    hl.utils = utils
    java = types.ModuleType('hail.utils.java')
    java.info = lambda msg: WORLD.log.append(('info', msg))
    java.warning = lambda msg: WORLD.log.append(('warning', msg))
    utils.java = java

    expr = types.ModuleType('hail.expr')
    expr.HailType, expr.tmatrix = HailType, tmatrix
    hl.expr = expr

    genetics = types.ModuleType('hail.genetics')
    genetics.__path__ = []
    rgm = types.ModuleType('hail.genetics.reference_genome')
    rgm.ReferenceGenome = RG
    genetics.reference_genome = rgm

    vds = types.ModuleType('hail.vds')
    vds.__path__ = []
    vds.read_vds = read_vds
    vds.write_variant_datasets = write_variant_datasets
    vds.store_ref_block_max_length = lambda path: None
    hl.vds = vds
    vdm = types.ModuleType('hail.vds.variant_dataset')
    vdm.VariantDataset = VariantDataset
    comb_pkg = types.ModuleType('hail.vds.combiner')
    comb_pkg.__path__ = []
    cm = types.ModuleType('hail.vds.combiner.combine')
    cm.calculate_even_genome_partitioning = lambda *a, **k: []
    cm.calculate_new_intervals = lambda ht, n, path: (['interval'], None)
    cm.combine = lambda ht: ht
    cm.combine_r = lambda ht, ref_block_max_len_field=None: ht
    cm.combine_variant_datasets = combine_variant_datasets
    cm.defined_entry_fields = lambda *a: set()
    cm.make_reference_stream = lambda *a: ('ref_stream', a)
    cm.make_variant_stream = lambda *a: ('var_stream', a)
    cm.transform_gvcf = lambda *a: None

    for m in (hl, agg, utils, java, expr, genetics, rgm, vds, vdm, comb_pkg, cm):
        sys.modules[m.__name__] = m
    return hl


def load_combiner_module():
    build_fake_hail()
    name = 'hail.vds.combiner.variant_dataset_combiner'
    spec = importlib.util.spec_from_file_location(name, os.path.join(REPO, COMBINER_REL))
    mod = importlib.util.module_from_spec(spec)
    sys.modules[name] = mod
    spec.loader.exec_module(mod)
    return mod


# ------------------------------------------------------------------------------------------------
# plans

SAVE = '/plan/combiner.json'
OUT = '/out/final.vds'


def ident(x, n_gvcfs):
    """provenance element -> input id (gvcf i -> i, input vds j -> G + j, misaligned sample name -> -1)"""
    if isinstance(x, tuple):
        p, s = x
        if p == 'MISALIGNED' or s != sample_of(p):
            return -1
        return int(p[1:])
    return n_gvcfs + int(x[1:])


def observe(comb, n_gvcfs):
    bins = []
    for k in sorted(comb._vdses):
        bins.append([k, [[[ident(x, n_gvcfs) for x in WORLD.files.get(m.path, ['v-999999'])], m.n_samples] for m in comb._vdses[k]]])
    names_ok = True
    if comb._gvcf_sample_names is not None:
        names_ok = list(comb._gvcf_sample_names) == [sample_of(p) for p in comb._gvcfs]
    return {'gvcfs': [int(p[1:]) if names_ok else -1 for p in comb._gvcfs],
            'bins': bins, 'params': [comb._branch_factor, comb._gvcf_batch_size, comb._job_id],
            'outs': [[ident(x, n_gvcfs) for x in prov] for _, prov in WORLD.outputs],
            'finished': bool(comb.finished)}


def run_plan(mod, case):
    global WORLD
    WORLD = World()
    WORLD.output_path = OUT
    G = case['gvcfs']
    vd = case['vdses']
    b, g = case['b'], case['g']
    gv = [f'g{i}' for i in range(G)]
    names = [sample_of(p) for p in gv] if case.get('names', True) else None
    mds = []
    for j, n in enumerate(vd):
        path = f'v{j}'
        WORLD.files[path] = [path]
        mds.append(mod.VDSMetadata(path, n))
    rg = RG('GRCh38')
    ivs = [Interval(Locus('chr1', 1, rg), Locus('chr1', 10, rg), True, True),
           Interval(Locus('chr1', 11, rg), Locus('chr1', 20, rg), True, True)]
    # float bins exactly as this interpreter computes them, for every sample count that can occur
    total = G + sum(vd)
    bs = sorted({b} | {e[1] for e in case['events'] if isinstance(e, list)})
    table = {}
    for bb in bs:
        if bb >= 2:
            table[str(bb)] = [floor(log(n, bb)) for n in range(1, total + 1)]
    res = {'bin_table': table, 'trace': [], 'error': None}
    try:
        comb = mod.VariantDatasetCombiner(
            save_path=SAVE, output_path=OUT, temp_path='/tmp-c', reference_genome=rg,
            dataset_type=mod.CombinerOutType(tmatrix('ref'), tmatrix('var')), gvcf_type=None,
            branch_factor=b, gvcf_batch_size=g, call_fields=['PGT'], vdses=mds, gvcfs=gv,
            gvcf_sample_names=names, gvcf_external_header=('hdr' if names is not None else None),
            gvcf_import_intervals=ivs)
        res['trace'].append(observe(comb, G))
        for e in case['events']:
            if e == 'step':
                comb.step()
            elif e == 'run':
                # the real run(): while not finished: save(); step()   (bounded by the caller's event list instead)
                comb.save()
                comb.step()
            else:
                _, b2, g2 = e
                comb.save()
                comb = mod.VariantDatasetCombiner.load(SAVE)
                # what new_combiner.maybe_load_from_saved_path does after loading an existing plan
                comb._branch_factor = b2
                comb._gvcf_batch_size = g2
            res['trace'].append(observe(comb, G))
    except Exception as ex:  # noqa: BLE001 - the exception is data for the oracle
        import traceback
        res['error'] = f'{type(ex).__name__}: {ex}'
        res['tb'] = traceback.format_exc()[-1500:]
    return res


def run_full(mod, case):
    """The real run() loop (save before every step) with a step bound enforced through a counting step()."""
    global WORLD
    WORLD = World()
    WORLD.output_path = OUT
    G, vd, b, g = case['gvcfs'], case['vdses'], case['b'], case['g']
    gv = [f'g{i}' for i in range(G)]
    names = [sample_of(p) for p in gv] if case.get('names', True) else None
    mds = []
    for j, n in enumerate(vd):
        WORLD.files[f'v{j}'] = [f'v{j}']
        mds.append(mod.VDSMetadata(f'v{j}', n))
    rg = RG('GRCh38')
    bound = case['bound']

    class Bounded(mod.VariantDatasetCombiner):
        __slots__ = ('_n',)

        def step(self):
            self._n = getattr(self, '_n', 0) + 1
            if self._n > bound:
                raise TimeoutError('step bound exceeded')
            return super().step()
    res = {'error': None}
    try:
        comb = Bounded(save_path=SAVE, output_path=OUT, temp_path='/tmp-c', reference_genome=rg,
                       dataset_type=mod.CombinerOutType(tmatrix('ref'), tmatrix('var')), gvcf_type=None,
                       branch_factor=b, gvcf_batch_size=g, call_fields=['PGT'], vdses=mds, gvcfs=gv,
                       gvcf_sample_names=names, gvcf_external_header=('hdr' if names is not None else None),
                       gvcf_import_intervals=[])
        comb.run()
        res['steps'] = getattr(comb, '_n', 0)
        res['final'] = observe(comb, G)
    except Exception as ex:  # noqa: BLE001
        res['error'] = f'{type(ex).__name__}: {ex}'
        res['final'] = None
    return res


# ------------------------------------------------------------------------------------------------
# partitioning

def load_partition_function():
    src, node = hailload.load_function_source(COMBINE_REL, 'calculate_even_genome_partitioning')
    node.decorator_list = []            # @typecheck needs the real hail package; the body is what is run
    m = ast.Module(body=[node], type_ignores=[])
    ast.fix_missing_locations(m)
    hl = types.SimpleNamespace(Interval=Interval, Locus=Locus, utils=types.SimpleNamespace(Interval=Interval))
    from typing import List
    ns = {'hl': hl, 'math': math, 'List': List}
    exec(compile(m, os.path.join(REPO, COMBINE_REL), 'exec'), ns)
    return ns['calculate_even_genome_partitioning']


def contigs_of(name):
    if name == 'GRCh37':
        return [f'{i}' for i in range(1, 23)] + ['X', 'Y', 'MT']
    return [f'chr{i}' for i in range(1, 23)] + ['chrX', 'chrY', 'chrM']


def run_partition(fn, case):
    lengths, size, name = case
    contigs = contigs_of(name)
    rg = RG(name, dict(zip(contigs, lengths)))
    try:
        ivs = fn(rg, size)
    except Exception as ex:  # noqa: BLE001
        return {'error': f'{type(ex).__name__}: {ex}'}
    out = []
    for i in ivs:
        ok = (i.start.contig == i.end.contig and i.includes_start is True and i.includes_end is True
              and i.start.reference_genome is rg and i.end.reference_genome is rg)
        out.append([i.start.contig, i.start.position, i.end.position, bool(ok)])
    return {'error': None, 'intervals': out, 'contigs': contigs}


def main():
    req = json.load(sys.stdin)
    op = req['op']
    if op == 'plans':
        mod = load_combiner_module()
        out = [run_plan(mod, c) for c in req['cases']]
    elif op == 'full':
        mod = load_combiner_module()
        out = [run_full(mod, c) for c in req['cases']]
    elif op == 'partition':
        fn = load_partition_function()
        out = [run_partition(fn, c) for c in req['cases']]
    else:
        raise SystemExit(f'unknown op {op}')
    json.dump({'results': out}, sys.stdout)


main()
