"""C17: build pipelines with the REAL hailtop.batch DSL and run them on the REAL LocalBackend.

No shell is ever started: `backend.sp` (the subprocess module as seen by hailtop/batch/backend.py) is replaced by a fake
whose check_call consults the scripted pass/fail table and whose run() (the final `rm -rf`) only records the call.

Case: {n, explicit: [[j, d]...], resource: [[j, d]...], always: [bool]*n, fails: [bool]*n}
  jobs are created in index order 0..n-1 (creation order); edge [j, d] = job j depends on job d;
  a resource edge makes j's command mention a file produced by d.
  optional 'py': {kinds: ['bash'|'py']*n, ops: [...]}  -> PythonJob pipeline (see build_py): resources reach a PythonJob through the
  arguments of j.call(f, *args, **kwargs) — positionally, as keyword values, nested in lists / tuples / dicts.
Result: {result: ok|failed|cycle|error:<T>, ids, deps (iteration order of j._dependencies), executed, skipped, shell, rm}
"""
import contextlib
import io
import json
import os
import re
import sys
import warnings

import hailload
hailload.install()
import hailtop.batch as hb  # noqa: E402
from hailtop.batch import backend as be  # noqa: E402
from hailtop.batch.exceptions import BatchException  # noqa: E402

REAL_SP = be.sp


class ScriptedFailure(REAL_SP.CalledProcessError):
    pass


class FakeSP:
    CalledProcessError = REAL_SP.CalledProcessError

    def __init__(self):
        self.reset({})

    def reset(self, fails):
        self.fails = fails
        self.executed = []
        self.shell = 0
        self.rm = 0

    def check_call(self, code, shell=False, **kw):
        self.shell += 1
        m = re.search(r'^# (\d+): (n\d+)$', code, flags=re.M)
        if m is None:
            return 0          # not a job block (e.g. input transfers)
        name = m.group(2)
        self.executed.append([int(m.group(1)), int(name[1:])])
        if self.fails.get(name):
            raise ScriptedFailure(1, f'scripted failure of {name}')
        return 0

    def run(self, *a, **k):
        self.rm += 1
        return None

    def __getattr__(self, name):          # anything else of subprocess must not be reached
        raise AssertionError(f'unexpected use of subprocess.{name}')


def build_bash(b, case):
    n = case['n']
    jobs = [b.new_job(name=f'n{i}') for i in range(n)]
    for i, a in enumerate(case['always']):
        if a:
            jobs[i].always_run()
    producers = sorted({d for _, d in case['resource']})
    for d in producers:
        jobs[d].command(f'echo x > {jobs[d].out}')
    # interleave explicit and resource edges in the order given by the case
    for kind, j, d in case.get('edge_order') or ([['e', j, d] for j, d in case['explicit']] + [['r', j, d] for j, d in case['resource']]):
        if kind == 'e':
            jobs[j].depends_on(jobs[d])
        else:
            jobs[j].command(f'cat {jobs[d].out}')
    for j in jobs:
        j.command('true')
    return jobs


def py_f(*args, **kwargs):
    return 0


def py_g(a, b=None, *rest, **kw):
    return [a, b]


def build_py(b, case):
    """PythonJob pipelines (case['py']): jobs are created in index order, the operations come in an order in which every
    resource is defined before it is used; a resource reaches a PythonJob only through the arguments of j.call(...).

    ops: ['produce', j, ident] | ['declare', j] | ['cat', j, REF] | ['dep', j, d] | ['call', j, [ARG...], [[kw, ARG]...], 'f'|'g']
    REF: ['file', j, ident] | ['group', j] | ['groupfile', j, ext] | ['res', k, 'raw'|'str'|'repr'|'json']   (k = index of the k-th call)
    ARG: ['v', const] | ['r', REF] | ['l', [ARG...]] | ['t', [ARG...]] | ['d', [[key, ARG]...]]
    """
    spec = case['py']
    n = case['n']
    jobs = [b.new_python_job(name=f'n{i}') if spec['kinds'][i] == 'py' else b.new_bash_job(name=f'n{i}') for i in range(n)]
    for i, a in enumerate(case['always']):
        if a:
            jobs[i].always_run()
    results = []

    def ref(x):
        if x[0] == 'file':
            return jobs[x[1]][x[2]]
        if x[0] == 'group':
            return jobs[x[1]]['grp']
        if x[0] == 'groupfile':
            return jobs[x[1]]['grp'][x[2]]
        if x[0] == 'res':
            r = results[x[1]]
            return {'raw': lambda: r, 'str': r.as_str, 'repr': r.as_repr, 'json': r.as_json}[x[2]]()
        raise ValueError(x)

    def arg(a):
        k = a[0]
        if k == 'v':
            return a[1]
        if k == 'r':
            return ref(a[1])
        if k == 'l':
            return [arg(x) for x in a[1]]
        if k == 't':
            return tuple(arg(x) for x in a[1])
        if k == 'd':
            return {key: arg(x) for key, x in a[1]}
        raise ValueError(a)

    for op in spec['ops']:
        k = op[0]
        if k == 'produce':
            jobs[op[1]].command(f'echo x > {jobs[op[1]][op[2]]}')
        elif k == 'declare':
            jobs[op[1]].declare_resource_group(grp={'bed': '{root}.bed', 'bim': '{root}.bim'})
            jobs[op[1]].command(f'echo x > {jobs[op[1]]["grp"]["bed"]}')
        elif k == 'cat':
            jobs[op[1]].command(f'cat {ref(op[2])}')
        elif k == 'dep':
            jobs[op[1]].depends_on(jobs[op[2]])
        elif k == 'call':
            fn = py_g if op[4] == 'g' else py_f
            results.append(jobs[op[1]].call(fn, *[arg(a) for a in op[2]], **{key: arg(a) for key, a in op[3]}))
        else:
            raise ValueError(op)
    for j, kind in zip(jobs, spec['kinds']):
        if kind == 'bash':
            j.command('true')
        elif not j._function_calls:
            j.call(py_f)
    return jobs


def run_case(lb, fake, case):
    b = hb.Batch(backend=lb, name='c17')
    if case.get('py'):
        jobs = build_py(b, case)
    else:
        jobs = build_bash(b, case)
    index = {j: i for i, j in enumerate(jobs)}
    uid_index = {j._uid: i for i, j in enumerate(jobs)}
    deps = [[index.get(d, -1) for d in j._dependencies] for j in jobs]
    fake.reset({f'n{i}': bool(f) for i, f in enumerate(case['fails'])})
    out = io.StringIO()
    result = 'ok'
    with contextlib.redirect_stdout(out):
        try:
            b.run(delete_scratch_on_exit=False)
        except BatchException as e:
            result = 'cycle' if 'cycle detected' in str(e) else f'error:BatchException:{e}'
        except ScriptedFailure:
            result = 'failed'
        except Exception as e:  # noqa
            result = f'error:{type(e).__name__}:{str(e)[:200]}'
    skipped = [uid_index[u] for u in re.findall(r'^Job (\S+) was cancelled\. Not running$', out.getvalue(), flags=re.M)]
    return {'result': result, 'ids': [j._job_id for j in jobs], 'deps': deps,
            'executed': fake.executed, 'skipped': skipped, 'shell': fake.shell, 'rm': fake.rm,
            'completed_msg': 'Batch completed successfully!' in out.getvalue()}


def main():
    req = json.load(sys.stdin)
    warnings.simplefilter('ignore')
    fake = FakeSP()
    be.sp = fake
    tmp = os.path.join(os.environ.get('VERIF_WORK', '.'), 'c17-scratch')
    os.makedirs(tmp, exist_ok=True)
    lb = hb.LocalBackend(tmp_dir=tmp)
    res = []
    for case in req['cases']:
        res.append(run_case(lb, fake, case))
    json.dump({'results': res}, sys.stdout)


main()
