"""C17: build pipelines with the REAL hailtop.batch DSL and run them on the REAL LocalBackend.

No shell is ever started: `backend.sp` (the subprocess module as seen by hailtop/batch/backend.py) is replaced by a fake
whose check_call consults the scripted pass/fail table and whose run() (the final `rm -rf`) only records the call.

Case: {n, explicit: [[j, d]...], resource: [[j, d]...], always: [bool]*n, fails: [bool]*n}
  jobs are created in index order 0..n-1 (creation order); edge [j, d] = job j depends on job d;
  a resource edge makes j's command mention a file produced by d.
Result: {result: ok|failed|cycle|error:<T>, ids, deps (iteration order of j._dependencies), executed, skipped, shell, rm}
"""
import contextlib
import io
import json
import os
import re
import sys
import warnings

import hailload
hailload.install()
import hailtop.batch as hb  # noqa: E402
from hailtop.batch import backend as be  # noqa: E402
from hailtop.batch.exceptions import BatchException  # noqa: E402

REAL_SP = be.sp


class ScriptedFailure(REAL_SP.CalledProcessError):
    pass


class FakeSP:
    CalledProcessError = REAL_SP.CalledProcessError

    def __init__(self):
        self.reset({})

    def reset(self, fails):
        self.fails = fails
        self.executed = []
        self.shell = 0
        self.rm = 0

    def check_call(self, code, shell=False, **kw):
        self.shell += 1
        m = re.search(r'^# (\d+): (n\d+)$', code, flags=re.M)
        if m is None:
            return 0          # not a job block (e.g. input transfers)
        name = m.group(2)
        self.executed.append([int(m.group(1)), int(name[1:])])
        if self.fails.get(name):
            raise ScriptedFailure(1, f'scripted failure of {name}')
        return 0

    def run(self, *a, **k):
        self.rm += 1
        return None

    def __getattr__(self, name):          # anything else of subprocess must not be reached
        raise AssertionError(f'unexpected use of subprocess.{name}')


def run_case(lb, fake, case):
    n = case['n']
    b = hb.Batch(backend=lb, name='c17')
    jobs = [b.new_job(name=f'n{i}') for i in range(n)]
    for i, a in enumerate(case['always']):
        if a:
            jobs[i].always_run()
    producers = sorted({d for _, d in case['resource']})
    for d in producers:
        jobs[d].command(f'echo x > {jobs[d].out}')
    # interleave explicit and resource edges in the order given by the case
    for kind, j, d in case.get('edge_order') or ([['e', j, d] for j, d in case['explicit']] + [['r', j, d] for j, d in case['resource']]):
        if kind == 'e':
            jobs[j].depends_on(jobs[d])
        else:
            jobs[j].command(f'cat {jobs[d].out}')
    for j in jobs:
        j.command('true')
    index = {j: i for i, j in enumerate(jobs)}
    uid_index = {j._uid: i for i, j in enumerate(jobs)}
    deps = [[index.get(d, -1) for d in j._dependencies] for j in jobs]
    fake.reset({f'n{i}': bool(f) for i, f in enumerate(case['fails'])})
    out = io.StringIO()
    result = 'ok'
    with contextlib.redirect_stdout(out):
        try:
            b.run(delete_scratch_on_exit=False)
        except BatchException as e:
            result = 'cycle' if 'cycle detected' in str(e) else f'error:BatchException:{e}'
        except ScriptedFailure:
            result = 'failed'
        except Exception as e:  # noqa
            result = f'error:{type(e).__name__}'
    skipped = [uid_index[u] for u in re.findall(r'^Job (\S+) was cancelled\. Not running$', out.getvalue(), flags=re.M)]
    return {'result': result, 'ids': [j._job_id for j in jobs], 'deps': deps,
            'executed': fake.executed, 'skipped': skipped, 'shell': fake.shell, 'rm': fake.rm,
            'completed_msg': 'Batch completed successfully!' in out.getvalue()}


def main():
    req = json.load(sys.stdin)
    warnings.simplefilter('ignore')
    fake = FakeSP()
    be.sp = fake
    tmp = os.path.join(os.environ.get('VERIF_WORK', '.'), 'c17-scratch')
    os.makedirs(tmp, exist_ok=True)
    lb = hb.LocalBackend(tmp_dir=tmp)
    res = []
    for case in req['cases']:
        res.append(run_case(lb, fake, case))
    json.dump({'results': res}, sys.stdout)


main()
