"""Realistic (driver-in-the-loop) histories of the batch service on minisql, with the family oracles evaluated in-process.

stdin : {"seed": n, "n": k, "props": [...]|null}
stdout: {"histories": [[op,...]], "results": [[{"result","obs"},...]], "failures": [{"prop","key","index","detail","history"}], "stats": {...}}

Client ops come from gen.generate; every driver / worker message is derived from the actual state (scheduler and canceller
picks, existing attempts) by oracles.Driver, with duplicates, late re-deliveries, preemptions and deactivation races.
"""
import asyncio
import json
import os
import random
import sys
import time

import hailload
hailload.install()
sys.path.insert(0, os.path.join(os.path.dirname(os.path.dirname(os.path.abspath(__file__))), 'batchdb'))
import gen  # noqa: E402
import oracles  # noqa: E402


async def main():
    req = json.load(sys.stdin)
    seed, n = int(req['seed']), int(req['n'])
    props = set(req['props']) if req.get('props') else None
    live = oracles._live(None)
    hs = gen.generate(seed, n)
    out_h, out_r, fails = [], [], []
    t0 = time.time()
    nops = 0
    for i, client_ops in enumerate(hs):
        rng = random.Random(f'driven/{seed}/{i}')
        d, n_before = await oracles.driven_history(live, seed + i, client_ops, rng)
        ops, ents = d.ops, d.ents
        nops += len(ops)
        fs, hist, last = oracles.check_history(ops, ents, None)
        if last is not None:
            fs = fs + oracles.c39_liveness(last, d.problems, hist)
        if req.get('noninterference', True):
            fs = fs + await oracles.c41_noninterference(live, ops[:n_before], ents[:n_before], seed + i)
        for f in fs:
            if props is None or f.prop in props:
                fails.append({'prop': f.prop, 'key': f.key, 'index': f.index, 'detail': oracles._jsonable(f.detail), 'history': len(out_h)})
        out_h.append(ops)
        out_r.append(ents)
    json.dump({'histories': out_h, 'results': out_r, 'failures': fails,
               'stats': {'histories': len(out_h), 'ops': nops, 'seconds': round(time.time() - t0, 1), 'histogram': dict(live.stats)}},
              sys.stdout, default=str)


asyncio.run(main())
