"""C35/C36 — neutral formats shared by the plug-ins (harness/props/C35.py, C36.py) and the implementation-side scripts.
Pure Python, imports nothing from hail.

Neutral DAG (what the REAL object graph of an expression looks like, exported by c35_cse.py):
    {'root': id, 'nodes': {id: {'h': head, 'c': [child ids], 'strm': bool}}}
  head = [class name, params...]:
    ['I32', z] ['True'] ['False'] ['Bin', op] ['Un', op] ['Cmp', op] ['If'] ['Let', x] ['Ref', x]
    ['MakeStruct', [f...]] ['GetField', f] ['MakeArray'] ['ArrayLen'] ['CastToArray'] ['ToArray'] ['ToStream']
    ['StreamMap', x] ['StreamFilter', x] ['StreamFold', acc, x]
    ['Idx', neg]  (neg=False: ArrayRef, fails unless 0 <= i < n; neg=True: Apply indexArray, fails unless -n <= i < n)
  Bin ops: + - * // %   (// and % FAIL on a zero divisor)
Neutral term (rendered IR read back, or model output): [head, [children terms]]  (no ids).
"""
import re

BIN_OPS = ['+', '-', '*', '//', '%']
UN_OPS = ['-', '!']
CMP_OPS = ['<', '<=', '>', '>=', '==', '!=']

ARITY = {'I32': 0, 'True': 0, 'False': 0, 'Bin': 2, 'Un': 1, 'Cmp': 2, 'If': 3, 'Let': 2, 'Ref': 0, 'GetField': 1,
         'ArrayLen': 1, 'CastToArray': 1, 'ToArray': 1, 'ToStream': 1, 'StreamMap': 2, 'StreamFilter': 2, 'StreamFold': 3, 'Idx': 2}


class ReadError(Exception):
    pass


# ------------------------------------------------------------------------------------------------
# reader for the IR text produced by hail.ir.renderer (the subset above)

_TOK = re.compile(r'\s*(\(|\)|`(?:[^`\\]|\\.)*`|"(?:[^"\\]|\\.)*"|[^\s()]+)')


def tokenize(s):
    toks = []
    pos = 0
    while pos < len(s):
        m = _TOK.match(s, pos)
        if not m:
            if s[pos:].strip() == '':
                break
            raise ReadError(f'cannot tokenize at {s[pos:pos + 30]!r}')
        toks.append(m.group(1))
        pos = m.end()
    return toks


def _ident(tok):
    if tok.startswith('`') and tok.endswith('`') and len(tok) >= 2:
        return re.sub(r'\\(.)', r'\1', tok[1:-1])
    return tok


_FLAG = {'True': True, 'False': False}


def parse_ir(text, agg=False):
    """IR text -> neutral term. Fails (ReadError) on anything outside the subset: the check then treats the output as broken.
    agg=True additionally reads the aggregation / scan node classes (heads: ['AggLet', x, is_scan] ['AggFilter', is_scan]
    ['AggGroupBy', is_scan] ['AggExplode', x, is_scan] ['AggArrayPerElement', elt, idx, is_scan] ['ApplyAggOp'|'ApplyScanOp', op,
    n_init] (children = init args + seq args) ['TableAggregate'] ['TableMapRows'] ['TableRange', n, p] ['InsertFields', [f..]]
    (children = old struct + field values) ['MakeTuple', n] ['Cast', type]); they are outside the Coq model."""
    toks = tokenize(text)
    pos = 0

    def peek():
        return toks[pos] if pos < len(toks) else None

    def take(expected=None):
        nonlocal pos
        if pos >= len(toks):
            raise ReadError('unexpected end of IR text')
        t = toks[pos]
        if expected is not None and t != expected:
            raise ReadError(f'expected {expected!r}, got {t!r} at token {pos}')
        pos += 1
        return t

    def children(n):
        return [node() for _ in range(n)]

    def rest():
        out = []
        while peek() != ')':
            out.append(node())
        return out

    def flag():
        t = take()
        if t not in _FLAG:
            raise ReadError(f'expected True/False, got {t!r}')
        return _FLAG[t]

    def node():
        take('(')
        name = take()
        if name == 'I32':
            h, cs = ['I32', int(take())], []
        elif name in ('True', 'False'):
            h, cs = [name], []
        elif name == 'ApplyBinaryPrimOp':
            h, cs = ['Bin', _ident(take())], children(2)
        elif name == 'ApplyUnaryPrimOp':
            h, cs = ['Un', _ident(take())], children(1)
        elif name == 'ApplyComparisonOp':
            h, cs = ['Cmp', _ident(take())], children(2)
        elif name == 'If':
            h, cs = ['If'], children(3)
        elif name == 'Let':
            take('eval')
            h, cs = ['Let', _ident(take())], children(2)
        elif name == 'Ref':
            h, cs = ['Ref', _ident(take())], []
        elif name == 'MakeStruct':
            fs, cs = [], []
            while peek() == '(':
                take('(')
                fs.append(_ident(take()))
                cs.append(node())
                take(')')
            h = ['MakeStruct', fs]
        elif name == 'GetField':
            h, cs = ['GetField', _ident(take())], children(1)
        elif name == 'MakeArray':
            take()  # element type annotation (or None): determined by the node, irrelevant to CSE
            h, cs = ['MakeArray'], rest()
        elif name in ('ArrayLen', 'CastToArray', 'ToArray'):
            h, cs = [name], children(1)
        elif name == 'ToStream':
            take()  # requires_memory_management_per_element flag
            h, cs = ['ToStream'], children(1)
        elif name in ('StreamMap', 'StreamFilter'):
            h, cs = [name, _ident(take())], children(2)
        elif name == 'StreamFold':
            a = _ident(take())
            h, cs = ['StreamFold', a, _ident(take())], children(3)
        elif name == 'ArrayRef':
            take()  # error id
            h, cs = ['Idx', False], children(2)
        elif name == 'Apply':
            take()  # error id
            fn = _ident(take())
            if fn != 'indexArray':
                raise ReadError(f'function {fn!r} is outside the modelled subset')
            take('(')
            take(')')   # no type arguments
            take()      # return type (one token: no spaces in the parsable form of the modelled types)
            h, cs = ['Idx', True], children(2)
        elif agg and name == 'AggLet':
            x = _ident(take())
            h, cs = ['AggLet', x, flag()], children(2)
        elif agg and name in ('AggFilter', 'AggGroupBy'):
            h, cs = [name, flag()], children(2)
        elif agg and name == 'AggExplode':
            x = _ident(take())
            h, cs = ['AggExplode', x, flag()], children(2)
        elif agg and name == 'AggArrayPerElement':
            e = _ident(take())
            i = _ident(take())
            h = ['AggArrayPerElement', e, i, flag()]
            take()      # knownLength flag (no child for it in the python IR)
            cs = children(2)
        elif agg and name in ('ApplyAggOp', 'ApplyScanOp'):
            op = take()
            take('(')
            init = rest()
            take(')')
            take('(')
            seq = rest()
            take(')')
            h, cs = [name, op, len(init)], init + seq
        elif agg and name in ('StreamAgg', 'StreamAggScan'):
            h, cs = [name, _ident(take())], children(2)
        elif agg and name in ('TableAggregate', 'TableMapRows'):
            h, cs = [name], children(2)
        elif agg and name == 'TableRange':
            n = int(take())
            h, cs = ['TableRange', n, int(take())], []
        elif agg and name == 'InsertFields':
            old = node()
            if take() == '(':       # field order: None or a parenthesised list of names
                while take() != ')':
                    pass
            fs, cs = [], [old]
            while peek() == '(':
                take('(')
                fs.append(_ident(take()))
                cs.append(node())
                take(')')
            h = ['InsertFields', fs]
        elif agg and name == 'MakeTuple':
            take('(')
            k = 0
            while take() != ')':
                k += 1
            cs = rest()
            if len(cs) != k:
                raise ReadError('MakeTuple: index list and children differ in length')
            h = ['MakeTuple', k]
        elif agg and name == 'Cast':
            h, cs = ['Cast', take()], children(1)
        else:
            raise ReadError(f'IR node {name!r} is outside the modelled subset')
        take(')')
        return [h, cs]

    t = node()
    if pos != len(toks):
        raise ReadError(f'trailing tokens after IR: {toks[pos:pos + 5]}')
    return t


# ------------------------------------------------------------------------------------------------
# DAG utilities

def inline(dag, nid=None):
    """Tree unfolding of the DAG (the 'fully inlined IR')."""
    nid = dag['root'] if nid is None else nid
    n = dag['nodes'][str(nid)] if str(nid) in dag['nodes'] else dag['nodes'][nid]
    return [n['h'], [inline(dag, c) for c in n['c']]]


def binds(h, i):
    """Variables the head binds in child i (mirrors renderable_bindings of the modelled classes)."""
    k = h[0]
    if k in ('Let', 'StreamMap', 'StreamFilter') and i == 1:
        return [h[1]]
    if k == 'StreamFold' and i == 2:
        return [h[1], h[2]]
    return []


def free_vars(t):
    h, cs = t
    if h[0] == 'Ref':
        return {h[1]}
    out = set()
    for i, c in enumerate(cs):
        out |= free_vars(c) - set(binds(h, i))
    return out


def term_size(t):
    return 1 + sum(term_size(c) for c in t[1])


# ------------------------------------------------------------------------------------------------
# reference evaluator (int32 wrap-around; junk value for ill-typed applications) — used by the ORACLE only.
# evaluate(): total (a failing operation gives junk).  evaluate_err(): the semantics with errors — strict Let, If evaluates
# only the branch taken, loops evaluate their body once per element, `//` `%` by zero and out-of-bounds indexing FAIL:
# returns ERR or a value, and (second component) the innermost `__cse_` let whose bound expression was being evaluated when
# the failure happened.

JUNK = ['junk']
ERR = ['err']


class Fail(Exception):
    pass


_STRICT = [False]
_LETS = []       # stack of let names whose VALUE is being evaluated (error mode)
_FAILED_IN = [None]


def _fail():
    if _FAILED_IN[0] is None:
        cse = [n for n in _LETS if n.startswith('__cse_')]
        _FAILED_IN[0] = cse[-1] if cse else ''
    raise Fail()


def evaluate_err(t, env):
    """(result, name of the innermost __cse_ let being evaluated at the failure or '' / None)."""
    _STRICT[0] = True
    _LETS.clear()
    _FAILED_IN[0] = None
    try:
        return evaluate(t, env), None
    except Fail:
        return ERR, _FAILED_IN[0]
    finally:
        _STRICT[0] = False
        _LETS.clear()


def _floordiv(a, b):
    return a // b


def idx_pos(neg, n, z):
    if 0 <= z < n:
        return z
    if neg and -n <= z < 0:
        return n + z
    return None


def _wrap(z):
    z &= 0xFFFFFFFF
    return z - (1 << 32) if z >= (1 << 31) else z


def _int(v):
    return v[0] == 'int'


def evaluate(t, env):
    """env: dict var -> value; unbound variables raise KeyError (the oracle reports them as ill-scoped)."""
    h, cs = t
    k = h[0]
    if k == 'I32':
        return ['int', _wrap(h[1])]
    if k == 'True':
        return ['bool', True]
    if k == 'False':
        return ['bool', False]
    if k == 'Ref':
        return env[h[1]]
    if k == 'Bin':
        a, b = evaluate(cs[0], env), evaluate(cs[1], env)
        if not (_int(a) and _int(b)):
            return JUNK
        if h[1] in ('//', '%'):
            if b[1] == 0:
                if _STRICT[0]:
                    _fail()
                return JUNK
            return ['int', _wrap(a[1] // b[1] if h[1] == '//' else a[1] % b[1])]
        return ['int', _wrap({'+': a[1] + b[1], '-': a[1] - b[1], '*': a[1] * b[1]}[h[1]])]
    if k == 'Idx':
        a, i = evaluate(cs[0], env), evaluate(cs[1], env)
        if a[0] != 'arr' or not _int(i):
            return JUNK
        p = idx_pos(h[1], len(a[1]), i[1])
        if p is None:
            if _STRICT[0]:
                _fail()
            return JUNK
        return a[1][p]
    if k == 'Un':
        a = evaluate(cs[0], env)
        if h[1] == '-':
            return ['int', _wrap(-a[1])] if _int(a) else JUNK
        return ['bool', not a[1]] if a[0] == 'bool' else JUNK
    if k == 'Cmp':
        a, b = evaluate(cs[0], env), evaluate(cs[1], env)
        if not (_int(a) and _int(b)):
            return JUNK
        x, y = a[1], b[1]
        return ['bool', {'<': x < y, '<=': x <= y, '>': x > y, '>=': x >= y, '==': x == y, '!=': x != y}[h[1]]]
    if k == 'If':
        c = evaluate(cs[0], env)
        if c[0] != 'bool':
            return JUNK
        return evaluate(cs[1] if c[1] else cs[2], env)
    if k == 'Let':
        e2 = dict(env)
        _LETS.append(h[1])
        e2[h[1]] = evaluate(cs[0], env)
        _LETS.pop()
        return evaluate(cs[1], e2)
    if k == 'MakeStruct':
        return ['struct', [[f, evaluate(c, env)] for f, c in zip(h[1], cs)]]
    if k == 'GetField':
        a = evaluate(cs[0], env)
        if a[0] != 'struct':
            return JUNK
        for f, v in a[1]:
            if f == h[1]:
                return v
        return JUNK
    if k == 'MakeArray':
        return ['arr', [evaluate(c, env) for c in cs]]
    if k in ('CastToArray', 'ToArray', 'ToStream'):
        a = evaluate(cs[0], env)
        return a if a[0] == 'arr' else JUNK
    if k == 'ArrayLen':
        a = evaluate(cs[0], env)
        return ['int', _wrap(len(a[1]))] if a[0] == 'arr' else JUNK
    if k in ('StreamMap', 'StreamFilter'):
        a = evaluate(cs[0], env)
        if a[0] != 'arr':
            return JUNK
        out = []
        for v in a[1]:
            e2 = dict(env)
            e2[h[1]] = v
            r = evaluate(cs[1], e2)
            if k == 'StreamMap':
                out.append(r)
            elif r == ['bool', True]:
                out.append(v)
        return ['arr', out]
    if k == 'StreamFold':
        a = evaluate(cs[0], env)
        acc = evaluate(cs[1], env)
        if a[0] != 'arr':
            return JUNK
        for v in a[1]:
            e2 = dict(env)
            e2[h[1]] = acc
            e2[h[2]] = v
            acc = evaluate(cs[2], e2)
        return acc
    raise ReadError(f'evaluate: unknown head {h}')


# ------------------------------------------------------------------------------------------------
# generator of typed programs with sharing (see c35_cse.py for the program language)

STRUCT_TYPES = [['struct', [['a', 'int']]], ['struct', [['a', 'int'], ['b', 'bool']]], ['struct', [['p', 'int'], ['q', 'int']]]]


class Gen:
    def __init__(self, rng, mode, budget=14, share_p=0.35, names=None):
        self.rng = rng
        self.mode = mode          # 'api' | 'ir'
        self.n = 0
        self.budget = budget
        self.share_p = share_p
        self.pool = names or ['x', 'y', 'z']    # IR mode: small pool => shadowing and re-bound names happen

    def fresh(self, prefix):
        self.n += 1
        return f'{prefix}{self.n}'

    def binder(self):
        return self.rng.choice(self.pool) if self.mode == 'ir' else self.fresh('v')

    def program(self):
        t = self.rng.choice(['int', 'int', 'bool', ['array', 'int'], self.rng.choice(STRUCT_TYPES)])
        return self.gen(t, self.budget, [], [])

    # py: list of (pyname, type); var: list of (name, type)
    def gen(self, t, d, py, var):
        rng = self.rng
        if d > 1 and rng.random() < self.share_p:
            st = rng.choice(['int', 'int', 'int', 'bool', ['array', 'int'], rng.choice(STRUCT_TYPES), t])
            name = self.fresh('s')
            p1 = self.gen(st, d // 2, py, var)
            return ['share', name, p1, self.gen(t, d - 1, py + [(name, st)], var)]
        cands = [n for n, ty in py if ty == t]
        if cands and rng.random() < (0.55 if d > 0 else 0.9):
            return ['use', rng.choice(cands[-4:])]
        vc = [n for n, ty in var if ty == t]
        if vc and rng.random() < (0.35 if d > 0 else 0.8):
            return ['var', rng.choice(vc[-3:]), t]
        if d <= 0:
            return self.leaf(t, py, var)
        opts = ['if', 'bind']
        opts.append('idx')
        if t == 'int':
            opts += ['lit', 'bin', 'bin', 'bin', 'neg', 'len', 'fold', 'field']
            if self.mode == 'ir':
                opts.append('free')
        elif t == 'bool':
            opts += ['lit', 'cmp', 'cmp', 'not', 'field']
        elif t[0] == 'array':
            opts += ['array', 'array', 'map', 'map', 'filter']
        else:
            opts += ['struct', 'struct', 'struct']
        k = rng.choice(opts)
        h = d // 2
        if k == 'lit':
            return self.leaf(t, py, var)
        if k == 'free':
            return ['var', rng.choice(['g', 'h']), 'int']
        if k == 'bin':
            return ['bin', rng.choice(BIN_OPS if self.mode == 'ir' else BIN_OPS[:4]), self.gen('int', h, py, var), self.gen('int', h, py, var)]   # API `%` is a function call (Apply mod): outside the subset
        if k == 'neg':
            return ['un', '-', self.gen('int', d - 1, py, var)]
        if k == 'not':
            return ['un', '!', self.gen('bool', d - 1, py, var)]
        if k == 'cmp':
            return ['cmp', rng.choice(CMP_OPS), self.gen('int', h, py, var), self.gen('int', h, py, var)]
        if k == 'if':
            return ['if', self.gen('bool', d // 3, py, var), self.gen(t, h, py, var), self.gen(t, h, py, var)]
        if k == 'bind':
            bt = rng.choice(['int', 'int', 'bool', ['array', 'int'], rng.choice(STRUCT_TYPES)])
            x = self.binder()
            return ['bind', x, self.gen(bt, h, py, var), self.gen(t, h, py, var + [(x, bt)])]
        if k == 'len':
            return ['len', self.gen(['array', rng.choice(['int', 'bool'])], d - 1, py, var)]
        if k == 'idx':
            if t[0] == 'array':     # arrays of arrays are outside the generated types
                return self.leaf(t, py, var)
            return ['idx', self.gen(['array', t], h, py, var),
                    ['int', rng.choice([0, 0, 1, 1, 2, -1, 3])] if rng.random() < 0.7 else self.gen('int', d // 3, py, var)]
        if k == 'fold':
            et = rng.choice(['int', 'int', rng.choice(STRUCT_TYPES)])
            acc, x = self.binder(), self.binder()
            if self.mode == 'api' or rng.random() < 0.8:
                while x == acc:
                    x = self.binder()
            return ['fold', acc, x, self.gen(['array', et], d // 3, py, var), self.gen('int', d // 3, py, var),
                    self.gen('int', h, py, var + [(acc, 'int'), (x, et)])]
        if k == 'field':
            sts = [s for s in STRUCT_TYPES if any(ft == t for _, ft in s[1])]
            st = rng.choice(sts)
            f = rng.choice([f for f, ft in st[1] if ft == t])
            return ['field', f, self.gen(st, d - 1, py, var)]
        if k == 'array':
            n = rng.randint(1, 3)
            return ['array', [self.gen(t[1], d // (n + 1), py, var) for _ in range(n)]]
        if k == 'map':
            et = rng.choice(['int', 'int', rng.choice(STRUCT_TYPES)])
            x = self.binder()
            return ['map', x, self.gen(['array', et], h, py, var), self.gen(t[1], h, py, var + [(x, et)])]
        if k == 'filter':
            x = self.binder()
            return ['filter', x, self.gen(t, h, py, var), self.gen('bool', h, py, var + [(x, t[1])])]
        if k == 'struct':
            return ['struct', [[f, self.gen(ft, d // (len(t[1]) + 1), py, var)] for f, ft in t[1]]]
        raise AssertionError(k)

    def leaf(self, t, py, var):
        rng = self.rng
        if t == 'int':
            return ['int', rng.choice([0, 1, 2, 3, 7, -1, 2147483647, -2147483648, rng.randint(-50, 50)])]
        if t == 'bool':
            return ['bool', rng.random() < 0.5]
        if t[0] == 'array':
            return ['array', [self.leaf(t[1], py, var) for _ in range(rng.randint(1, 2))]]
        return ['struct', [[f, self.leaf(ft, py, var)] for f, ft in t[1]]]


# ------------------------------------------------------------------------------------------------
# Coq interface: DAG -> Gallina expression (with let-sharing), printed node -> neutral term

class Names:
    """Per-case numbering of variable and field names (U n / field n in the model)."""

    def __init__(self):
        self.vars, self.fields = {}, {}

    def var(self, s):
        if s.startswith('__cse_') and s[6:].isdigit():
            return f'(C {int(s[6:])})'
        return f'(U {self.vars.setdefault(s, len(self.vars))})'

    def field(self, s):
        return str(self.fields.setdefault(s, len(self.fields)))

    def var_back(self, v):
        if v[0] == 'C':
            return f'__cse_{v[1]}'
        inv = {n: s for s, n in self.vars.items()}
        return inv[v[1]]

    def field_back(self, n):
        return {k: s for s, k in self.fields.items()}[n]


_BIN = {'+': 'Add', '-': 'Sub', '*': 'Mul', '//': 'Div', '%': 'Mod'}
_UN = {'-': 'Neg', '!': 'Not'}
_CMP = {'<': 'Lt', '<=': 'Le', '>': 'Gt', '>=': 'Ge', '==': 'Eq', '!=': 'Ne'}


def head_to_coq(h, names):
    k = h[0]
    if k == 'I32':
        return f'(HI32 ({h[1]}))'
    if k in ('True', 'False', 'If', 'MakeArray', 'ArrayLen', 'CastToArray', 'ToArray', 'ToStream'):
        return 'H' + k
    if k == 'Bin':
        return f'(HBin {_BIN[h[1]]})'
    if k == 'Un':
        return f'(HUn {_UN[h[1]]})'
    if k == 'Cmp':
        return f'(HCmp {_CMP[h[1]]})'
    if k in ('Let', 'Ref', 'StreamMap', 'StreamFilter'):
        return f'(H{k} {names.var(h[1])})'
    if k == 'StreamFold':
        return f'(HStreamFold {names.var(h[1])} {names.var(h[2])})'
    if k == 'MakeStruct':
        return '(HMakeStruct [' + '; '.join(names.field(f) for f in h[1]) + '])'
    if k == 'GetField':
        return f'(HGetField {names.field(h[1])})'
    if k == 'Idx':
        return f'(HIdx {"true" if h[1] else "false"})'
    raise ReadError(f'head outside the model: {h}')


def dag_to_coq(dag, names, body):
    """`let n1 := Node .. in let n2 := .. in <body applied to the root variable>` (children first)."""
    order = []
    seen = set()

    def go(i):
        if i in seen:
            return
        seen.add(i)
        for c in dag['nodes'][str(i)]['c']:
            go(c)
        order.append(i)

    import sys
    sys.setrecursionlimit(max(sys.getrecursionlimit(), 20000))
    go(dag['root'])
    out = []
    for i in order:
        n = dag['nodes'][str(i)]
        cs = '[' + '; '.join(f'n{c}' for c in n['c']) + ']'
        out.append(f'let n{i} := Node {i} {"true" if n["strm"] else "false"} {head_to_coq(n["h"], names)} {cs} in')
    return ' '.join(out) + ' ' + body.replace('ROOT', f'n{dag["root"]}')


def term_to_coq(t, names):
    h, cs = t
    return f'(Node 0 false {head_to_coq(h, names)} [' + '; '.join(term_to_coq(c, names) for c in cs) + '])'


_RBIN = {v: k for k, v in _BIN.items()}
_RUN = {v: k for k, v in _UN.items()}
_RCMP = {v: k for k, v in _CMP.items()}


def coq_to_term(v, names):
    """Parsed `Node id strm head children` (core.parse_coq_value) -> neutral term."""
    assert v[0] == 'Node', v
    h, cs = v[3], v[4]
    if isinstance(h, str):
        hh = [h[1:]]
    else:
        k = h[0][1:]
        if k == 'I32':
            hh = ['I32', h[1]]
        elif k == 'Bin':
            hh = ['Bin', _RBIN[h[1]]]
        elif k == 'Un':
            hh = ['Un', _RUN[h[1]]]
        elif k == 'Cmp':
            hh = ['Cmp', _RCMP[h[1]]]
        elif k in ('Let', 'Ref', 'StreamMap', 'StreamFilter'):
            hh = [k, names.var_back(h[1])]
        elif k == 'StreamFold':
            hh = [k, names.var_back(h[1]), names.var_back(h[2])]
        elif k == 'MakeStruct':
            hh = [k, [names.field_back(f) for f in h[1]]]
        elif k == 'GetField':
            hh = [k, names.field_back(h[1])]
        elif k == 'Idx':
            hh = [k, bool(h[1])]
        else:
            raise ReadError(f'unexpected head from the model: {h}')
    return [hh, [coq_to_term(c, names) for c in cs]]


def coq_to_result(v, names):
    """Model `result` (Val v | Err) -> value or ERR."""
    if v == 'Err':
        return ERR
    assert v[0] == 'Val', v
    return coq_to_value(v[1], names)


def coq_to_value(v, names):
    if v == 'VJunk':
        return JUNK
    if v[0] == 'VInt':
        return ['int', v[1]]
    if v[0] == 'VBool':
        return ['bool', v[1]]
    if v[0] == 'VArr':
        return ['arr', [coq_to_value(x, names) for x in v[1]]]
    if v[0] == 'VStruct':
        return ['struct', [[names.field_back(f), coq_to_value(x, names)] for f, x in v[1]]]
    raise ReadError(f'unexpected value from the model: {v}')


def value_to_coq(v, names):
    if v[0] == 'junk':
        return 'VJunk'
    if v[0] == 'int':
        return f'(VInt ({v[1]}))'
    if v[0] == 'bool':
        return f'(VBool {"true" if v[1] else "false"})'
    if v[0] == 'arr':
        return '(VArr [' + '; '.join(value_to_coq(x, names) for x in v[1]) + '])'
    return '(VStruct [' + '; '.join(f'({names.field(f)}, {value_to_coq(x, names)})' for f, x in v[1]) + '])'


# ------------------------------------------------------------------------------------------------
# targeted programs: one shared subtree (with sharing inside) placed at several depths, in and out of If branches
# and lambda bodies — the situations in which a node is a binding site in one place and a bound node in another

def targeted_program(rng, mode):
    def wrap(p, n):
        for _ in range(n):
            p = ['un', '-', p]
        return p

    inner = rng.choice([['bin', '*', ['use', 't'], ['use', 't']],
                        ['bin', '+', ['use', 't'], ['bin', '*', ['use', 't'], ['int', 2]]],
                        ['bin', '-', ['bin', '*', ['use', 't'], ['use', 't']], ['use', 't']]])
    tdef = rng.choice([['bin', '+', ['int', 1], ['int', 2]], ['un', '-', ['int', 7]],
                       ['bin', '*', ['int', 3], ['bin', '+', ['int', 1], ['int', 1]]]])
    occ = []
    for _ in range(rng.randint(3, 6)):
        what = ['use', rng.choice(['X', 'X', 'X', 't'])]
        kind = rng.choice(['plain', 'plain', 'then', 'else', 'map', 'fold'])
        w = wrap(what, rng.randint(0, 2))
        if kind == 'plain':
            o = w
        elif kind == 'then':
            o = ['if', ['bool', rng.random() < 0.5], w, ['int', 5]]
        elif kind == 'else':
            o = ['if', ['cmp', '<', ['int', 1], ['int', rng.randint(0, 2)]], ['int', 5], w]
        elif kind == 'map':
            x = 'e%d' % len(occ) if mode == 'api' else rng.choice(['x', 'y'])
            o = ['len', ['map', x, ['array', [['int', 1], ['int', 2]]], ['bin', '+', ['var', x, 'int'], w]]]
        else:
            a, x = ('a%d' % len(occ), 'v%d' % len(occ)) if mode == 'api' else ('x', 'y')
            o = ['fold', a, x, ['array', [['int', 1], ['int', 2]]], ['int', 0], ['bin', '+', ['var', a, 'int'], w]]
        occ.append(wrap(o, rng.randint(0, 2)))
    rng.shuffle(occ)
    while len(occ) > 1:
        i = rng.randrange(len(occ) - 1)
        occ[i:i + 2] = [['bin', rng.choice(['+', '+', '*']), occ[i], occ[i + 1]]]
    return ['share', 't', tdef, ['share', 'X', inner, occ[0]]]


# ------------------------------------------------------------------------------------------------
# targeted programs with FAILING shared subexpressions: an expression whose evaluation fails (division / modulus by zero,
# index out of bounds) is shared (used at least twice) in places that are evaluated or not: the branch of an If that is /
# is not taken, the body of a loop over an empty / non-empty array (guarded by the loop variable or not), under lets,
# structs and nested conditionals.  Rendering must not change whether the program fails.

def failing_program(rng, mode):
    n = [0]

    def fresh(p):
        n[0] += 1
        return f'{p}{n[0]}' if mode == 'api' else rng.choice(['x', 'y', 'z'])

    def zero():
        return rng.choice([['int', 0], ['bin', '-', ['int', 3], ['int', 3]], ['bin', '*', ['int', 0], ['int', 7]],
                           ['len', ['filter', fresh('f'), ['array', [['int', 1]]], ['bool', False]]]])

    def arr(k):
        return ['array', [['int', 10 + i] for i in range(k)]]

    def failing(var_int=None):
        """an int expression that fails; with var_int: fails only for some values of that variable"""
        kind = rng.choice(['div', 'mod', 'idx', 'idxneg'] if mode == 'ir' else ['div', 'div', 'idx', 'idxneg'])
        if var_int is not None:
            v = ['var', var_int, 'int']
            if kind in ('div', 'mod'):
                return ['bin', '//' if kind == 'div' else '%', ['int', rng.choice([12, 7, -5])], v], 'zero'
            return ['idx', arr(3), v], 'big'
        if kind == 'div':
            return ['bin', '//', ['int', rng.choice([1, 12, -7])], zero()], None
        if kind == 'mod':
            return ['bin', '%', ['int', rng.choice([1, 12, -7])], zero()], None
        k = rng.randint(1, 3)
        if kind == 'idx' or mode == 'ir':
            return ['idx', arr(k), ['int', k + rng.randint(0, 2)]], None
        return ['idx', arr(k), ['int', -(k + 1 + rng.randint(0, 2))]], None

    def uses(name):
        u = ['use', name]
        return rng.choice([['bin', '+', u, u], ['bin', '-', ['bin', '*', u, u], u], ['bin', '+', ['un', '-', u], ['bin', '*', u, ['int', 2]]],
                           ['field', 'p', ['struct', [['p', u], ['q', u]]]], ['bin', '+', u, ['bind', fresh('b'), ['int', 1], u]]])

    def cond(truth):
        a = rng.randint(0, 3)
        c = rng.choice([['bool', truth], ['cmp', '<', ['int', a], ['int', a + 1]] if truth else ['cmp', '<', ['int', a + 1], ['int', a]],
                        ['cmp', '==', zero(), ['int', 0]] if truth else ['cmp', '!=', zero(), ['int', 0]]])
        return c

    def guarded(body, taken_else):
        """an If whose branch holding `body` is NOT the one evaluated"""
        safe = ['int', rng.randint(0, 9)]
        return ['if', cond(False), body, safe] if not taken_else else ['if', cond(True), safe, body]

    shape = rng.choice(['else', 'else', 'then', 'then', 'nested', 'loop-guard', 'loop-guard', 'loop-empty', 'loop-live', 'both', 'let'])
    if shape in ('else', 'then'):
        f, _ = failing()
        core = ['share', 'F', f, guarded(uses('F'), shape == 'else')]
    elif shape == 'nested':
        f, _ = failing()
        inner = guarded(uses('F'), rng.random() < 0.5)
        core = ['share', 'F', f, ['if', cond(True), ['bin', '+', inner, ['int', 1]], ['int', 0]] if rng.random() < 0.5
                else guarded(['bin', '+', inner, uses('F')], rng.random() < 0.5)]
    elif shape == 'loop-guard':
        x = fresh('e')
        f, how = failing(x)
        src = ['array', [['int', v] for v in ([0, 1, 2, 3] if how == 'zero' else [0, 1, 2, 3, 4])]]
        bad = ['cmp', '==', ['var', x, 'int'], ['int', 0]] if how == 'zero' else ['cmp', '>=', ['var', x, 'int'], ['int', 3]]
        good = ['un', '!', bad]
        body = ['share', 'F', f, ['if', bad, ['int', -1], uses('F')] if rng.random() < 0.6 else ['if', good, uses('F'), ['int', -1]]]
        core = rng.choice([['len', ['map', x, src, body]], ['fold', fresh('a'), x, src, ['int', 0], body]])
    elif shape in ('loop-empty', 'loop-live'):
        f, _ = failing()
        x = fresh('e')
        src = ['filter', fresh('g'), arr(2), ['bool', shape == 'loop-live']]
        core = ['share', 'F', f, rng.choice([['len', ['map', x, src, uses('F')]],
                                             ['fold', fresh('a'), x, src, ['int', 0], uses('F')],
                                             ['len', ['filter', x, src, ['cmp', '<', uses('F'), ['int', 3]]]]])]
    elif shape == 'both':
        f, _ = failing()
        core = ['share', 'F', f, ['bin', '+', guarded(uses('F'), rng.random() < 0.5), ['use', 'F'] if rng.random() < 0.5 else ['int', 4]]]
    else:
        f, _ = failing()
        b = fresh('b')
        core = ['share', 'F', f, ['bind', b, ['int', 5], guarded(['bin', '+', ['var', b, 'int'], uses('F')], rng.random() < 0.5)]]
    # outer context
    ctx = rng.choice(['none', 'none', 'plus', 'struct', 'map', 'bind', 'neg'])
    if ctx == 'plus':
        return ['bin', '+', ['int', 1], core]
    if ctx == 'struct':
        return ['struct', [['a', core]]]
    if ctx == 'map':
        return ['map', fresh('o'), arr(2), core]
    if ctx == 'bind':
        return ['bind', fresh('b'), ['int', 2], core]
    if ctx == 'neg':
        return ['un', '-', core]
    return core


# ------------------------------------------------------------------------------------------------
# where, relative to the let that binds it, is a `__cse_` name used?  (classification of an introduced failure)

def _is_loop_body(h, i):
    return (h[0] in ('StreamMap', 'StreamFilter') and i == 1) or (h[0] == 'StreamFold' and i == 2)


def use_paths(t, name):
    """For every use of `name` in t: the set of edge kinds ('if' = branch of an If, 'loop' = loop body) between t and the
    use; a use inside the bound expression of another `__cse_` let counts through the uses of that let."""
    h, cs = t
    if h[0] == 'Ref':
        return [frozenset()] if h[1] == name else []
    if h[0] == 'Let' and h[1] != name:
        in_val, in_body = use_paths(cs[0], name), use_paths(cs[1], name)
        if in_val and h[1].startswith('__cse_'):
            via = use_paths(cs[1], h[1])
            in_val = [a | b for a in in_val for b in via] if via else in_val
        return in_val + in_body
    out = []
    for i, c in enumerate(cs):
        if h[0] == 'Let' and i == 1 and h[1] == name:
            continue
        fl = frozenset(['if']) if (h[0] == 'If' and i in (1, 2)) else frozenset(['loop']) if _is_loop_body(h, i) else frozenset()
        out += [p | fl for p in use_paths(c, name)]
    return out


def find_let(t, name):
    h, cs = t
    if h[0] == 'Let' and h[1] == name:
        return t
    for c in cs:
        r = find_let(c, name)
        if r is not None:
            return r
    return None


# ------------------------------------------------------------------------------------------------
# aggregation / scan binding contexts (outside the Coq model: checked on the real renderer output only)
#
# A node is evaluated in a triple of environments (eval, agg, scan); agg / scan may be absent (None).  The table below is the
# binding structure of the node classes as the engine defines it (Scala `Binds` / python `_compute_type`), written down by
# hand; it does NOT consult the python binding metadata the renderer itself uses.
#   context argument (AggFilter cond, AggGroupBy key, AggExplode array, AggArrayPerElement array, seq args of
#   ApplyAggOp / ApplyScanOp, value of AggLet): evaluated with eval := the agg (is_scan False) resp. scan (True) environment,
#   no agg / scan environment of its own.
#   AggLet x s v b: b sees x in the agg (s False) / scan (s True) environment.   AggExplode x s a b: likewise the element x.
#   AggArrayPerElement e i s a b: b sees i in eval and e in agg / scan.   Let, StreamMap, StreamFilter, StreamFold: eval only.
#   TableAggregate t q: q has eval {global}, agg {row, global}, no scan.   TableMapRows t r: r has eval {row, global},
#   scan {row, global}, no agg.

class ScopeError(Exception):
    """key: class of the violation; var: the variable concerned; via: 'StreamAgg' / 'StreamAggScan' when the variable is used by
    a lifted expression through the body of such a node (see stream_agg_body_vars), else ''."""

    def __init__(self, key, msg, var=None, via=''):
        super().__init__(msg)
        self.key, self.var, self.via = key, var, via


def stream_agg_body_vars(t, acc=None):
    """Eval-context variables that are free in the BODY of a StreamAgg / StreamAggScan node of t (other than its element)."""
    acc = acc if acc is not None else set()
    h, cs = t
    if h[0] in ('StreamAgg', 'StreamAggScan'):
        acc |= _eval_free(cs[1]) - {h[1]}
    for c in cs:
        stream_agg_body_vars(c, acc)
    return acc


def _eval_free(t):
    """Variables referenced in eval-context positions of t (not through a context argument) and not bound inside t."""
    h, cs = t
    k = h[0]
    if k == 'Ref':
        return {h[1]}
    out = set()
    for i, c in enumerate(cs):
        if (k in ('AggFilter', 'AggGroupBy', 'AggExplode', 'AggArrayPerElement', 'AggLet') and i == 0) or \
                (k in ('ApplyAggOp', 'ApplyScanOp') and i >= h[2]):
            continue        # context argument: evaluated in the agg / scan environment
        bound = set(binds(h, i))
        if k == 'AggArrayPerElement' and i == 1:
            bound = {h[2]}
        elif k == 'StreamAggScan' and i == 1:
            bound = {h[1]}
        out |= _eval_free(c) - bound
    return out


def is_cse(name):
    return name.startswith('__cse_')


def _agg_switch(ctx, scan, who, detail=''):
    ev, ag, sc, kind = ctx
    env = sc if scan else ag
    want = 'scan' if scan else 'agg'
    if env is None:
        have = [w for w, e in (('agg', ag), ('scan', sc)) if e is not None]
        raise ScopeError(f'{want}-context-missing:{who}',
                         f'{who}{detail} with is_scan={scan} needs the {"scan" if scan else "aggregation"} context, which does not exist '
                         f'at that place (it is evaluated in the {kind} context; available: {"/".join(have) or "none"})')
    return (env, None, None, want)


def scope_check(t):
    """Scope-check a term read with parse_ir(agg=True).  Every Ref must be bound in the environment in which it is evaluated;
    a reference to a CSE binding (`__cse_N`, bound by `Let eval` in the eval environment or by `AggLet .. False/True` in the
    agg / scan environment) must in addition see, at the place of the reference, the SAME binders for the variables of the bound
    expression as the binding itself does (otherwise inlining the let changes what a variable refers to).  Raises ScopeError.
    Returns statistics."""
    counter = [0]
    stats = {'refs': 0, 'cse_refs': 0, 'let': 0, 'agglet_agg': 0, 'agglet_scan': 0}

    def fresh(value=None, res=None):
        counter[0] += 1
        return (counter[0], value, res)

    def bind(env, names):
        e = dict(env)
        for n in names:
            e[n] = fresh()
        return e

    trail = []      # head kinds on the path from the root to the node being walked ('<value of N>' marks the bound expression of a CSE let)

    def via_stream_agg():
        """(name of the outermost enclosing lifted binding or None, first StreamAgg / StreamAggScan between it and here or '')"""
        j = min((i for i, x in enumerate(trail) if x.startswith('<value of ')), default=None)
        if j is None:
            return None, ''
        return trail[j][10:-1], ([x for x in trail[j + 1:] if x in ('StreamAgg', 'StreamAggScan')] + [''])[0]

    def walk(t, ctx, out, floor, count):
        ev, ag, sc, kind = ctx
        h, cs = t
        k = h[0]
        if k == 'Ref':
            name = h[1]
            if count:
                stats['refs'] += 1
                stats['cse_refs'] += is_cse(name)
            if name not in ev:
                other = [w for w, e in (('eval', ev), ('agg', ag), ('scan', sc)) if e is not None and name in e]
                where, note, via = '', '', ''
                if not is_cse(name):
                    # a program variable: is it used by a lifted expression (that was put above the variable's binder)?  and
                    # does it reach that expression through the body of a StreamAgg / StreamAggScan?
                    lifted, via = via_stream_agg()
                    if lifted:
                        where = ':lifted-above-binder'
                        note = f'; it is used by the lifted expression bound to {lifted}, which was put outside the scope of {name}'
                raise ScopeError(('unbound-cse-reference:' if is_cse(name) else 'unbound-variable:') + kind + '-context' + where,
                                 f'(Ref {name}) is evaluated in the {kind} context, where {name} is not bound'
                                 + (f' (it is bound in the {"/".join(other)} environment of that place)' if other else '') + note,
                                 var=name, via=via)
            bid, value, res = ev[name]
            if bid < floor:
                # (binder, variable, StreamAgg / StreamAggScan body through which an enclosing lifted expression reaches it)
                out.append((bid, name, via_stream_agg()[1]))
            if value is not None:
                # the bound expression, put in the place of the reference, must resolve its variables as it did at the let
                sub = []
                trail.append('<value of ' + name + '>')
                try:
                    walk(value, ctx, sub, counter[0] + 1, False)
                except ScopeError as e:
                    raise ScopeError('cse-binding-variable-unbound-at-use', f'at a use of {name}: {e}', var=e.var, via=e.via)
                trail.pop()
                if [b[0] for b in sub] != [b[0] for b in res]:
                    d = [b for a, b in zip(res, sub) if a[0] != b[0]]
                    _, var, via = d[0] if d else (0, '?', '')
                    raise ScopeError('cse-binding-captures-variable',
                                     f'the expression bound to {name} uses the variable {var}, which refers to another binder at a use of '
                                     f'{name} than at the binding (the binding was put outside the scope of the binder its uses see)',
                                     var=var, via=via)
                out.extend(b for b in sub if b[0] < floor)
            return
        if k in ('Let', 'AggLet'):
            name = h[1]
            if k == 'Let':
                vctx = ctx
            else:
                vctx = _agg_switch(ctx, h[2], 'AggLet', ' ' + name)
            sub = []
            trail.append('<value of ' + name + '>' if is_cse(name) else k)
            walk(cs[0], vctx, sub, counter[0] + 1, count)
            trail.pop()
            out.extend(b for b in sub if b[0] < floor)
            rec = fresh(cs[0], sub) if is_cse(name) else fresh()
            if count and is_cse(name):
                stats['let' if k == 'Let' else 'agglet_scan' if h[2] else 'agglet_agg'] += 1
            if k == 'Let':
                bctx = ({**ev, name: rec}, ag, sc, kind)
            elif h[2]:
                bctx = (ev, ag, {**sc, name: rec}, kind)
            else:
                bctx = (ev, {**ag, name: rec}, sc, kind)
            walk(cs[1], bctx, out, floor, count)
            return
        for i, c in enumerate(cs):
            cctx = ctx
            if k in ('StreamMap', 'StreamFilter') and i == 1:
                cctx = (bind(ev, [h[1]]), ag, sc, kind)
            elif k == 'StreamFold' and i == 2:
                cctx = (bind(ev, [h[1], h[2]]), ag, sc, kind)
            elif k in ('AggFilter', 'AggGroupBy') and i == 0:
                cctx = _agg_switch(ctx, h[1], k)
            elif k == 'AggExplode':
                if i == 0:
                    cctx = _agg_switch(ctx, h[2], k)
                else:
                    _agg_switch(ctx, h[2], k)
                    cctx = (ev, ag, bind(sc, [h[1]]), kind) if h[2] else (ev, bind(ag, [h[1]]), sc, kind)
            elif k == 'AggArrayPerElement':
                if i == 0:
                    cctx = _agg_switch(ctx, h[3], k)
                else:
                    e2 = bind(ev, [h[2]])
                    cctx = (e2, ag, bind(sc, [h[1]]), kind) if h[3] else (e2, bind(ag, [h[1]]), sc, kind)
            elif k in ('ApplyAggOp', 'ApplyScanOp') and i >= h[2]:
                cctx = _agg_switch(ctx, k == 'ApplyScanOp', k)
            elif k == 'TableAggregate' and i == 1:
                cctx = (bind({}, ['global']), bind({}, ['row', 'global']), None, 'eval')
            elif k == 'TableMapRows' and i == 1:
                cctx = (bind({}, ['row', 'global']), None, bind({}, ['row', 'global']), 'eval')
            elif k == 'StreamAgg' and i == 1:
                # aggregation over a stream: the aggregated environment is the eval environment plus the element
                cctx = (ev, bind(ev, [h[1]]), None, kind)
            elif k == 'StreamAggScan' and i == 1:
                e2 = bind(ev, [h[1]])
                cctx = (e2, None, e2, kind)
            trail.append(k)
            walk(c, cctx, out, floor, count)
            trail.pop()

    walk(t, ({}, None, None, 'eval'), [], 0, True)
    return stats


def inline_cse(t, env=None):
    """Replace every reference to a `__cse_N` binding by the bound expression and drop the binding (Let / AggLet)."""
    env = env or {}
    h, cs = t
    if h[0] == 'Ref' and h[1] in env:
        return env[h[1]]
    if h[0] in ('Let', 'AggLet') and is_cse(h[1]):
        return inline_cse(cs[1], {**env, h[1]: inline_cse(cs[0], env)})
    return [h, [inline_cse(c, env) for c in cs]]


def context_argument_stats(t, acc=None):
    """How often is the context argument of an aggregation node a reference to a CSE binding (directly / under ToStream)?"""
    acc = acc if acc is not None else {}
    h, cs = t
    if h[0] in ('AggFilter', 'AggGroupBy', 'AggExplode', 'AggArrayPerElement') and cs:
        a = cs[0]
        while a[0][0] == 'ToStream':
            a = a[1][0]
        if a[0][0] == 'Ref' and is_cse(a[0][1]):
            flagv = h[1] if h[0] in ('AggFilter', 'AggGroupBy') else h[2] if h[0] == 'AggExplode' else h[3]
            key = f'{h[0]}:{"scan" if flagv else "agg"}:context-argument-is-shared'
            acc[key] = acc.get(key, 0) + 1
    for c in cs:
        context_argument_stats(c, acc)
    return acc


# ---- generators of programs with aggregation / scan contexts (program language: see c35_cse.py, mode 'agg')

ROW_T = ['struct', [['idx', 'int']]]
_ROW_IDX = ['field', 'idx', ['var', 'row', ROW_T]]


class AggGen:
    """Random aggregation / scan queries over a table with row {idx: int32}.  Three kinds of positions: 'res' (an aggregation
    result: eval context with aggregations available), 'inner' (a context argument: evaluated in the agg / scan environment)
    and 'eval' (plain eval-context values: init arguments, let values).  Python-level sharing (`share` / `use`) of inner
    expressions, eval expressions and whole aggregation results."""

    def __init__(self, rng, scan, budget=8, share_p=0.3, row=True):
        self.rng, self.scan, self.budget, self.share_p, self.n = rng, scan, budget, share_p, 0
        self.row = row      # False: no table row in scope (aggregation over a stream: StreamAgg / StreamAggScan)

    def row_idx(self, iv):
        if self.row:
            return _ROW_IDX
        vc = [n for n, ty in iv if ty == 'int']
        return ['var', self.rng.choice(vc), 'int'] if vc else ['int', self.rng.randint(0, 5)]

    def fresh(self, p):
        self.n += 1
        return f'{p}{self.n}'

    def program(self):
        body = self.res(self.budget, [], [], [])
        if self.scan:
            fields = [['n', body]]
            if self.rng.random() < 0.3:
                fields.append(['m', self.res(self.budget // 2, [], [], [])])
            return ['tscan', fields]
        return ['tagg', body]

    # py: (name, type, kind); ev / iv: (name, type) variables of the eval / inner environment
    def inner(self, t, d, py, iv):
        rng = self.rng
        if d > 1 and rng.random() < self.share_p:
            st = rng.choice(['int', 'int', 'bool', ['array', 'int']])
            s = self.fresh('s')
            return ['share', s, self.inner(st, d // 2, py, iv), self.inner(t, d - 1, py + [(s, st, 'inner' if iv else 'inner0')], iv)]
        cands = [n for n, ty, k in py if ty == t and k in ('inner', 'inner0')]
        if cands and rng.random() < 0.55:
            return ['use', rng.choice(cands[-4:])]
        vc = [n for n, ty in iv if ty == t]
        if vc and rng.random() < 0.4:
            return ['var', rng.choice(vc[-3:]), t]
        if t == 'int':
            k = rng.choice(['idx', 'idx', 'lit', 'bin', 'bin', 'neg', 'len'] if d > 0 else ['idx', 'lit'])
            if k == 'idx':
                return self.row_idx(iv)
            if k == 'lit':
                return ['int', rng.choice([0, 1, 2, 3, 7, -1])]
            if k == 'bin':
                return ['bin', rng.choice(['+', '-', '*']), self.inner('int', d // 2, py, iv), self.inner('int', d // 2, py, iv)]
            if k == 'neg':
                return ['un', '-', self.inner('int', d - 1, py, iv)]
            return ['len', self.inner(['array', 'int'], d - 1, py, iv)]
        if t == 'bool':
            k = rng.choice(['cmp', 'cmp', 'not', 'lit'] if d > 0 else ['cmp0', 'lit'])
            if k == 'cmp':
                return ['cmp', rng.choice(CMP_OPS), self.inner('int', d // 2, py, iv), self.inner('int', d // 2, py, iv)]
            if k == 'cmp0':
                return ['cmp', rng.choice(CMP_OPS), self.row_idx(iv), ['int', rng.randint(0, 5)]]
            if k == 'not':
                return ['un', '!', self.inner('bool', d - 1, py, iv)]
            return ['bool', rng.random() < 0.5]
        k = rng.choice(['array', 'array', 'map'] if d > 0 else ['array'])
        if k == 'map':
            x = self.fresh('x')
            return ['map', x, self.inner(t, d // 2, py, iv), self.inner('int', d // 2, py, iv + [(x, 'int')])]
        m = rng.randint(1, 2)
        return ['array', [self.inner('int', d // (m + 1), py, iv) for _ in range(m)]]

    def evalv(self, d, py, ev):
        """an int32 value of the eval context"""
        rng = self.rng
        # 'inner0': a shared context-argument expression over the row only; under TableMapRows the row is an eval variable too,
        # so the SAME object may also be used in the eval context (it then needs a Let eval AND an AggLet)
        cands = [n for n, ty, k in py if ty == 'int' and (k == 'eval' or (k == 'inner0' and self.scan))]
        if cands and rng.random() < 0.5:
            return ['use', rng.choice(cands[-3:])]
        vc = [n for n, ty in ev if ty == 'int']
        if vc and rng.random() < 0.5:
            return ['var', rng.choice(vc[-3:]), 'int']
        if d > 0 and rng.random() < 0.4:
            return ['bin', rng.choice(['+', '*']), self.evalv(d - 1, py, ev), self.evalv(d - 1, py, ev)]
        if self.scan and self.row and rng.random() < 0.3:
            return _ROW_IDX       # TableMapRows: the row is also an eval-context variable
        return ['int', rng.randint(1, 4)]

    def ctxarg(self, t, d, py, iv):
        """a context argument: with a shared expression of the right type available, use it DIRECTLY half of the time"""
        cands = [n for n, ty, k in py if ty == t and k in ('inner', 'inner0')]
        if cands and self.rng.random() < 0.5:
            return ['use', self.rng.choice(cands[-4:])]
        return self.inner(t, d, py, iv)

    def res(self, d, py, ev, iv):
        rng, scan = self.rng, self.scan
        if d > 1 and rng.random() < self.share_p:
            kind = rng.choice(['inner', 'inner', 'inner', 'eval', 'res'])
            s = self.fresh('s')
            if kind == 'inner':
                st = rng.choice(['int', 'bool', 'bool', ['array', 'int']])
                return ['share', s, self.inner(st, d // 2, py, iv), self.res(d - 1, py + [(s, st, 'inner' if iv else 'inner0')], ev, iv)]
            if kind == 'eval':
                return ['share', s, self.evalv(2, py, ev), self.res(d - 1, py + [(s, 'int', 'eval')], ev, iv)]
            return ['share', s, self.res(d // 2, py, ev, iv), self.res(d - 1, py + [(s, 'res', 'res')], ev, iv)]
        cands = [n for n, ty, k in py if k == 'res']
        if cands and rng.random() < 0.3:
            return ['use', rng.choice(cands[-3:])]
        k = rng.choice(['op', 'op', 'filter', 'filter', 'explode', 'groupby', 'arrayper', 'agglet', 'tuple', 'tuple', 'bind', 'evtuple']
                       if d > 0 else ['op'])
        h = d // 2
        if k == 'evtuple':      # an aggregation result next to a plain eval-context value
            return ['tuple', [self.res(d - 1, py, ev, iv), self.evalv(1, py, ev)]]
        if k == 'op':
            op = rng.choice(['Count', 'Collect', 'Take', 'Sum'])
            if op == 'Count':
                return ['aggop', scan, 'Count', [], []]
            if op == 'Collect':
                return ['aggop', scan, 'Collect', [], [self.ctxarg(rng.choice(['int', 'bool']), h, py, iv)]]
            if op == 'Take':
                return ['aggop', scan, 'Take', [self.evalv(1, py, ev)], [self.ctxarg(rng.choice(['int', 'bool']), h, py, iv)]]
            return ['aggop', scan, 'Sum', [], [['cast64', self.ctxarg('int', h, py, iv)]]]
        if k == 'filter':
            return ['aggfilter', scan, self.ctxarg('bool', h, py, iv), self.res(d - 1, py, ev, iv)]
        if k == 'groupby':
            return ['agggroupby', scan, self.ctxarg(rng.choice(['int', 'bool']), h, py, iv), self.res(d - 1, py, ev, iv)]
        if k == 'explode':
            x = self.fresh('e')
            return ['aggexplode', scan, x, self.ctxarg(['array', 'int'], h, py, iv), self.res(d - 1, py, ev, iv + [(x, 'int')])]
        if k == 'arrayper':
            e, i = self.fresh('el'), self.fresh('i')
            return ['aggarrayper', scan, e, i, self.ctxarg(['array', 'int'], h, py, iv),
                    self.res(d - 1, py, ev + [(i, 'int')], iv + [(e, 'int')])]
        if k == 'agglet':
            x = self.fresh('a')
            t = rng.choice(['int', 'bool', ['array', 'int']])
            return ['agglet', scan, x, self.ctxarg(t, h, py, iv), self.res(d - 1, py, ev, iv + [(x, t)])]
        if k == 'tuple':
            m = rng.randint(2, 3)
            return ['tuple', [self.res(d // m, py, ev, iv) for _ in range(m)]]
        x = self.fresh('b')
        return ['bind', x, self.evalv(2, py, ev), self.res(d - 1, py, ev + [(x, 'int')], iv)]


def agg_targeted_program(rng):
    """One expression shared by two or three aggregations, sitting AT the context argument itself or ONE LEVEL BELOW it, for
    every kind of context argument, for aggregations and scans, at top level or nested inside an outer AggFilter / AggExplode /
    AggLet / AggArrayPerElement (the shared expression then may use the variable that node binds)."""
    scan = rng.random() < 0.5
    outer = rng.choice(['none', 'none', 'filter', 'explode', 'agglet', 'arrayper', 'groupby'])
    base = _ROW_IDX
    if outer in ('explode', 'agglet', 'arrayper') and rng.random() < 0.7:
        base = ['bin', '+', ['var', 'o', 'int'], _ROW_IDX] if rng.random() < 0.5 else ['var', 'o', 'int']
    t = rng.choice(['bool', 'int', 'arr'])
    if t == 'bool':
        shared = ['cmp', rng.choice(CMP_OPS), base, ['int', rng.randint(0, 5)]]
        below = lambda u: rng.choice([['un', '!', u], ['un', '!', ['un', '!', u]]])  # noqa: E731
    elif t == 'int':
        shared = ['bin', rng.choice(['+', '*', '-']), base, ['int', rng.randint(1, 5)]]
        below = lambda u: rng.choice([['un', '-', u], ['bin', '+', u, ['int', 1]], ['bin', '*', u, u]])  # noqa: E731
    else:
        shared = ['array', [base, ['bin', '+', base, ['int', 1]]]]
        below = lambda u: rng.choice([['map', 'x', u, ['bin', '+', ['var', 'x', 'int'], ['int', 1]]],  # noqa: E731
                                      ['filter', 'x', u, ['bool', True]]])
    u = ['use', 'S']

    def op():
        return rng.choice([['aggop', scan, 'Count', [], []], ['aggop', scan, 'Sum', [], [['cast64', _ROW_IDX]]],
                           ['aggop', scan, 'Collect', [], [_ROW_IDX]], ['aggop', scan, 'Take', [['int', 2]], [_ROW_IDX]]])

    def occurrence(direct):
        a = u if direct else below(u)
        if t == 'bool':
            k = rng.choice(['filter', 'filter', 'filter', 'groupby', 'seq', 'agglet'])
        elif t == 'int':
            k = rng.choice(['groupby', 'groupby', 'seq', 'seq', 'agglet'])
        else:
            k = rng.choice(['explode', 'explode', 'arrayper', 'arrayper', 'agglet'])
        if k == 'filter':
            return ['aggfilter', scan, a, op()]
        if k == 'groupby':
            return ['agggroupby', scan, a, op()]
        if k == 'seq':
            return ['aggop', scan, 'Collect', [], [a]] if t != 'int' or rng.random() < 0.5 else ['aggop', scan, 'Sum', [], [['cast64', a]]]
        if k == 'explode':
            x = 'e%d' % rng.randint(1, 9)
            return ['aggexplode', scan, x, a, rng.choice([op(), ['aggop', scan, 'Collect', [], [['var', x, 'int']]]])]
        if k == 'arrayper':
            return ['aggarrayper', scan, 'el', 'i', a, rng.choice([op(), ['aggop', scan, 'Sum', [], [['cast64', ['var', 'el', 'int']]]]])]
        return ['agglet', scan, 'w', a, ['aggop', scan, 'Collect', [], [['var', 'w', {'bool': 'bool', 'int': 'int', 'arr': ['array', 'int']}[t]]]]]

    pattern = rng.choice([[True, True], [True, True, True], [True, False], [False, True], [False, False], [True, True, False]])
    occ = [occurrence(dr) for dr in pattern]
    if rng.random() < 0.3:      # one use deeper: under a further aggregation node
        occ.append(['aggfilter', scan, ['cmp', '<', _ROW_IDX, ['int', 7]], occurrence(rng.random() < 0.5)])
    rng.shuffle(occ)
    body = ['share', 'S', shared, ['tuple', occ]]
    if outer == 'filter':
        body = ['aggfilter', scan, ['cmp', '>', _ROW_IDX, ['int', 0]], body]
    elif outer == 'groupby':
        body = ['agggroupby', scan, ['bin', '%', _ROW_IDX, ['int', 2]], body]
    elif outer == 'explode':
        body = ['aggexplode', scan, 'o', ['array', [_ROW_IDX, ['int', 1]]], body]
    elif outer == 'agglet':
        body = ['agglet', scan, 'o', ['bin', '*', _ROW_IDX, ['int', 2]], body]
    elif outer == 'arrayper':
        body = ['aggarrayper', scan, 'o', 'oi', ['array', [_ROW_IDX, ['int', 1]]], body]
    if rng.random() < 0.25:
        body = ['tuple', [body, op()]]
    return ['tscan', [['n', body]]] if scan else ['tagg', body]


def streamagg_program(rng):
    """Aggregations / scans over a STREAM inside plain value IR (StreamAgg / StreamAggScan, what `array.aggregate(..)` /
    `hl.array_scan`-style expressions build): one StreamAgg(Scan) OBJECT, whose body uses eval-context variables bound outside it
    (a let-bound value, the variable of an enclosing loop) next to its aggregations, is used twice or more below those binders.
    Binder names come from a two-name pool, so an inner binder may shadow an outer one."""
    scanv = rng.random() < 0.35
    g = AggGen(rng, scanv, budget=rng.choice([2, 3, 4, 6]), share_p=0.2, row=False)
    pool = ['n', 'm']
    outer = []                      # binders between the root and the uses, outermost first
    for _ in range(rng.randint(0, 3)):
        outer.append((rng.choice(['bind', 'bind', 'map']), rng.choice(pool)))
    ev = [(v, 'int') for v in sorted({v for _, v in outer})]
    x = 'x'
    body = g.res(g.budget, [], ev + ([(x, 'int')] if scanv else []), [(x, 'int')])
    src = ['array', [['int', rng.randint(0, 3)] for _ in range(rng.randint(1, 3))]]
    if ev and rng.random() < 0.3:
        src = ['array', [['var', rng.choice(ev)[0], 'int'], ['int', 1]]]
    sdef = ['streamaggscan' if scanv else 'streamagg', x, src, body]
    u = ['use', 'S']
    uses = [u, u] + [rng.choice([u, ['tuple', [u, ['int', 0]]], ['tuple', [u]]]) for _ in range(rng.randint(0, 2))]
    core = ['tuple', uses]
    for kind, v in reversed(outer):
        if kind == 'bind':
            core = ['bind', v, ['int', rng.randint(1, 3)], core]
        else:
            core = ['map', v, ['array', [['int', 1], ['int', 2]]], core]
    return ['share', 'S', sdef, core]
