"""C36 implementation side, Table / MatrixTable level: build table programs (c36_tlang.py) through the REAL hail front end of
$VERIF_REPO with a fake context (no backend: nothing is executed) and report, for the resulting table / matrix table and for
every intermediate one,
  * the type the front end reports (Table.row / key / globals dtypes; MatrixTable row / col / entry / key dtypes) and the
    dtype of every lookup expression;
  * the relational IR it emits, in neutral form (generated names renumbered in order of first occurrence);
  * the IR's own type: cached ([tir.typ]) and recomputed from scratch on a deep copy-free second pass
    ([compute_type(deep_typecheck=True)], which re-types every value IR in the environment its node binds and checks every
    declared reference type).
"""
import json
import logging
import sys
import traceback

import c36_types as T          # loads hail through the loader (its main() is guarded)
from c36_types import hl, ir, Outside, type_to_neutral, export_ir, where_raised, uid_name


def install_fake_context():
    """The minimal context the front end needs to BUILD Table / MatrixTable objects (harness code, not repo code)."""
    from hail.utils.java import Env

    class FakeBackend:
        logger = logging.getLogger('c36-fake-backend')

        def __getattr__(self, n):
            raise RuntimeError(f'backend.{n} needed: only IR construction is possible here')

    class FakeHC:
        _backend = FakeBackend()
        _default_ref = None
        default_reference = None
        _tmpdir = '/tmp'
        _warn_entries_order = False
        _warn_cols_order = False

    Env._hc = FakeHC()


install_fake_context()


class Rejected(Exception):
    def __init__(self, ex):
        self.ex = ex


REJECTIONS = (TypeError, hl.expr.ExpressionException, NotImplementedError, KeyError, IndexError, ValueError, LookupError, AttributeError)


def ttype_neutral(t):
    return {'kind': 't', 'glob': type_to_neutral(t.global_type)[1], 'row': type_to_neutral(t.row_type)[1], 'key': list(t.row_key)}


def mtype_neutral(t):
    return {'kind': 'm', 'glob': type_to_neutral(t.global_type)[1], 'col': type_to_neutral(t.col_type)[1], 'colkey': list(t.col_key),
            'row': type_to_neutral(t.row_type)[1], 'rowkey': list(t.row_key), 'entry': type_to_neutral(t.entry_type)[1]}


def reported(obj):
    """What the user sees: the dtypes of the structs the object hands out."""
    if isinstance(obj, hl.Table):
        return {'kind': 't', 'glob': type_to_neutral(obj.globals.dtype)[1], 'row': type_to_neutral(obj.row.dtype)[1], 'key': list(obj.key)}
    return {'kind': 'm', 'glob': type_to_neutral(obj.globals.dtype)[1], 'col': type_to_neutral(obj.col.dtype)[1], 'colkey': list(obj.col_key),
            'row': type_to_neutral(obj.row.dtype)[1], 'rowkey': list(obj.row_key), 'entry': type_to_neutral(obj.entry.dtype)[1]}


def rel_ir(obj):
    return obj._tir if isinstance(obj, hl.Table) else obj._mir


def export_rel(x, names):
    """Relational IR -> neutral [head, children]; value-IR children through export_ir."""
    c = type(x).__name__
    u = lambda s: uid_name(s, names)  # noqa: E731
    v = lambda y: export_ir(y, names)  # noqa: E731
    r = lambda y: export_rel(y, names)  # noqa: E731
    if c == 'TableRange':
        return [['TableRange'], []]
    if c == 'TableKeyBy':
        if x.is_sorted:
            raise Outside('TableKeyBy is_sorted')
        return [['TableKeyBy', [u(k) for k in x.keys]], [r(x.child)]]
    if c == 'TableMapRows':
        return [['TableMapRows'], [r(x.child), v(x.new_row)]]
    if c == 'TableMapGlobals':
        return [['TableMapGlobals'], [r(x.child), v(x.new_globals)]]
    if c == 'TableFilter':
        return [['TableFilter'], [r(x.child), v(x.pred)]]
    if c == 'TableOrderBy':
        return [['TableOrderBy', [[u(f), o] for f, o in x.sort_fields]], [r(x.child)]]
    if c == 'TableUnion':
        return [['TableUnion'], [r(ch) for ch in x.children]]
    if c == 'TableKeyByAndAggregate':
        return [['TableKeyByAndAggregate'], [r(x.child), v(x.expr), v(x.new_key)]]
    if c == 'TableLeftJoinRightDistinct':
        return [['TableLeftJoinRightDistinct', u(x.root)], [r(x.left), r(x.right)]]
    if c == 'TableIntervalJoin':
        return [['TableIntervalJoin', u(x.root), bool(x.product)], [r(x.left), r(x.right)]]
    if c == 'TableJoin':
        return [['TableJoin', x.join_type, int(x.join_key)], [r(x.left), r(x.right)]]
    if c in ('MatrixRowsTable', 'MatrixColsTable', 'MatrixEntriesTable'):
        return [[c], [r(x.child)]]
    if c == 'MatrixRead':
        rd = x.reader
        if type(rd).__name__ != 'MatrixRangeReader' or x.drop_cols or x.drop_rows or not x.drop_row_uids or not x.drop_col_uids:
            raise Outside('MatrixRead')
        return [['MatrixRange'], []]
    if c == 'MatrixMapRows':
        return [['MatrixMapRows'], [r(x.child), v(x.new_row)]]
    if c == 'MatrixMapCols':
        return [['MatrixMapCols', None if x.new_key is None else [u(k) for k in x.new_key]], [r(x.child), v(x.new_col)]]
    if c == 'MatrixMapEntries':
        return [['MatrixMapEntries'], [r(x.child), v(x.new_entry)]]
    if c == 'MatrixMapGlobals':
        return [['MatrixMapGlobals'], [r(x.child), v(x.new_global)]]
    if c == 'MatrixKeyRowsBy':
        if x.is_sorted:
            raise Outside('MatrixKeyRowsBy is_sorted')
        return [['MatrixKeyRowsBy', [u(k) for k in x.keys]], [r(x.child)]]
    if c == 'MatrixAnnotateRowsTable':
        return [['MatrixAnnotateRowsTable', u(x.root), bool(x.product)], [r(x.child), r(x.table)]]
    if c == 'MatrixAnnotateColsTable':
        return [['MatrixAnnotateColsTable', u(x.root)], [r(x.child), r(x.table)]]
    raise Outside(f'relational IR node {c}')


def unshare(x):
    """A structurally equal copy of a relational / value IR in which no node object occurs twice and no type is cached
    (the front end re-uses e.g. the row reference of a table in several nodes; compute_type(deep) asserts that a node
    visited twice gets the same type, which is wrong for a shared node that sits under two different binders).  Declared
    types (of references) are kept: they are what the deep pass checks."""
    c = type(x).__name__
    if c == 'TopLevelReference':                   # (the repo's copy() of these three reads a non-existent attribute)
        return ir.TopLevelReference(x.name, x._typ)
    if c == 'SelectedTopLevelReference':
        return ir.SelectedTopLevelReference(x.ref.name, x._typ)
    if c == 'ProjectedTopLevelReference':
        return ir.ProjectedTopLevelReference(x.ref.name, x.field, x._typ)
    if isinstance(x, ir.IR):
        return x.copy(*[unshare(ch) if isinstance(ch, ir.BaseIR) else ch for ch in x.children])
    u = unshare
    if c == 'TableRange':
        return ir.TableRange(x.n, x.n_partitions)
    if c == 'TableKeyBy':
        return ir.TableKeyBy(u(x.child), x.keys, x.is_sorted)
    if c == 'TableMapRows':
        return ir.TableMapRows(u(x.child), u(x.new_row))
    if c == 'TableMapGlobals':
        return ir.TableMapGlobals(u(x.child), u(x.new_globals))
    if c == 'TableFilter':
        return ir.TableFilter(u(x.child), u(x.pred))
    if c == 'TableOrderBy':
        return ir.TableOrderBy(u(x.child), x.sort_fields)
    if c == 'TableUnion':
        return ir.TableUnion([u(ch) for ch in x.children])
    if c == 'TableKeyByAndAggregate':
        return ir.TableKeyByAndAggregate(u(x.child), u(x.expr), u(x.new_key), x.n_partitions, x.buffer_size)
    if c == 'TableLeftJoinRightDistinct':
        return ir.TableLeftJoinRightDistinct(u(x.left), u(x.right), x.root)
    if c == 'TableIntervalJoin':
        return ir.TableIntervalJoin(u(x.left), u(x.right), x.root, x.product)
    if c == 'TableJoin':
        return ir.TableJoin(u(x.left), u(x.right), x.join_type, x.join_key)
    if c in ('MatrixRowsTable', 'MatrixColsTable', 'MatrixEntriesTable'):
        return getattr(ir, c)(u(x.child))
    if c == 'MatrixRead':
        return x                                   # a leaf whose type was given at construction
    if c == 'MatrixMapRows':
        return ir.MatrixMapRows(u(x.child), u(x.new_row))
    if c == 'MatrixMapCols':
        return ir.MatrixMapCols(u(x.child), u(x.new_col), x.new_key)
    if c == 'MatrixMapEntries':
        return ir.MatrixMapEntries(u(x.child), u(x.new_entry))
    if c == 'MatrixMapGlobals':
        return ir.MatrixMapGlobals(u(x.child), u(x.new_global))
    if c == 'MatrixKeyRowsBy':
        return ir.MatrixKeyRowsBy(u(x.child), x.keys, x.is_sorted)
    if c == 'MatrixAnnotateRowsTable':
        return ir.MatrixAnnotateRowsTable(u(x.child), u(x.table), x.root, x.product)
    if c == 'MatrixAnnotateColsTable':
        return ir.MatrixAnnotateColsTable(u(x.child), u(x.table), x.root)
    raise Outside(f'cannot copy {c}')


class Builder:
    def __init__(self):
        self.lookups = []          # dtype of every lookup expression, in construction order
        self.steps = []            # reported type of every intermediate table / matrix table

    def expr(self, e, cur):
        prev = T.EXT.copy()
        T.EXT['rf'] = lambda p, env: cur[p[1]]
        T.EXT['lookup'] = lambda p, env: self.lookup(p, env, cur)
        T.EXT['index_globals'] = lambda p, env: self.table(p[1]).index_globals()
        try:
            return T.build(e, {})
        finally:
            T.EXT.clear()
            T.EXT.update(prev)

    def lookup(self, p, env, cur):
        how, R, keys = p[1], p[2], p[3]
        right = self.table(R)
        # the keys are expressions of the CURRENT table (build them with its hooks still installed)
        ks = [T.build(k, env) for k in keys]
        if how == 'index':
            e = right.index(*ks, all_matches=bool(p[4]))
        elif how == 'getitem':
            e = right[tuple(ks) if len(ks) != 1 else ks[0]]
        elif how == 'rows':
            e = right.index_rows(*ks)
        elif how == 'cols':
            e = right.index_cols(*ks)
        elif how == 'entries':
            n = p[4]
            e = right.index_entries(tuple(ks[:n]), tuple(ks[n:]))
        else:
            raise ValueError(how)
        try:
            self.lookups.append(type_to_neutral(e.dtype))
        except Outside:
            self.lookups.append('outside')
        return e

    def fields(self, fs, cur):
        return {f: self.expr(e, cur) for f, e in fs}

    def table(self, P):
        t = self._table(P)
        try:
            self.steps.append(reported(t))
        except Outside:
            self.steps.append('outside')
        return t

    def _table(self, P):
        k = P[0]
        if k == 'range':
            return hl.utils.range_table(P[1] if len(P) > 1 else 10)
        if k == 'mrange':
            return hl.utils.range_matrix_table(4, 3)
        t = self.table(P[1])
        if k == 'keyby':
            return t.key_by(*P[2])
        if k == 'keyby_expr':
            return t.key_by(**self.fields(P[2], t))
        if k == 'annotate':
            return t.annotate(**self.fields(P[2], t))
        if k == 'select':
            return t.select(*P[2])
        if k == 'drop':
            return t.drop(*P[2])
        if k == 'annotate_globals':
            return t.annotate_globals(**self.fields(P[2], t))
        if k == 'filter':
            return t.filter(self.expr(P[2], t))
        if k == 'order_by':
            args = []
            for x, o in P[2]:
                e = x if isinstance(x, str) else self.expr(x, t)
                args.append(hl.desc(e) if o == 'D' else (hl.asc(e) if o == 'A+' else e))     # 'A': bare name / expression, 'A+': hl.asc(..)
            return t.order_by(*args)
        if k == 'join':
            return t.join(self.table(P[2]), P[3] if len(P) > 3 else 'inner')
        if k == 'union':
            return t.union(*[self.table(Q) for Q in P[2]], unify=bool(P[3]))
        if k == 'semi_join':
            return t.semi_join(self.table(P[2]))
        if k == 'anti_join':
            return t.anti_join(self.table(P[2]))
        if k == 'group_sum':
            return t.group_by(*P[2]).aggregate(s=hl.agg.sum(t[P[3]]))
        if k == 'rows':
            return t.rows()
        if k == 'cols':
            return t.cols()
        if k == 'entries':
            return t.entries()
        if k == 'mannotate_rows':
            return t.annotate_rows(**self.fields(P[2], t))
        if k == 'mannotate_cols':
            return t.annotate_cols(**self.fields(P[2], t))
        if k == 'mannotate_entries':
            return t.annotate_entries(**self.fields(P[2], t))
        if k == 'mannotate_globals':
            return t.annotate_globals(**self.fields(P[2], t))
        if k == 'mkeyrows':
            return t.key_rows_by(*P[2])
        if k == 'mkeycols':
            return t.key_cols_by(*P[2])
        raise ValueError(f'unknown table program node {k}')


def run_table(c):
    b = Builder()
    try:
        obj = b.table(c['prog'])
    except AssertionError as ex:
        return {'rejected': 'AssertionError', 'where': where_raised(ex), 'msg': str(ex)[:300]}
    except REJECTIONS as ex:
        return {'rejected': type(ex).__name__, 'msg': str(ex)[:300], 'where': where_raised(ex)}
    out = {'lookups': b.lookups}
    x = rel_ir(obj)
    is_t = isinstance(obj, hl.Table)
    try:
        out['reported'] = reported(obj)
        out['steps'] = b.steps
        out['text'] = str(x)[:3000]
        out['typ'] = ttype_neutral(x.typ) if is_t else mtype_neutral(x.typ)
    except Outside as ex:
        return {'outside': str(ex)}
    try:
        out['ir'] = export_rel(x, {})
    except Outside as ex:
        out['ir_outside'] = str(ex)
    try:
        y = unshare(x)
    except Outside as ex:
        out['deep_outside'] = str(ex)
        return out
    if str(y) != str(x):
        return {'harness_exc': 'unshare changed the IR: ' + str(y)[:300] + ' / ' + str(x)[:300]}
    try:
        y.compute_type(True)
        out['deep'] = ttype_neutral(y._type) if is_t else mtype_neutral(y._type)
    except AssertionError as ex:
        out['deep_exc'] = {'type': 'AssertionError', 'msg': str(ex)[:300], 'where': where_raised(ex)}
    except Outside as ex:
        out['deep_outside'] = str(ex)
    except Exception as ex:  # noqa: BLE001
        out['deep_exc'] = {'type': type(ex).__name__, 'msg': str(ex)[:300], 'where': where_raised(ex)}
    return out


def main():
    req = json.load(sys.stdin)
    sys.setrecursionlimit(20000)
    res = []
    for c in req['cases']:
        try:
            res.append(run_table(c))
        except Exception as ex:  # noqa: BLE001
            res.append({'harness_exc': f'{type(ex).__name__}: {ex}', 'tb': traceback.format_exc()[-1500:]})
    json.dump({'results': res}, sys.stdout)


if __name__ == '__main__':
    main()
