"""C23 implementation side: ranged reads through the REAL AsyncFS classes.

stdin : {"cases": [case...]}
  case = {"backend": "local"|"gcs"|"s3"|"azure", "size": int, "chunk": int (azure SDK chunk size),
          "op": "open_read", "start": s, "length": l|null, "reads": [n...]}        (n = -1 or >= 0)
       | {"op": "read_from", "start": s} | {"op": "read_range", "start": s, "stop": e, "incl": bool}
stdout: {"results": [{"out": [[bytes as ints]...] | [ints] , "err": null | "eof" | "range" | "assert" | "other:<Name>", "wire": [...]}]}

local : real files in $VERIF_WORK, real LocalAsyncFS.
gcs   : real GoogleStorageAsyncFS + real GoogleStorageClient.get_object + real GetObjectStream over a fake http session
        implementing RFC 7233 (first >= size -> 416; last clamped; invalid spec ignored -> 200 full body).
s3    : real S3AsyncFS._open_from over a fake boto3 client with the same Range semantics (416 = ClientError InvalidRange).
azure : real AzureAsyncFS._open_from + real AzureReadableStream over a fake BlobClient.download_blob(offset, length)
        (offset >= size -> HttpResponseError 416; length bytes from offset otherwise; chunks() of the given chunk size).
The fakes are the trusted stand-ins for the cloud services (same semantics as coq/theories/RangedRead/Model.v).
"""
import asyncio
import io
import json
import os
import re
import sys
from concurrent.futures import ThreadPoolExecutor

import hailload
hailload.install()
import azure.core.exceptions  # noqa: E402,F401   (as modules, so that the stub classes are raisable exceptions)
import botocore.exceptions  # noqa: E402,F401
import aiohttp  # noqa: E402
from hailtop.aiotools.fs.exceptions import UnexpectedEOFError  # noqa: E402
from hailtop.aiotools.local_fs import LocalAsyncFS  # noqa: E402
from hailtop.aiocloud.aiogoogle.client.storage_client import GoogleStorageAsyncFS, GoogleStorageClient  # noqa: E402
from hailtop.aiocloud.aioaws.fs import S3AsyncFS  # noqa: E402
import hailtop.aiocloud.aioazure.fs as azm  # noqa: E402
from hailtop.aiocloud.aioazure.fs import AzureAsyncFS  # noqa: E402

WORK = os.environ.get('VERIF_WORK', '.')
POOL = ThreadPoolExecutor(max_workers=2)
_RANGE = re.compile(r'^bytes=(\d+)-(\d*)$')


def content(size):
    return bytes((7 + 3 * i) % 251 for i in range(size))


def http_range(data, header):
    """RFC 7233 single byte-range-spec.  -> (status, body)"""
    if header is None:
        return 200, data
    m = _RANGE.match(header)
    if not m:
        return 200, data                     # invalid / unsupported spec: ignored
    first = int(m.group(1))
    last = int(m.group(2)) if m.group(2) else None
    if last is not None and last < first:
        return 200, data                     # invalid spec: ignored
    if first >= len(data):
        return 416, b''
    if last is None:
        return 206, data[first:]
    return 206, data[first:min(last, len(data) - 1) + 1]


# ------------------------------------------------------------------------------------------------ GCS

class FakeStreamReader:
    def __init__(self, body):
        self._b = body
        self._p = 0

    async def read(self, n=-1):
        if n == -1:
            out = self._b[self._p:]
        else:
            out = self._b[self._p:self._p + n]
        self._p += len(out)
        return out

    async def readexactly(self, n):
        out = self._b[self._p:self._p + n]
        self._p += len(out)
        if len(out) < n:
            raise asyncio.IncompleteReadError(out, n)
        return out


class FakeResp:
    def __init__(self, body):
        self.content = FakeStreamReader(body)
        self.headers = {}

    def close(self):
        pass

    def release(self):
        pass


class FakeHttpSession:
    def __init__(self, objects, wire):
        self.objects = objects
        self.wire = wire

    async def get(self, url, **kwargs):
        hdr = (kwargs.get('headers') or {}).get('Range')
        self.wire.append(hdr)
        name = url.rsplit('/o/', 1)[1]
        if name not in self.objects:
            raise aiohttp.ClientResponseError(None, (), status=404, message='not found')
        status, body = http_range(self.objects[name], hdr)
        if status == 416:
            raise aiohttp.ClientResponseError(None, (), status=416, message='Requested range not satisfiable')
        return FakeResp(body)


def make_gcs(data, wire):
    client = object.__new__(GoogleStorageClient)
    client._session = FakeHttpSession({'obj': data}, wire)
    client._gcs_requester_pays_configuration = None
    fs = object.__new__(GoogleStorageAsyncFS)
    fs._storage_client = client
    return fs, 'gs://bucket/obj'


# ------------------------------------------------------------------------------------------------ S3

class NoSuchKey(Exception):
    pass


class FakeS3:
    class exceptions:  # noqa
        NoSuchKey = NoSuchKey

    def __init__(self, objects, wire):
        self.objects = objects
        self.wire = wire

    def get_object(self, Bucket, Key, Range=None):  # noqa
        self.wire.append(Range)
        if Key not in self.objects:
            raise NoSuchKey()
        status, body = http_range(self.objects[Key], Range)
        if status == 416:
            e = botocore.exceptions.ClientError()
            e.response = {'Error': {'Code': 'InvalidRange'}}
            raise e
        return {'Body': io.BytesIO(body)}


def make_s3(data, wire):
    fs = object.__new__(S3AsyncFS)
    fs._thread_pool = POOL
    fs._s3 = FakeS3({'obj': data}, wire)
    return fs, 's3://bucket/obj'


# ------------------------------------------------------------------------------------------------ Azure

class FakeDownloader:
    def __init__(self, data, chunk):
        self.data = data
        self.chunk = max(1, chunk)

    async def readall(self):
        return self.data

    def chunks(self):
        async def it():
            for i in range(0, len(self.data), self.chunk):
                yield self.data[i:i + self.chunk]
        return it()


class FakeBlobClient:
    def __init__(self, data, chunk, wire):
        self.data = data
        self.chunk = chunk
        self.wire = wire

    async def download_blob(self, offset=None, length=None, **kw):
        self.wire.append([offset, length])
        if offset is None:
            return FakeDownloader(self.data, self.chunk)
        if offset >= len(self.data):
            e = azure.core.exceptions.HttpResponseError()
            e.status_code = 416
            raise e
        end = len(self.data) if length is None else min(len(self.data), offset + length)
        return FakeDownloader(self.data[offset:end], self.chunk)


def make_azure(data, chunk, wire):
    fs = object.__new__(AzureAsyncFS)
    client = FakeBlobClient(data, chunk, wire)

    async def exists(url):
        return True

    async def get_blob_client(url):
        return client

    fs.exists = exists
    fs.get_blob_client = get_blob_client
    return fs, 'https://account.blob.core.windows.net/container/obj'


# ------------------------------------------------------------------------------------------------ driver

def classify(ex):
    if isinstance(ex, UnexpectedEOFError):
        return 'eof'
    if isinstance(ex, azure.core.exceptions.HttpResponseError) and getattr(ex, 'status_code', None) == 416:
        return 'range'
    if isinstance(ex, AssertionError):
        return 'assert'
    return 'other:' + type(ex).__name__


_local_fs = None
_local_files = {}


def make_local(data):
    global _local_fs
    if _local_fs is None:
        _local_fs = LocalAsyncFS(thread_pool=POOL)
    if len(data) not in _local_files:
        p = os.path.join(WORK, f'c23-obj-{len(data)}.bin')
        with open(p, 'wb') as f:
            f.write(data)
        _local_files[len(data)] = p
    return _local_fs, _local_files[len(data)]


async def run_case(c):
    data = content(c['size'])
    wire = []
    b = c['backend']
    if b == 'local':
        fs, url = make_local(data)
    elif b == 'gcs':
        fs, url = make_gcs(data, wire)
    elif b == 's3':
        fs, url = make_s3(data, wire)
    elif b == 'azure':
        fs, url = make_azure(data, c.get('chunk', 4), wire)
    else:
        raise SystemExit(f'c23_ranged: unknown backend {b}')
    if b != 'local':
        async def isfile(u):
            return True

        async def isdir(u):
            return False
        fs.isfile = isfile
        fs.isdir = isdir
    out, err = None, None
    try:
        if c['op'] == 'open_read':
            out = []
            async with await fs.open_from(url, c['start'], length=c['length']) as f:
                for n in c['reads']:
                    out.append(list(await f.read(n)))
        elif c['op'] == 'read_from':
            out = list(await fs.read_from(url, c['start']))
        elif c['op'] == 'read_range':
            out = list(await fs.read_range(url, c['start'], c['stop'], end_inclusive=c['incl']))
        else:
            raise SystemExit(f'c23_ranged: unknown op {c["op"]}')
    except Exception as ex:  # noqa
        err = classify(ex)
    return {'out': out, 'err': err, 'wire': wire}


async def main_async(req):
    res = []
    for c in req['cases']:
        res.append(await asyncio.wait_for(run_case(c), 30))
    return res


def main():
    req = json.load(sys.stdin)
    res = asyncio.run(main_async(req))
    json.dump({'results': res, 'content': {str(n): list(content(n)) for n in sorted({c['size'] for c in req['cases']})}}, sys.stdout)
    POOL.shutdown(wait=False)


main()
