"""C13 implementation side: the real gcp/azure instance-config and resource classes, loaded through the loader.

stdin {"mode": "tables"}                      -> machine / memory / disk tables read from the imported modules
stdin {"mode": "bill", "configs": [...], "jobs_for": ...}  -> per config: create(), to_dict(), JSON round trip, from_dict(),
                                                 quantified_resources of every job before and after the round trip,
                                                 res_info = the instance's resource objects (class, name, storage_in_gib / number);
                                                 config key cores_override sets cfg.cores by hand (core counts outside the tables)
"""
import json
import sys

import hailload
hailload.install()

from batch.cloud.gcp import resource_utils as g  # noqa: E402
from batch.cloud.azure import resource_utils as a  # noqa: E402
from batch.cloud.gcp.instance_config import GCPSlimInstanceConfig  # noqa: E402
from batch.cloud.azure.instance_config import AzureSlimInstanceConfig  # noqa: E402
from batch.driver.billing_manager import ProductVersions  # noqa: E402
from batch import instance_config as ic  # noqa: E402


class PV(ProductVersions):
    """every product has a latest version (the product tables live in the database)"""

    def __init__(self, missing=()):
        super().__init__({})
        self.missing = set(missing)

    def latest_version(self, product):
        if product in self.missing:
            return None
        return '1'


def valid_mcpus(max_cores):
    out = []
    c = 250
    while c <= max_cores * 1000:
        out.append(c)
        c *= 2
    return out


def tables():
    out = {'gcp': {}, 'azure': {}}
    G = out['gcp']
    G['family'] = g.GCP_MACHINE_FAMILY
    G['machines'] = [[n, p.machine_family, p.worker_type, p.cores, p.memory, 0 if p.gpu_config is None else p.gpu_config.num_gpus]
                     for n, p in g.MACHINE_TYPE_TO_PARTS.items()]
    G['mpc_mib'] = [[fam, wt, mib] for (fam, wt), mib in g.MEMORY_PER_CORE_MIB.items()]
    G['pool_cores'] = {wt: list(cs) for wt, cs in g.gcp_valid_cores_for_pool_worker_type.items()}
    pm, jm = [], []
    for wt, cs in g.gcp_valid_cores_for_pool_worker_type.items():
        for c in cs:
            mt = g.family_worker_type_cores_to_gcp_machine_type(g.GCP_MACHINE_FAMILY, wt, c)
            pm.append([wt, c, mt, mt in g.MACHINE_TYPE_TO_PARTS, g.gcp_worker_memory_per_core_mib(g.GCP_MACHINE_FAMILY, wt)])
        for mcpu in valid_mcpus(max(cs)):
            jm.append([wt, mcpu, g.gcp_cores_mcpu_to_memory_bytes(mcpu, g.GCP_MACHINE_FAMILY, wt)])
    G['pool_machine'] = pm
    G['job_memory'] = jm
    A = out['azure']
    A['machines'] = [[n, p.family, p.cores, p.memory] for n, p in a.MACHINE_TYPE_TO_PARTS.items()]
    A['mpc_mib'] = [[wt, a.azure_worker_memory_per_core_mib(wt)] for wt in a.azure_valid_cores_from_worker_type]
    A['pool_cores'] = {wt: list(cs) for wt, cs in a.azure_valid_cores_from_worker_type.items()}
    pm, jm = [], []
    for wt, cs in a.azure_valid_cores_from_worker_type.items():
        for c in cs:
            for ssd in (False, True):
                mt = a.azure_worker_properties_to_machine_type(wt, c, ssd)
                pm.append([wt, c, ssd, mt, mt in a.MACHINE_TYPE_TO_PARTS, a.azure_worker_memory_per_core_mib(wt)])
        for mcpu in valid_mcpus(max(cs)):
            jm.append([wt, mcpu, a.azure_cores_mcpu_to_memory_bytes(mcpu, wt)])
    A['pool_machine'] = pm
    A['job_memory'] = jm
    A['disk_sizes'] = {fam: [d.size_in_gib for d in disks] for fam, disks in a.azure_disks_by_disk_type.items()}
    A['disk_names'] = {fam: [d.name for d in disks] for fam, disks in a.azure_disks_by_disk_type.items()}
    lk = []
    for fam, disks in a.azure_disks_by_disk_type.items():
        pts = {0, 1, 2 ** 20}
        for d in disks:
            pts |= {d.size_in_gib - 1, d.size_in_gib, d.size_in_gib + 1}
        for p in sorted(pts):
            d = a.azure_disk_from_storage_in_gib(fam, p)
            lk.append([fam, p, None if d is None else d.size_in_gib])
    A['disk_lookup'] = lk
    return out


def fields_of(obj):
    """constructor parameter values of a resource / config object, read back from the attributes __init__ stored"""
    import inspect
    params = list(inspect.signature(type(obj).__init__).parameters)[1:]
    src_attr = {}
    import ast
    import textwrap
    tree = ast.parse(textwrap.dedent(inspect.getsource(type(obj).__init__)))
    for s in ast.walk(tree):
        if isinstance(s, ast.Assign) and isinstance(s.targets[0], ast.Attribute) and isinstance(s.value, ast.Name) and s.value.id in params:
            src_attr[s.value.id] = s.targets[0].attr
    return [getattr(obj, src_attr[p]) for p in params]


def quantify(cfg, job):
    try:
        r = cfg.quantified_resources(job[0], job[1], job[2])
        return [[q['name'], q['quantity']] for q in r]
    except AssertionError:
        return 'AssertionError'
    except Exception as e:  # noqa
        return type(e).__name__


def bill(req):
    out = []
    for c in req['configs']:
        cls = GCPSlimInstanceConfig if c['cloud'] == 'gcp' else AzureSlimInstanceConfig
        rec = {'config': {k: v for k, v in c.items() if k != 'jobs'}}
        try:
            cfg = cls.create(PV(c.get('missing_products', ())), c['machine_type'], c['preemptible'], c['local_ssd_data_disk'],
                             c['data_disk_size_gb'], c['boot_disk_size_gb'], c['job_private'], c['location'])
        except AssertionError:
            rec['create'] = 'AssertionError'
            out.append(rec)
            continue
        except Exception as e:  # noqa
            rec['create'] = type(e).__name__
            out.append(rec)
            continue
        rec['create'] = 'ok'
        override = c.get('cores_override')
        if override is not None:
            # a core count the current machine tables do not contain: the real classes and the real quantified_resources,
            # on an instance config whose `cores` attribute is set by hand (the formulas read nothing else of the machine)
            cfg.cores = int(override)
        rec['cores'] = cfg.cores
        # the instance's ACTUAL resources, read from the objects themselves (never through quantified_resources)
        rec['res_info'] = [[type(r).__name__, getattr(r, 'name', None), {a: getattr(r, a) for a in ('storage_in_gib', 'number')
                                                      if isinstance(getattr(r, a, None), int) and not isinstance(getattr(r, a), bool)}]
                           for r in cfg.resources]
        rec['memory'] = cfg.instance_memory()
        d = cfg.to_dict()
        rec['to_dict'] = d
        rec['scalar_fields'] = fields_of(cfg)[:-1]
        rec['resources'] = [[type(r).__name__, fields_of(r)] for r in cfg.resources]
        try:
            cfg2 = cls.from_dict(json.loads(json.dumps(d)))
            if override is not None:
                cfg2.cores = int(override)
            rec['reload'] = 'ok'
            rec['to_dict_again'] = cfg2.to_dict()
            rec['cores2'] = cfg2.cores
            rec['memory2'] = cfg2.instance_memory()
        except AssertionError:
            cfg2 = None
            rec['reload'] = 'AssertionError'
        except Exception as e:  # noqa
            cfg2 = None
            rec['reload'] = type(e).__name__
        rec['jobs'] = c['jobs']
        rec['billed'] = [quantify(cfg, j) for j in c['jobs']]
        rec['billed_reloaded'] = None if cfg2 is None else [quantify(cfg2, j) for j in c['jobs']]
        if rec['billed_reloaded'] == rec['billed']:
            rec['billed_reloaded'] = 'same'          # (expanded again by the caller; halves the output)
        rec['whole'] = quantify(cfg, [cfg.cores * 1000, cfg.instance_memory(), 0])
        rec['whole_reloaded'] = None if cfg2 is None else quantify(cfg2, [cfg2.cores * 1000, cfg2.instance_memory(), 0])
        out.append(rec)
    return out


def main():
    req = json.load(sys.stdin)
    if req['mode'] == 'tables':
        json.dump(tables(), sys.stdout)
    elif req['mode'] == 'bill':
        sys.stdout.write(json.dumps({'results': bill(req)}))      # ONE write: the driver runs this script unbuffered (-u)
    else:
        raise SystemExit('unknown mode')


main()
