"""C18: build pipelines with the REAL hailtop.batch DSL and submit them through the REAL ServiceBackend._async_run
with a capturing fake batch client (no network: the backend object is assembled without __init__, validate_file /
copy_from_dict / get_deploy_config / rich.track are replaced in the backend module's namespace).

Scenario:
  {token_stream: [str...]            outputs of secret_alnum_string while the jobs are created (adversarial RNG)
   jobs: [{name: str|None}], inputs: [path...], input_groups: [{ext: path}...]
   ops: [{op:'declare', job, name, members:{ext: template}} |
         {op:'command', job, segs:[['T', text] | ['R', ref]]} |
         {op:'write_output', res: ref, dest} |
         {op:'call', job, args:[ARG...], kwargs:[[key, ARG]...], fn:'f'|'g'}]      (job of kind 'py': PythonJob.call)
   ARG: ['v', const] | ['r', ref] | ['l', [ARG...]] | ['t', [ARG...]] | ['d', [[key, ARG]...]]
   jobs[i].kind == 'py' -> new_python_job; ref ['res', k, 'raw'|'str'|'repr'|'json'] = the k-th call's result / converted view
   ref: ['job', j, ident] | ['jobgroup', j, g] | ['jobgroupfile', j, g, ext] | ['input', i] | ['ingroup', k] |
        ['ingroupfile', k, ext] | ['jobobj', j] | ['batch']}
Result: constants, tokens, per-command {flat, result | error}, expected text, resource table, per-job DSL state, the
create_job calls captured from ServiceBackend._async_run.
"""
import json
import re
import shlex
import sys
import warnings

import hailload
hailload.install()
import hailtop.batch as hb  # noqa: E402
from hailtop.batch import backend as be, batch as bmod, job as jmod, resource as rmod  # noqa: E402
from hailtop.batch.exceptions import BatchException  # noqa: E402


class FakeAsyncJob:
    def __init__(self, i, kw):
        self.id = i
        self.job_id = i
        self.kw = kw


class FakeAsyncBatch:
    def __init__(self):
        self.jobs = []
        self.id = 1

    def create_job(self, **kw):
        j = FakeAsyncJob(len(self.jobs) + 1, kw)
        self.jobs.append(j)
        return j

    async def submit(self, **kw):
        return None


class FakeClient:
    def __init__(self):
        self.batches = []

    def create_batch(self, **kw):
        b = FakeAsyncBatch()
        self.batches.append(b)
        return b

    async def close(self):
        return None


CAPTURE = {}


async def _novalidate(self, uri, requester_pays_config=None):
    return None


async def _fake_copy_from_dict(*, files, **kw):
    CAPTURE['uploads'] = list(files)


class _DC:
    def external_url(self, service, path):
        return 'https://batch.invalid' + path


be.ServiceBackend.validate_file = _novalidate
be.track = lambda it, **kw: it
be.copy_from_dict = _fake_copy_from_dict
be.get_deploy_config = lambda: _DC()

# PythonJob: the loader's dill is an inert stub; record what Batch._serialize_python_to_input_file pickles (the function objects and the
# prepared (args, kwargs) of every call) and write its index into the pipe, so that the file written to the (fake) file system names it
DILLED = []


def _record_dump(obj, pipe, **kw):
    DILLED.append(obj)
    pipe.write(b'%d' % (len(DILLED) - 1))


bmod.dill.dump = _record_dump


class FakeFS:
    def __init__(self):
        self.files = {}

    async def makedirs(self, path, exist_ok=False):
        return None

    async def write(self, path, data):
        self.files[path] = bytes(data)


def py_f(*args, **kwargs):
    return 0


def py_g(a, b=None, *rest, **kw):
    return [a, b]


PY_FUNCS = {'f': py_f, 'g': py_g}


def make_backend():
    sb = object.__new__(be.ServiceBackend)
    sb._ServiceBackend__batch_client = FakeClient()
    sb._token = None
    sb._billing_project = 'verif'
    sb.remote_tmpdir = 'gs://verif-bucket/tmp'
    sb.regions = ['us-central1']
    sb._ServiceBackend__fs = FakeFS()          # only PythonJob function / argument files are written through it
    sb._requester_pays_fses = None
    sb._closed = True          # __del__/close must not touch the (absent) file systems
    return sb


class Stream:
    def __init__(self, items):
        self.items = list(items)
        self.k = 0
        self.extra = 0

    def __call__(self, n=22, **kw):
        if self.k < len(self.items):
            t = self.items[self.k]
            self.k += 1
            return t
        self.extra += 1
        return f'x{self.extra:04d}'[:n] if n >= 5 else 'x' * n


def err_class(e):
    m = str(e)
    if 'reference to a Job object' in m:
        return 'EJobRef'
    if 'reference to a Batch object' in m:
        return 'EBatchRef'
    if 'reference to a PythonResult' in m:
        return 'EPyRef'
    if m.startswith("undefined resource '__"):
        return 'EUndefined'
    if m.startswith("undefined resource '"):
        return 'EInvalid'
    return 'Other:' + type(e).__name__ + ':' + m[:80]


def run_case(scn):
    warnings.simplefilter('ignore')
    stream = Stream(scn['token_stream'])
    bmod.secret_alnum_string = stream
    CAPTURE.clear()
    sb = make_backend()
    b = hb.Batch(backend=sb, name='c18')
    jobs = [b.new_python_job(name=j.get('name')) if j.get('kind') == 'py' else b.new_job(name=j.get('name')) for j in scn['jobs']]
    results = []          # the PythonResult of the k-th call
    new_views = []        # [producer job, uid] of as_str/as_repr/as_json files created while resolving the current operation
    DILLED.clear()
    consumed = stream.k
    bmod.secret_alnum_string = Stream([])          # input roots: deterministic and distinct
    inputs = [b.read_input(p) for p in scn['inputs']]
    ingroups = [b.read_input_group(**g) for g in scn['input_groups']]
    table = {}          # uid -> description

    def describe(r):
        if r._uid in table:
            return r
        if isinstance(r, rmod.ResourceGroup):
            src = r._source
            table[r._uid] = {'uid': r._uid, 'kind': 'group', 'src': jobs.index(src) if src is not None else None,
                             'members': [f._uid for f in r._resources.values()], 'path': r._get_path(''), 'group': None}
            for f in r._resources.values():
                describe(f)
        else:
            src = r.source()
            g = r._get_resource_group() if isinstance(r, rmod.ResourceFile) else None
            table[r._uid] = {'uid': r._uid, 'kind': 'file', 'src': jobs.index(src) if src is not None else None, 'members': [],
                             'path': r._get_path(''), 'group': g._uid if g is not None else None,
                             'is_input': isinstance(r, rmod.InputResourceFile), 'input_path': getattr(r, '_input_path', None)}
            if g is not None and g._uid not in table:
                describe(g)
        return r

    def resolve(ref):
        k = ref[0]
        if k == 'job':
            return describe(jobs[ref[1]][ref[2]])
        if k == 'jobgroup':
            return describe(jobs[ref[1]][ref[2]])
        if k == 'jobgroupfile':
            return describe(jobs[ref[1]][ref[2]][ref[3]])
        if k == 'input':
            return describe(inputs[ref[1]])
        if k == 'ingroup':
            return describe(ingroups[ref[1]])
        if k == 'ingroupfile':
            return describe(ingroups[ref[1]][ref[2]])
        if k == 'res':          # the k-th PythonResult: raw, or one of its converted views
            res = describe(results[ref[1]])
            if ref[2] == 'raw':
                return res
            attr, conv = {'str': ('_str', res.as_str), 'repr': ('_repr', res.as_repr), 'json': ('_json', res.as_json)}[ref[2]]
            fresh = getattr(res, attr) is None
            view = describe(conv())
            if fresh:
                new_views.append([jobs.index(res.source()), view._uid])
            return view
        if k == 'jobobj':
            return jobs[ref[1]]
        if k == 'batch':
            return b
        raise ValueError(ref)

    for i in inputs:
        describe(i)
    for g in ingroups:
        describe(g)
    ops_out = []
    error = None
    for oi, op in enumerate(scn['ops']):
        try:
            if op['op'] == 'declare':
                jobs[op['job']].declare_resource_group(**{op['name']: op['members']})
                describe(jobs[op['job']][op['name']])
                ops_out.append({'op': 'declare', 'job': op['job'], 'group': jobs[op['job']][op['name']]._uid})
            elif op['op'] == 'command':
                j = jobs[op['job']]
                parts, expected, refs = [], [], []
                for kind, x in op['segs']:
                    if kind == 'T':
                        parts.append(x)
                        expected.append(x)
                    else:
                        r = resolve(x)
                        parts.append(f'{r}')          # exactly what an f-string does
                        if isinstance(r, rmod.PythonResult):          # a raw PythonResult in a Bash command is rejected
                            expected.append(None)
                        elif isinstance(r, rmod.Resource):
                            expected.append('${BATCH_TMPDIR}' + shlex.quote(r._get_path('')))
                            refs.append(r._uid)
                        else:
                            expected.append(None)
                flat = ''.join(parts)
                rec = {'op': 'command', 'job': op['job'], 'flat': flat, 'user_refs': refs,
                       'known': sorted(b._resource_map.keys()), 'pre_views': list(new_views),
                       'expected': None if None in expected else ''.join(expected)}
                del new_views[:]
                ops_out.append(rec)
                n_before = len(j._command)
                j.command(flat)
                rec['result'] = j._command[-1] if len(j._command) > n_before else None
            elif op['op'] == 'call':
                # PythonJob.call(f, *args, **kwargs); ARG = ['v', const] | ['r', ref] | ['l', [ARG]] | ['t', [ARG]] | ['d', [[key, ARG]]]
                j = jobs[op['job']]

                def build(a):
                    if a[0] == 'v':
                        return a[1], ['v']
                    if a[0] == 'r':
                        r = resolve(a[1])
                        return r, ['r', r._uid]
                    if a[0] in ('l', 't'):
                        xs = [build(x) for x in a[1]]
                        return (list if a[0] == 'l' else tuple)(x for x, _ in xs), [a[0], [t for _, t in xs]]
                    xs = [(key, build(x)) for key, x in a[1]]
                    return {key: x for key, (x, _) in xs}, ['d', [[key, t] for key, (_, t) in xs]]
                args = [build(a) for a in op['args']]
                kwargs = [(key, build(a)) for key, a in op['kwargs']]
                rec = {'op': 'call', 'job': op['job'], 'k': len(results), 'args': [t for _, t in args],
                       'kwargs': [[key, t] for key, (_, t) in kwargs], 'pre_views': list(new_views)}
                del new_views[:]
                ops_out.append(rec)
                res = j.call(PY_FUNCS[op.get('fn', 'f')], *[x for x, _ in args], **{key: x for key, (x, _) in kwargs})
                results.append(res)
                describe(res)
                rec['result'] = res._uid
            elif op['op'] == 'write_output':
                r = resolve(op['res'])
                b.write_output(r, op['dest'])
                ops_out.append({'op': 'write_output', 'res': r._uid, 'dest': op['dest'], 'pre_views': list(new_views)})
                del new_views[:]
        except BatchException as e:
            error = {'op_index': oi, 'class': err_class(e)}
            if ops_out and ops_out[-1].get('op') in ('command', 'call') and 'result' not in ops_out[-1]:
                ops_out[-1]['error'] = error['class']
            break
        except Exception as e:  # noqa
            error = {'op_index': oi, 'class': 'Other:' + type(e).__name__ + ':' + str(e)[:100]}
            break
    # anything created on the fly by handlers
    for r in list(b._resource_map.values()):
        if r._uid not in table:
            describe(r)
    state = []
    for j in jobs:
        state.append({'inputs': sorted(r._uid for r in j._inputs), 'outputs': sorted(r._uid for r in j._internal_outputs),
                      'deps': sorted(jobs.index(d) for d in j._dependencies), 'valid': sorted(r._uid for r in j._valid),
                      'mentioned': sorted(r._uid for r in j._mentioned), 'token': j._token, 'dirname': j._dirname,
                      'external': sorted(r._uid for r in j._external_outputs)})
    out = {'tokens': [j._token for j in jobs], 'stream_consumed': consumed, 'ops': ops_out, 'error': error,
           'table': list(table.values()), 'state': state, 'submitted': None}
    if error is None:
        try:
            b.run(wait=False, disable_progress_bar=True)
            ab = sb._ServiceBackend__batch_client.batches[0]
            by_client = {id(j._client_job._async_job): i for i, j in enumerate(jobs) if j._client_job is not None}
            sub = []
            for aj in ab.jobs:
                kw = aj.kw
                sub.append({'job': by_client.get(id(aj)), 'name': (kw.get('attributes') or {}).get('name'),
                            'parents': [by_client.get(id(p)) for p in (kw.get('parents') or [])],
                            'input_files': [list(x) for x in (kw.get('input_files') or [])],
                            'output_files': [list(x) for x in (kw.get('output_files') or [])],
                            'command': kw['command'][-1] if kw.get('command') else None,
                            'env': kw.get('env')})
            out['submitted'] = {'jobs': sub, 'uploads': CAPTURE.get('uploads', []), 'order': [j._job_id for j in jobs]}
            # PythonJob: per call, the prepared arguments that were pickled for it, the wrapper that runs it, the converted views
            files = sb._ServiceBackend__fs.files
            pycalls = []
            for ji, j in enumerate(jobs):
                for i, (res, _fid, _a, _k) in enumerate(j._function_calls if isinstance(j, jmod.PythonJob) else []):
                    hits = [p for p in files if p.endswith(f'/{j._dirname}/args/code{i}.p')]
                    prepared = DILLED[int(files[hits[0]])] if len(hits) == 1 else None
                    irf = [r for r in b._input_resources if hits and getattr(r, '_input_path', None) == hits[0]]
                    pycalls.append({'job': ji, 'index': i, 'result': res._uid, 'args_files': hits,
                                    'args_local': irf[0]._get_path('') if len(irf) == 1 else None,
                                    'prepared': json.loads(json.dumps(prepared, default=repr)) if prepared is not None else None,
                                    'views': {'json': res._json._uid if res._json is not None else None,
                                              'str': res._str._uid if res._str is not None else None,
                                              'repr': res._repr._uid if res._repr is not None else None},
                                    'wrapper': j._wrapper_code[i] if i < len(j._wrapper_code) else None})
            out['submitted']['pycalls'] = pycalls
        except Exception as e:  # noqa
            out['submitted'] = {'error': type(e).__name__ + ':' + str(e)[:200]}
    return out


def constants():
    return {'prefixes': [rmod.ResourceFile._uid_prefix, rmod.ResourceGroup._uid_prefix, rmod.PythonResult._uid_prefix,
                         jmod.Job._uid_prefix, bmod.Batch._uid_prefix],
            'patterns': [rmod.ResourceFile._regex_pattern, rmod.ResourceGroup._regex_pattern, rmod.PythonResult._regex_pattern,
                         jmod.Job._regex_pattern, bmod.Batch._regex_pattern]}


def main():
    req = json.load(sys.stdin)
    import contextlib
    import io
    res = []
    for scn in req['cases']:
        with contextlib.redirect_stdout(io.StringIO()):
            res.append(run_case(scn))
    json.dump({'constants': constants(), 'results': res}, sys.stdout)


main()
