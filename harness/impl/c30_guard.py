"""C30 implementation side, re-entrancy guard: the REAL WatchedBranch.notify_github_changed / notify_batch_changed / update /
_update run as OVERLAPPING asyncio tasks on the project's deterministic loop (harness/aio/tickloop.py).

Every call the real code makes into the fake GitHub / batch service / database / shell is a SUSPENSION POINT ("gate": the call
blocks on a future, once before and once after its effect), and the harness decides which blocked task continues.  Between two
harness actions exactly one task runs, from one gate to its next one: the atomic segments of the cooperative scheduler.

stdin: {"cases": [{"prefix": [event, ...], "schedule": [action, ...]}, ...]}
  prefix    events of harness/impl/c30_ci.py (Open / Review / Fetch / UpdateBatch / HealMerge / BatchComplete / ...), run WITHOUT gates, to
            build a world (e.g. two pull requests that are both ready to merge)
  actions   ["spawn", kind]        kind in github | batch | all: create the notification task and let it run to its first gate
            ["release", t]         task t (index in spawn order) continues from its gate to the next one
            ["fail", t]            ... the fake call task t is blocked in raises instead (a plain exception: connection lost); at a
                                   gate AFTER the call's effect this is a lost response
            ["failhttp", t]        ... raises gidgethub.HTTPException instead (an HTTP error status from GitHub / a proxy)
            ["until", t, label]    release task t until it is blocked at the gate `label` (or is done)
            ["auto", policy, n]    at most n times: release one blocked task chosen by policy fifo | lifo  (stops when none is blocked)
            ["world", event]       a GitHub / batch-service event (Push, TargetMove, BatchComplete, Review, ...) happens now
  actions that do not apply (task not blocked / unknown) are skipped and reported as such.

Output per case and per executed action: the flags, the state of every task (which sub-operation of `_update` it is inside),
the number of tasks inside a sub-operation, and the MODEL EVENTS (CI/Guard.v `sev`) the action corresponds to, derived from the
entry / exit records of the four sub-operations; plus the merges with their provenance (as c30_ci.py).
"""
import asyncio
import json
import os
import sys
import warnings

warnings.simplefilter('ignore')
sys.path.insert(0, os.path.dirname(os.path.abspath(__file__)))
import c30_ci as B  # noqa: E402   (installs the loader, the fakes and the patches of ci.github)
from aio.tickloop import TickLoop  # noqa: E402

G = B.G
SUBOPS = ['_update_github', '_update_batch', '_heal', 'try_to_merge']
KINDS = {'github': 'NGithub', 'batch': 'NBatch', 'all': 'NAll'}
CALLC = {'_update_github': 'CGithub', '_update_batch': 'CBatch', '_heal': 'CHeal', 'try_to_merge': 'CMerge'}


class Run:
    def __init__(self):
        self.gating = False
        self.gates = []          # [task, future, label]
        self.tasks = []
        self.kinds = []
        self.log = []            # (kind, tid, name, flags, raised)
        self.cur = {}            # tid -> name of the sub-operation it is inside


R = None


def tid_of(task):
    for i, t in enumerate(R.tasks):
        if t is task:
            return i
    return None


async def gate(label):
    if R is None or not R.gating:
        return
    t = asyncio.current_task()
    if tid_of(t) is None:
        return
    fut = asyncio.get_event_loop().create_future()
    R.gates.append([t, fut, label])
    await fut


def flags():
    wb = B.WB
    return [bool(wb.updating), bool(wb.github_changed), bool(wb.batch_changed), bool(wb.state_changed)]


# ---------------------------------------------------------------------------------------------------- gated fakes

class GatedGH(B.FakeGH):
    async def getitem(self, url):
        await gate('gh.getitem<')
        r = await super().getitem(url)
        await gate('gh.getitem>')
        return r

    async def getiter(self, url):
        await gate('gh.getiter<')
        items = [x async for x in super().getiter(url)]
        for x in items:
            await gate('gh.getiter.item')
            yield x

    async def post(self, url, data=None):
        await gate('gh.post<' + url.split('/')[-2 if 'statuses' in url else -1])
        r = await super().post(url, data)
        await gate('gh.post>')
        return r

    async def put(self, url, data=None):
        await gate('gh.put<')
        r = await super().put(url, data)        # GitHub has performed the merge; the response is still in flight
        await gate('gh.put>')
        return r


class GatedBatch(B.FakeBatch):
    async def submit(self, **kw):
        await gate('batch.submit<')
        r = await super().submit(**kw)
        await gate('batch.submit>')
        return r

    async def status(self):
        await gate('batch.status<')
        r = await super().status()
        await gate('batch.status>')
        return r

    async def cancel(self):
        await gate('batch.cancel<')
        r = await super().cancel()
        await gate('batch.cancel>')
        return r


class GatedBatchClient(B.FakeBatchClient):
    def create_batch(self, attributes=None, callback=None, **kw):
        return GatedBatch(self.w, dict(attributes or {}))

    async def list_batches(self, q):
        await gate('batch.list<')
        items = [x async for x in super().list_batches(q)]
        for x in items:
            await gate('batch.list.item')
            yield x


class GatedDB(B.FakeDB):
    async def execute_and_fetchone(self, sql, args=None, **kw):
        await gate('db.fetchone')
        return None

    select_and_fetchone = execute_and_fetchone

    async def execute_insertone(self, *a, **k):
        await gate('db.insert')
        return None

    async def execute_many(self, *a, **k):
        await gate('db.many')
        return None


async def _gated_noop(*a, **k):
    await gate('shell')
    return None


async def _gated_rev_parse(*a, **k):
    await gate('shell.output')
    return (b'mergesha\n', b'')


G.check_shell = _gated_noop
G.check_shell_output = _gated_rev_parse
G.add_deployed_services = _gated_noop


def wrap_subops(wb):
    for name in SUBOPS:
        f = getattr(wb, name)

        def mk(name, f):
            async def wrapped(*a, **kw):
                tid = tid_of(asyncio.current_task())
                R.log.append(('enter', tid, name, flags(), False))
                prev = R.cur.get(tid)
                R.cur[tid] = name
                try:
                    r = await f(*a, **kw)
                except BaseException:
                    R.cur[tid] = prev
                    R.log.append(('exit', tid, name, flags(), True))
                    raise
                R.cur[tid] = prev
                R.log.append(('exit', tid, name, flags(), False))
                return r
            return wrapped
        setattr(wb, name, mk(name, f))


def sets_between(old, new):
    return [bool(new[i] and not old[i]) for i in (1, 2, 3)]


def bl(x):
    return 'true' if x else 'false'


def model_events(tid, entries, flags_before, spawned_kind, was_in):
    """Model events (Coq syntax) of one real atomic segment of task `tid`.
    entries: the enter/exit records of this segment; was_in: the sub-operation the task was suspended in (None for a new task)."""
    evs = []
    cur = list(flags_before)
    inside = was_in
    pending = None     # ['Start'|'Done', sets, raise]  waiting for its `op` (known at the next enter / end of segment)

    def flush(op):
        nonlocal pending
        if pending is None:
            return
        kind, sets, rs = pending
        if kind == 'Start':
            evs.append(f'Start {tid} false false false {bl(op)}')
        else:
            evs.append(f'BodyDone {tid} {bl(sets[0])} {bl(sets[1])} {bl(sets[2])} {bl(rs)} {bl(op)}')
        pending = None

    if spawned_kind is not None:
        evs.append(f'Spawn {KINDS[spawned_kind]}')
        pending = ['Start', None, False]
    last_exit = None
    for kind, t, name, fl, raised in entries:
        assert t == tid, (t, tid)
        if kind == 'enter':
            flush(op=(name == 'try_to_merge' and last_exit == '_heal'))
            inside = name
            cur = list(fl)
        else:
            assert inside == name, (inside, name)
            flush(op=False)
            pending = ['Done', sets_between(cur, fl), raised]
            last_exit = name
            inside = None
            cur = list(fl)
    flush(op=False)
    fl_now = flags()
    if inside is not None:
        s = sets_between(cur, fl_now)
        if any(s) and not (entries and entries[-1][0] == 'exit'):
            evs.append(f'BodyStep {tid} {bl(s[0])} {bl(s[1])} {bl(s[2])}')
    return evs


def observe_tasks():
    out = []
    for i, t in enumerate(R.tasks):
        if t.done():
            out.append('done')
        elif R.cur.get(i):
            out.append(CALLC[R.cur[i]])
        else:
            out.append('outside')      # blocked at a gate that is not inside a sub-operation: the model has no such state
    return out


def run_case(case):
    global R
    dl = TickLoop()
    R = Run()
    try:
        w = B.World()
        gh, bc, db = GatedGH(w), GatedBatchClient(w), GatedDB()
        B.WB = G.WatchedBranch(0, B.BRANCH, False, True, [])
        os.makedirs('repos/hail-is/hail/ci/test/resources', exist_ok=True)
        for f in ('repos/hail-is/hail/build.yaml', 'repos/hail-is/hail/ci/test/resources/build.yaml'):
            if not os.path.exists(f):
                open(f, 'w').write('steps: []\n')
        prefix_errors = []
        for ev in case.get('prefix', []):
            t = dl.spawn(B.apply_event(w, gh, bc, db, ev, 'steps'))
            dl.settle()
            assert t.done(), 'prefix event did not finish: %r' % (ev,)
            if t.exception() is not None:
                prefix_errors.append(type(t.exception()).__name__)
        wrap_subops(B.WB)
        R.gating = True
        steps = []
        flags0 = flags()
        max_in = 0

        def blocked(tid):
            return next((g for g in R.gates if g[0] is R.tasks[tid]), None) if 0 <= tid < len(R.tasks) else None

        def one(action, tid, spawned=None, fail=None):
            """run one atomic segment of task tid and record it"""
            nonlocal max_in
            before = flags()
            was_in = R.cur.get(tid) if spawned is None else None
            n0 = len(R.log)
            label = None
            if spawned is None:
                g = blocked(tid)
                R.gates.remove(g)
                label = g[2]
                if fail == 'failhttp':
                    g[1].set_exception(B.gidgethub.HTTPException('502 scripted failure at ' + g[2]))
                elif fail:
                    g[1].set_exception(B.GithubDown('scripted failure at ' + g[2]))
                else:
                    g[1].set_result(None)
            ready = [t for t in dl.ready_tasks() if t is not None]
            dl.settle()
            entries = [e for e in R.log[n0:]]
            foreign = [e for e in entries if e[1] != tid]
            evs = model_events(tid, [e for e in entries if e[1] == tid], before, spawned, was_in)
            tv = observe_tasks()
            n_in = sum(1 for x in tv if x.startswith('C'))
            max_in = max(max_in, n_in)
            t = R.tasks[tid]
            exc = None
            if t.done() and not t.cancelled() and t.exception() is not None:
                exc = type(t.exception()).__name__
            steps.append({'action': action, 'gate': label, 'flags': flags(), 'tasks': tv, 'n_in': n_in, 'model_events': evs,
                          'foreign': len(foreign), 'exc': exc, 'n_merges': len(w.merges),
                          'subops': [[e[0], e[2]] for e in entries]})

        for act in case['schedule']:
            k = act[0]
            if k == 'spawn':
                fn = {'github': B.WB.notify_github_changed, 'batch': B.WB.notify_batch_changed, 'all': B.WB.update}[act[1]]
                w.fail_after, w.fetched = None, 0
                t = dl.spawn(fn(db, bc, gh, False))
                R.tasks.append(t)
                R.kinds.append(act[1])
                one(act, len(R.tasks) - 1, spawned=act[1])
            elif k in ('release', 'fail', 'failhttp'):
                if blocked(act[1]) is None:
                    steps.append({'action': act, 'skipped': True})
                    continue
                one(act, act[1], fail=(None if k == 'release' else k))
            elif k == 'until':
                for _ in range(3000):
                    g = blocked(act[1])
                    if g is None or g[2] == act[2]:
                        break
                    one(['release', act[1]], act[1])
            elif k == 'auto':
                for _ in range(act[2]):
                    ts = [i for i in range(len(R.tasks)) if blocked(i) is not None]
                    if not ts:
                        break
                    i = ts[0] if act[1] == 'fifo' else ts[-1]
                    one(['release', i], i)
            elif k == 'world':
                t = dl.spawn(B.apply_event(w, gh, bc, db, act[1], 'steps'))
                R.gating = False
                dl.settle()
                R.gating = True
                assert t.done()
                steps.append({'action': act, 'world': True, 'flags': flags(), 'tasks': observe_tasks(),
                              'n_in': sum(1 for x in observe_tasks() if x.startswith('C')), 'model_events': [], 'n_merges': len(w.merges)})
            else:
                raise AssertionError('unknown action %r' % (act,))
        return {'flags0': flags0, 'steps': steps, 'merges': w.merges, 'max_in': max_in, 'prefix_errors': prefix_errors,
                'n_tasks': len(R.tasks), 'all_done': all(t.done() for t in R.tasks)}
    finally:
        R.gating = False
        for t in R.tasks:
            if t.done() and not t.cancelled():
                t.exception()
        try:
            dl.close()
        except Exception:  # noqa
            pass
        R = None


def main():
    req = json.load(sys.stdin)
    out = [run_case(c) for c in req['cases']]
    json.dump({'results': out}, sys.stdout)


if __name__ == '__main__':
    main()
