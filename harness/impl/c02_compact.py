"""C02: run the REAL compaction loops of batch/batch/driver/main.py (compact_agg_billing_project_users_table and
compact_agg_billing_project_users_by_date_table, loaded from $VERIF_REPO) on minisql over token-sharded tables filled directly.

stdin : {"seed": n, "cases": [{"table": "bp_user"|"by_date", "rows": [[key..., token, usage], ...]}]}
         key = [bp, user, resource_id] for bp_user, [day, bp, user, resource_id] for by_date  (bp/user: names of the runner's world)
stdout: {"results": [{"before": rows, "after": rows, "result": {...}}]}      rows sorted, same layout as the input
"""
import asyncio
import datetime
import json
import os
import sys

import hailload
hailload.install()
sys.path.insert(0, os.path.join(os.path.dirname(os.path.dirname(os.path.abspath(__file__))), 'batchdb'))
import runner  # noqa: E402
from minisql import Engine  # noqa: E402

EPOCH = datetime.date(1970, 1, 1)
TABLES = {
    'bp_user': ('aggregated_billing_project_user_resources_v3', ['billing_project', 'user', 'resource_id']),
    'by_date': ('aggregated_billing_project_user_resources_by_date_v3', ['billing_date', 'billing_project', 'user', 'resource_id']),
}


def dump(engine, which):
    name, cols = TABLES[which]
    t = engine.tables[name]
    idx = [t.colidx[c] for c in cols + ['token', 'usage']]
    out = []
    for r in t.rows:
        row = [r[i] for i in idx]
        if which == 'by_date':
            row[0] = (row[0] - EPOCH).days
        out.append(row)
    out.sort(key=lambda r: [str(type(x)) + str(x) for x in r])
    return out


async def main():
    req = json.load(sys.stdin)
    impl = runner.get_impl()
    cfg = dict(runner.DEFAULT_CONFIG)
    engine = Engine(repo=hailload.REPO, seed=int(req.get('seed', 0)))
    results = []
    for ci, case in enumerate(req['cases']):
        live = runner.Live(impl, engine, cfg, {})
        live.start(int(req.get('seed', 0)) + ci)
        which = case['table']
        name, cols = TABLES[which]
        s = engine.connect()
        for row in case['rows']:
            vals = list(row)
            if which == 'by_date':
                vals[0] = EPOCH + datetime.timedelta(days=vals[0])
            s.execute(f"INSERT INTO {name} ({', '.join('`' + c + '`' for c in cols)}, token, `usage`) VALUES ({', '.join(['%s'] * (len(cols) + 2))})",
                      tuple(vals))
        s.commit()
        s.close()
        engine.sessions[:] = []
        before = dump(engine, which)
        ent = await live.step({'op': 'compact_billing', 'table': which}, want_obs=False)
        results.append({'before': before, 'after': dump(engine, which), 'result': ent['result']})
    print(json.dumps({'results': results}))


asyncio.run(main())
