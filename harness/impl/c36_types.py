"""C36 implementation side: run the REAL hail front end of $VERIF_REPO (no backend) on
  * expression programs (see c36_lang.py for the language): report dtype, the emitted IR (neutral form), the IR's own type
    (cached and recomputed with deep_typecheck=True), or how the front end rejected the program;
  * Python values: impute_type, hl.literal (front-end check), and whether the literal can actually be encoded for the engine.
"""
import json
import math
import sys
import traceback

import hailload
hailload.install()
import hail as hl  # noqa: E402
import hail.ir as ir  # noqa: E402

FLOATS = [0.5, 1.5, 2.0, -3.25, 0.0]
STRS = ['', 'a', 'b', 'ab', 'xyz']


class Outside(Exception):
    pass


def type_to_neutral(t):
    if t == hl.tint32:
        return 'int32'
    if t == hl.tint64:
        return 'int64'
    if t == hl.tfloat32:
        return 'float32'
    if t == hl.tfloat64:
        return 'float64'
    if t == hl.tbool:
        return 'bool'
    if t == hl.tstr:
        return 'str'
    if isinstance(t, hl.tarray):
        return ['array', type_to_neutral(t.element_type)]
    if isinstance(t, hl.tinterval):
        return ['interval', type_to_neutral(t.point_type)]
    if isinstance(t, hl.tstream):
        return ['stream', type_to_neutral(t.element_type)]
    if isinstance(t, hl.tstruct):
        return ['struct', [[f, type_to_neutral(ft)] for f, ft in t.items()]]
    if isinstance(t, hl.ttuple):
        return ['tuple', [type_to_neutral(x) for x in t.types]]
    raise Outside(f'type {t}')


def mk_type(t):
    if isinstance(t, str):
        return {'int32': hl.tint32, 'int64': hl.tint64, 'float32': hl.tfloat32, 'float64': hl.tfloat64, 'bool': hl.tbool, 'str': hl.tstr}[t]
    if t[0] == 'array':
        return hl.tarray(mk_type(t[1]))
    if t[0] == 'struct':
        return hl.tstruct(**{f: mk_type(ft) for f, ft in t[1]})
    if t[0] == 'tuple':
        return hl.ttuple(*[mk_type(x) for x in t[1]])
    raise ValueError(t)


# ---- programs

def build(p, env):
    k = p[0]
    if k == 'litint':
        return hl.literal(p[1])
    if k == 'litfloat':
        return hl.literal(FLOATS[p[1]])
    if k == 'litbool':
        return hl.literal(bool(p[1]))
    if k == 'litstr':
        return hl.literal(STRS[p[1]])
    if k == 'arith':
        a, b = build(p[2], env), build(p[3], env)
        return {'+': lambda: a + b, '-': lambda: a - b, '*': lambda: a * b, '//': lambda: a // b, '/': lambda: a / b}[p[1]]()
    if k == 'neg':
        return -build(p[1], env)
    if k == 'not':
        return ~build(p[1], env)
    if k == 'cmp':
        a, b = build(p[2], env), build(p[3], env)
        return {'<': lambda: a < b, '<=': lambda: a <= b, '>': lambda: a > b, '>=': lambda: a >= b,
                '==': lambda: a == b, '!=': lambda: a != b}[p[1]]()
    if k == 'if':
        return hl.if_else(build(p[1], env), build(p[2], env), build(p[3], env))
    if k == 'bind':
        return hl.bind(lambda v: build(p[3], {**env, p[1]: v}), build(p[2], env))
    if k == 'var':
        return env[p[1]]
    if k == 'struct':
        return hl.struct(**{f: build(q, env) for f, q in p[1]})
    if k == 'field':
        return build(p[1], env)[p[2]]
    if k == 'annotate':
        return build(p[1], env).annotate(**{f: build(q, env) for f, q in p[2]})
    if k == 'select':
        return build(p[1], env).select(*p[2])
    if k == 'drop':
        return build(p[1], env).drop(*p[2])
    if k == 'array':
        return hl.array([build(q, env) for q in p[1]])
    if k == 'len':
        return hl.len(build(p[1], env))
    if k == 'index':
        return build(p[1], env)[build(p[2], env)]
    if k == 'map':
        return hl.map(lambda v: build(p[3], {**env, p[1]: v}), build(p[2], env))
    if k == 'filter':
        return hl.filter(lambda v: build(p[3], {**env, p[1]: v}), build(p[2], env))
    if k == 'fold':
        return hl.fold(lambda a, v: build(p[5], {**env, p[1]: a, p[2]: v}), build(p[4], env), build(p[3], env))
    if k == 'tuple':
        return hl.tuple([build(q, env) for q in p[1]])
    if k == 'tupleget':
        return build(p[1], env)[p[2]]
    if k == 'cast':
        return {'int32': hl.int32, 'int64': hl.int64, 'float32': hl.float32, 'float64': hl.float64}[p[1]](build(p[2], env))
    if k == 'strof':
        return hl.str(build(p[1], env))
    if k == 'concat':
        return build(p[1], env) + build(p[2], env)
    if k == 'interval':
        return hl.interval(build(p[1], env), build(p[2], env))
    if k in EXT:                          # table-level nodes (field references, lookups): see c36_tables.py
        return EXT[k](p, env)
    raise ValueError(f'unknown program node {k}')


EXT = {}
TOP_REFS = ('row', 'global', 'va', 'sa', 'g')
_BINDERS = {'Let': ['name'], 'StreamMap': ['name'], 'StreamFilter': ['name'], 'StreamFold': ['accum_name', 'value_name']}
_FN = {'toInt32': 'ToInt32', 'toInt64': 'ToInt64', 'toFloat32': 'ToFloat32', 'toFloat64': 'ToFloat64', 'concat': 'FConcat',
       'length': 'FLength', 'indexArray': 'FIndexArray', 'str': 'FStr', 'Interval': 'FInterval'}


def uid_name(s, names):
    """Generated field names (__uid_N) are renumbered in order of first occurrence, like the binder names."""
    if isinstance(s, str) and s.startswith('__uid_'):
        return ['uid', names.setdefault(s, len(names))]
    return s


def export_ir(x, names):
    """Real IR -> neutral term [head, children]; binder names are renumbered in order of first occurrence."""
    def nm(s):
        return names.setdefault(s, len(names))

    c = type(x).__name__
    if c == 'Join':                       # a lookup: rendered (and typed) as its virtual IR, GetField(Ref row, uid)
        return export_ir(x.virtual_ir, names)
    cs = list(x.children)
    if c == 'TopLevelReference':
        if x.name not in TOP_REFS:
            raise Outside(f'top-level reference {x.name}')
        return [['Ref', x.name, None], []]
    if c == 'SelectedTopLevelReference':
        c = 'SelectFields'
    if c == 'ProjectedTopLevelReference':
        c = 'GetField'
    if c == 'I32':
        h = ['I32', int(x.x)]
    elif c == 'I64':
        h = ['I64', int(x.x)]
    elif c == 'F64':
        if x.x not in FLOATS or (x.x == 0.0 and math.copysign(1, x.x) < 0):
            raise Outside(f'float {x.x}')
        h = ['F64', FLOATS.index(x.x)]
    elif c == 'Str':
        h = ['Str', STRS.index(x.x)]
    elif c == 'TrueIR':
        h = ['True']
    elif c == 'FalseIR':
        h = ['False']
    elif c == 'Apply':
        if x.function not in _FN or x.type_args:
            raise Outside(f'function {x.function}')
        h = ['Apply', _FN[x.function], type_to_neutral(x.return_type)]
    elif c == 'ApplyBinaryPrimOp':
        h = ['BinOp', x.op]
    elif c == 'ApplyUnaryPrimOp':
        h = ['UnOp', x.op]
    elif c == 'ApplyComparisonOp':
        h = ['CmpOp', x.op]
    elif c == 'If':
        h = ['If']
    elif c == 'Let':
        h = ['Let', nm(x.name)]
    elif c == 'Ref':
        h = ['Ref', nm(x.name), type_to_neutral(x._typ)]
    elif c == 'MakeStruct':
        h = ['MakeStruct', [uid_name(f, names) for f, _ in x.fields]]
    elif c == 'GetField':
        h = ['GetField', uid_name(x.name, names)]
    elif c == 'InsertFields':
        if x.field_order is not None:
            raise Outside('InsertFields with field_order')
        h = ['InsertFields', [uid_name(f, names) for f, _ in x.fields]]
    elif c == 'SelectFields':
        h = ['SelectFields', [uid_name(f, names) for f in x.fields]]
    elif c == 'MakeArray':
        h = ['MakeArray']
    elif c in ('ArrayLen', 'CastToArray', 'ToArray', 'ToStream'):
        h = [c]
    elif c in ('StreamMap', 'StreamFilter'):
        h = [c, nm(x.name)]
    elif c == 'StreamFold':
        h = ['StreamFold', nm(x.accum_name), nm(x.value_name)]
    elif c == 'MakeTuple':
        h = ['MakeTuple']
    elif c == 'GetTupleElement':
        h = ['GetTupleElement', int(x.idx)]
    elif c == 'Coalesce':
        h = ['Coalesce']
    elif c == 'NA':
        h = ['NA', type_to_neutral(x._typ)]
    elif c == 'IsNA':
        h = ['IsNA']
    elif c == 'ApplyAggOp':
        if x.agg_op != 'Sum' or x.init_op_args or len(x.seq_op_args) != 1:
            raise Outside(f'aggregator {x.agg_op}')
        h = ['AggSum']
    else:
        raise Outside(f'IR node {c}')
    return [h, [export_ir(ch, names) for ch in cs]]


def where_raised(ex):
    tb = traceback.extract_tb(ex.__traceback__)
    return [f.name for f in tb][-6:]


def run_expr(c):
    out = {}
    try:
        e = build(c['prog'], {})
    except AssertionError as ex:
        return {'rejected': 'AssertionError', 'where': where_raised(ex), 'msg': str(ex)[:200]}
    except (TypeError, hl.expr.ExpressionException, NotImplementedError, KeyError, IndexError, ValueError) as ex:
        return {'rejected': type(ex).__name__, 'msg': str(ex)[:200]}
    try:
        out['dtype'] = type_to_neutral(e.dtype)
        out['ir'] = export_ir(e._ir, {})
        out['irtyp'] = type_to_neutral(e._ir.typ)
    except Outside as ex:
        # outside the exported subset (no model counterpart): the implementation-only clause still applies - the type the front end
        # reports must be the type recomputed from the emitted IR (hail's own type equality, no export needed)
        res = {'outside': str(ex)}
        try:
            e._ir.compute_type({}, None, True)
            res['deep_equal'] = bool(e._ir._type == e.dtype and e._ir.typ == e.dtype)
            if not res['deep_equal']:
                res['types'] = [str(e.dtype), str(e._ir.typ), str(e._ir._type)]
        except AssertionError as ex2:
            res['deep_exc'] = {'type': 'AssertionError', 'msg': str(ex2)[:300], 'where': where_raised(ex2)}
        except Exception:  # noqa: BLE001  - anything else here is a limitation of the deep pass on constructs it was not written for
            pass
        res['text'] = str(e._ir)[:1500]
        return res
    out['text'] = str(e._ir)[:2000]
    try:
        e._ir.compute_type({}, None, True)
        out['deep'] = type_to_neutral(e._ir._type)
    except AssertionError as ex:
        out['deep_exc'] = {'type': 'AssertionError', 'msg': str(ex)[:300], 'where': where_raised(ex)}
    except Outside as ex:
        return {'outside': str(ex)}
    except Exception as ex:  # noqa: BLE001
        out['deep_exc'] = {'type': type(ex).__name__, 'msg': str(ex)[:300], 'where': where_raised(ex)}
    return out


# ---- Python values

def mk_value(v):
    k = v[0]
    if k == 'none':
        return None
    if k == 'bool':
        return bool(v[1])
    if k == 'int':
        return int(v[1])
    if k == 'float':
        return FLOATS[v[1]]
    if k == 'str':
        return STRS[v[1]]
    if k == 'list':
        return [mk_value(x) for x in v[1]]
    if k == 'tuple':
        return tuple(mk_value(x) for x in v[1])
    if k == 'struct':
        return hl.Struct(**{f: mk_value(x) for f, x in v[1]})
    raise ValueError(v)


def run_value(c):
    v = mk_value(c['v'])
    out = {}
    try:
        t = hl.expr.impute_type(v)
    except (hl.expr.ExpressionException, ValueError, TypeError) as ex:
        return {'impute_rejected': type(ex).__name__, 'msg': str(ex)[:200]}
    try:
        out['imputed'] = type_to_neutral(t)
    except Outside as ex:
        return {'outside': str(ex)}
    try:
        t.typecheck(v)
        out['typecheck'] = True
    except Exception as ex:  # noqa: BLE001   (the public check of "value matches type")
        out['typecheck'] = {'type': type(ex).__name__, 'msg': str(ex)[:200], 'where': where_raised(ex)}
    try:
        e = hl.literal(v)
        out['literal_dtype'] = type_to_neutral(e.dtype)
    except Exception as ex:  # noqa: BLE001
        out['literal_exc'] = {'type': type(ex).__name__, 'msg': str(ex)[:200], 'where': where_raised(ex)}
        return out
    try:
        enc = e.dtype._to_encoding(v)
        str(e._ir)                       # what is sent to the engine (EncodedLiteral renders the encoded value)
        out['encoded'] = True
    except Exception as ex:  # noqa: BLE001
        out['encode_exc'] = {'type': type(ex).__name__, 'msg': str(ex)[:200], 'where': where_raised(ex)}
        return out
    try:
        back = e.dtype._from_encoding(enc)
        out['decoded'] = True
        # the decoded value is a complete value of the type: it must encode to the same bytes
        out['reencode_same'] = bool(e.dtype._to_encoding(back) == enc)
    except Exception as ex:  # noqa: BLE001
        out['decode_exc'] = {'type': type(ex).__name__, 'msg': str(ex)[:200], 'where': where_raised(ex)}
    return out


def main():
    req = json.load(sys.stdin)
    sys.setrecursionlimit(20000)
    res = []
    for c in req['cases']:
        try:
            res.append(run_expr(c) if c['kind'] == 'expr' else run_value(c))
        except Exception as ex:  # noqa: BLE001
            res.append({'harness_exc': f'{type(ex).__name__}: {ex}', 'tb': traceback.format_exc()[-1500:]})
    json.dump({'results': res}, sys.stdout)


if __name__ == '__main__':
    main()
