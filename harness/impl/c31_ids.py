"""C31 implementation side, identifier half: the REAL hail.utils.misc.escape_id / escape_str / parsable_strings / upper_hex of
$VERIF_REPO, Python's own \\w classification of the code points that occur (the Coq model is parametric in it), and real
hail.ir nodes rendered to IR text (no backend: the nodes are only constructed and printed).

in:  {"names": [cps...], "ir": bool, "hex": [int...]}
out: {"results": [{"escape_id": cps, "esc_bt": cps, "esc": cps, "pstrings": cps, "classes": {cp: is_word}, "ir": [...]}],
      "pstrings_all": cps, "hex": [[n, upper_hex(n), upper_hex(n, 4)]...]}"""
import json
import re
import sys

from hail_values import describe_exception, cps, uncps      # installs the loader
import hail as hl
from hail import ir
from hail.utils import misc
from hail.utils.misc import escape_id, escape_str, parsable_strings, upper_hex



def classes(text_cps):
    return {str(c): bool(re.fullmatch(r'\w', chr(c))) for c in set(text_cps) if c >= 128}


def ir_texts(s):
    """[(node kind, template with {id} / {str} holes, rendered text)]: where the name must appear, escaped by which function"""
    t32 = hl.tint32
    row = ir.Ref('row', hl.tstruct(**{s: t32}))
    ms = ir.MakeStruct([(s, ir.I32(1)), ('other', ir.I32(2))])
    out = []

    def add(kind, template, node):
        out.append([kind, template, cps(str(node))])

    add('Ref', '(Ref {id})', ir.Ref(s, t32))
    add('GetField', '(GetField {id}  (Ref row))', ir.GetField(row, s))
    add('MakeStruct', '(MakeStruct  ({id}  (I32 1)) (other  (I32 2)))', ms)
    add('SelectFields', '(SelectFields ({id} other)  (MakeStruct  ({id}  (I32 1)) (other  (I32 2))))', ir.SelectFields(ms, [s, 'other']))
    add('Let', '(Let eval {id}  (I32 1) (Ref {id}))', ir.Let(s, ir.I32(1), ir.Ref(s, t32)))
    add('InsertFields', '(InsertFields  (Ref row) ({str} "other") (other  (I32 3)))',
        ir.InsertFields(row, [('other', ir.I32(3))], [s, 'other']))
    add('Str', '(Str {str})', ir.Str(s))
    return out


def run_name(n, with_ir):
    s = uncps(n)
    out = {'classes': classes(n)}
    try:
        out['escape_id'] = cps(escape_id(s))
        out['esc_bt'] = cps(escape_str(s, backticked=True))
        out['esc'] = cps(escape_str(s))
        out['pstrings'] = cps(parsable_strings([s, 'x', s]))
    except Exception as ex:  # noqa: BLE001
        out['exc'] = describe_exception(ex)
        return out
    if with_ir:
        try:
            out['ir'] = ir_texts(s)
        except Exception as ex:  # noqa: BLE001
            out['ir_exc'] = describe_exception(ex)
    return out


def main():
    req = json.load(sys.stdin)
    res = [run_name(n, bool(req.get('ir'))) for n in req['names']]
    # the functions the IR printers call are the ones of hail.utils.misc (not shadowed copies)
    same = all(getattr(m, f) is getattr(misc, f) for m in (ir.ir, ir.table_ir, ir.matrix_ir, ir.blockmatrix_ir)
               for f in ('escape_id', 'escape_str', 'parsable_strings') if hasattr(m, f)) and ir.ir.escape_id is misc.escape_id
    json.dump({'results': res, 'hex': [[n, cps(upper_hex(n)), cps(upper_hex(n, 4))] for n in req.get('hex', [])],
               'ir_uses_misc': same}, sys.stdout)


main()
