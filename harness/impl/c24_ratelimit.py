"""Run the REAL hailtop.utils.rate_limiter.RateLimiter under a fully controlled virtual clock.

Time: tick = 0.25 s (dyadic, so the float arithmetic of the real code is exact); virtual time = T0 + tick * 0.25.
The harness fires sleep timers itself (`wake i`), never early, possibly late and in any order; the clock only moves on `adv`.
An admitted entrant stays inside its `async with` body until the schedule makes it leave (`leave i kind`): the body
returns ("normal"), raises an ordinary exception ("raise"), the task is cancelled ("cancel": CancelledError reaches
__aexit__), or an enclosing `asyncio.timeout` expires ("timeout": the real asyncio.timeout machinery cancels the body
and turns the CancelledError into TimeoutError after __aexit__ ran).  `abandon i` cancels an entrant that sleeps
inside __aenter__.

stdin : {"schedules": [{"count": c, "window": w_ticks, "acts": [["enter"] | ["wake", i] | ["adv", dt] | ["leave", i, kind] | ["abandon", i], ...]}, ...]}
stdout: {"results": [{"trace": [obs after every action], "viol": [...]}]}
  obs = {"now": t, "items": [t...], "waiters": [[id, wake_tick], ...] (by id), "adm": [[id, t], ...], "inside": [id...] (admission order)}
"""
import heapq
import json
import sys

import hailload
hailload.install()
import asyncio  # noqa: E402
import time  # noqa: E402

from aio.tickloop import TickLoop  # noqa: E402
from hailtop.utils.rate_limiter import RateLimit, RateLimiter  # noqa: E402

UNIT = 0.25
T0 = 4096.0
MAX_STEPS = 2000


class Livelock(Exception):
    pass


class BodyError(Exception):
    pass


def to_tick(x):
    q = (x - T0) / UNIT
    if q != int(q):
        raise RuntimeError(f'time {x!r} is not on the tick grid')
    return int(q)


def run_schedule(dl, count, window, acts):
    dl.loop.vt = T0
    lim = RateLimiter(RateLimit(count, window * UNIT))
    tasks = []
    adm = []
    viol = []
    trace = []

    inside = []          # admitted, still in the body (admission order)
    admitted = set()
    gates, mode, timeouts, left_how = [], [], [], {}

    async def entrant(i):
        async with asyncio.timeout(None) as to:         # no deadline until the schedule says `leave i timeout`
            timeouts[i] = to
            async with lim:
                adm.append([i, to_tick(time.time())])
                admitted.add(i)
                inside.append(i)
                try:
                    await gates[i].wait()
                    if mode[i] == 'raise':
                        raise BodyError(i)
                finally:
                    inside.remove(i)

    def settle_ready():
        n = 0
        while dl.tick():
            n += 1
            if n > MAX_STEPS:
                raise Livelock()

    def timer_of(i):
        fw = getattr(tasks[i], '_fut_waiter', None)
        if fw is None:
            return None
        for h in dl.loop._scheduled:
            if not h._cancelled and h._args and h._args[0] is fw:
                return h
        return None

    def waiters():
        out = []
        for i, t in enumerate(tasks):
            if not t.done() and i not in admitted:
                h = timer_of(i)
                out.append([i, to_tick(h._when) if h is not None else None])
        return out

    def trailing(now_tick):
        return sum(1 for _, t in adm if t > now_tick - window)

    def check_prompt(k, who):
        """Promptness, judged from the admission log only: an entrant that has just tried and was sent to sleep must have
        been inadmissible (>= count admissions share a window with `now`), its timer must be set to the instant the
        oldest of the `count` most recent admissions leaves the window, and never in the past."""
        now_tick = to_tick(dl.now)
        for i, wk in waiters():
            if i != who:
                continue
            if trailing(now_tick) < count:
                viol.append({'kind': 'not-prompt', 'at': k, 'entrant': i, 'now': now_tick, 'detail': 'sent to sleep although fewer than count admissions lie in (now-window, now]',
                             'adm': list(adm)})
            elif wk is None:
                viol.append({'kind': 'not-prompt', 'at': k, 'entrant': i, 'detail': 'blocked without a timer'})
            else:
                times = sorted(t for _, t in adm)
                expect = times[-count] + window if count >= 1 and len(times) >= count else None
                if wk != expect:
                    viol.append({'kind': 'not-prompt', 'at': k, 'entrant': i, 'now': now_tick, 'timer': wk, 'earliest_possible': expect,
                                 'adm': list(adm)})

    def check_window(k):
        times = [t for _, t in adm]
        for a in times:
            n = sum(1 for t in times if a <= t < a + window)
            if n > count:
                viol.append({'kind': 'window', 'at': k, 'window_start': a, 'admissions_in_window': n, 'count': count, 'adm': list(adm)})
                return

    try:
        for k, a in enumerate(acts):
            who = None
            if a[0] == 'enter':
                who = len(tasks)
                gates.append(asyncio.Event())
                mode.append(None)
                timeouts.append(None)
                tasks.append(dl.spawn(entrant(who)))
                settle_ready()
            elif a[0] == 'wake':
                i = a[1]
                if i < len(tasks) and not tasks[i].done():
                    h = timer_of(i)
                    if h is not None and h._when <= dl.now:
                        dl.loop._scheduled.remove(h)
                        heapq.heapify(dl.loop._scheduled)
                        h._scheduled = False
                        h._run()
                        who = i
                        settle_ready()
            elif a[0] == 'adv':
                dl.loop.vt += max(0, a[1]) * UNIT
            elif a[0] == 'leave':
                i, kind = a[1], a[2]
                if i in inside:
                    left_how[i] = kind
                    if kind in ('normal', 'raise'):
                        mode[i] = kind
                        gates[i].set()
                    elif kind == 'cancel':
                        tasks[i].cancel()
                    elif kind == 'timeout':
                        timeouts[i].reschedule(dl.loop.time())      # deadline = now: asyncio.timeout expires
                    else:
                        raise ValueError(a)
                    settle_ready()
                    if i in inside or not tasks[i].done():
                        viol.append({'kind': 'raised', 'at': k, 'entrant': i, 'exc': f'body exit ({kind}) did not end the entrant'})
            elif a[0] == 'abandon':
                i = a[1]
                if i < len(tasks) and not tasks[i].done() and i not in admitted:
                    left_how[i] = 'cancel'
                    tasks[i].cancel()
                    settle_ready()
            else:
                raise ValueError(a)
            trace.append({'now': to_tick(dl.now), 'items': [to_tick(x) for x in lim._items], 'waiters': waiters(), 'adm': [list(x) for x in adm],
                          'inside': list(inside)})
            if who is not None:
                check_prompt(k, who)
            check_window(k)
            for i, t in enumerate(tasks):
                if t.done():
                    how = left_how.get(i)
                    exc = None if t.cancelled() else t.exception()
                    ok = ((how in (None, 'normal') and not t.cancelled() and exc is None)
                          or (how == 'raise' and isinstance(exc, BodyError))
                          or (how == 'cancel' and t.cancelled())
                          or (how == 'timeout' and isinstance(exc, TimeoutError)))
                    if not ok:
                        viol.append({'kind': 'raised', 'at': k, 'entrant': i, 'left': how,
                                     'exc': 'cancelled' if t.cancelled() else repr(exc)})
        # end game with asyncio's OWN timer handling: everybody must get in, each at an instant a slot frees
        n_before = len(adm)
        for _ in range(MAX_STEPS):
            settle_ready()
            nxt = dl._next_timer()
            if nxt is None:
                break
            dl.loop.vt = max(dl.loop.vt, nxt)
            dl.loop._run_once()
        else:
            raise Livelock()
        settle_ready()
        if count >= 1 and any(not t.done() and i not in admitted for i, t in enumerate(tasks)):
            viol.append({'kind': 'not-prompt', 'at': 'end', 'detail': 'entrants still blocked after all timers ran', 'adm': list(adm)})
        check_window('end')
        times = [t for _, t in adm]
        t_end = trace[-1]['now'] if trace else 0
        for j in range(n_before, len(adm)):
            # admitted either at once (its timer was already due when the end game began) or exactly when a slot freed
            if count >= 1 and adm[j][1] != t_end and (adm[j][1] - window) not in times[:j]:
                viol.append({'kind': 'not-prompt', 'at': 'end', 'detail': 'admitted at an instant at which no slot freed', 'entry': adm[j], 'adm': list(adm)})
    except Livelock:
        viol.append({'kind': 'livelock', 'detail': f'the event loop never goes idle at virtual time tick {to_tick(dl.now)} (busy retry loop)', 'adm': list(adm)})
    for t in tasks:
        if not t.done():
            t.cancel()
    for _ in range(MAX_STEPS):
        if not dl.tick():
            break
    # drop leftover timers
    for h in list(dl.loop._scheduled):
        h.cancel()
    dl.loop._scheduled.clear()
    dl.loop._timer_cancelled_count = 0
    for t in tasks:
        if t.done() and not t.cancelled():
            t.exception()
    seen, out = set(), []
    for v in viol:
        if v['kind'] not in seen:
            seen.add(v['kind'])
            out.append(v)
    return {'trace': trace, 'viol': out}


def main():
    req = json.load(sys.stdin)
    dl = TickLoop(start=T0)
    dl.patch_time()
    out = []
    try:
        for sc in req['schedules']:
            out.append(run_schedule(dl, sc['count'], sc['window'], sc['acts']))
    finally:
        dl.close()
    json.dump({'results': out}, sys.stdout)


main()
