"""Run the real PoolScheduler.compute_fair_share (the caller of _compute_fair_share) on fake pools.

stdin : {"cases": [{"instances": [[state, failed_request_count, version_offset, free_cores_mcpu], ...],
                    "users": [[running, ready], ...]}, ...]}
        state: 0 pending, 1 active, 2 inactive, 3 deleted;  version = INSTANCE_VERSION + version_offset
stdout: {"results": [{"alloc": [..] | "<ExceptionName>", "free_passed": <int passed to _compute_fair_share> | null,
                      "healthy": [indices of the instances in pool.healthy_instances_by_free_cores],
                      "tally": current_worker_version_stats.active_schedulable_free_cores_mcpu}, ...],
         "loaded_from": ..., "instance_version": INSTANCE_VERSION, "shape": {...}}

Everything that computes is the repository's own code: the real Pool object (created without __init__, the attributes
its add_instance path touches set by hand), real Pool.add_instance -> Pool.adjust_for_add_instance ->
InstanceCollection.adjust_for_add_instance -> InstanceCollectionStats.add_instance fill the healthy set and the tallies;
real Instance objects (created without __init__) supply state / failed_request_count / free_cores_mcpu /
free_cores_mcpu_nonnegative; the real PoolScheduler.compute_fair_share is called on a subclass whose only override
RECORDS the argument of _compute_fair_share and delegates to the real one.  The database is an async generator of rows.
"shape" is the AST dump of the two code fragments the Coq model (FairShare/Caller.v) transcribes.
"""
import ast
import asyncio
import collections
import json
import signal
import sys

import hailload
hailload.install()

import sortedcontainers  # noqa: E402

STATES = ['pending', 'active', 'inactive', 'deleted']
POOL_PY = 'batch/batch/driver/instance_collection/pool.py'


def shape():
    """normalised AST of compute_fair_share's body and of Pool.adjust_for_add_instance's body"""
    out = {}
    for q in ('PoolScheduler.compute_fair_share', 'Pool.adjust_for_add_instance', 'Pool.adjust_for_remove_instance'):
        try:
            _, node = hailload.load_function_source(POOL_PY, q)
            body = [s for s in node.body if not (isinstance(s, ast.Expr) and isinstance(getattr(s, 'value', None), ast.Constant))]
            out[q] = [ast.unparse(s) for s in body]
            out[q + ':async'] = isinstance(node, ast.AsyncFunctionDef)
            out[q + ':args'] = [a.arg for a in node.args.args]
        except KeyError as e:
            out[q] = f'missing: {e}'
    return out


class FakeDB:
    def __init__(self, rows):
        self.rows = rows

    def execute_and_fetchall(self, sql, args=None, query_name=None):
        rows = self.rows

        async def gen():
            for r in rows:
                yield dict(r)
        return gen()

    select_and_fetchall = execute_and_fetchall


class FakeInstanceConfig:
    def region_for(self, location):
        return location


class Timeout(Exception):
    pass


def _alarm(signum, frame):
    raise Timeout()


def main():
    req = json.load(sys.stdin)
    from batch.driver.instance_collection import pool as pool_mod
    from batch.driver.instance_collection import base as base_mod
    from batch.driver.instance import Instance
    from batch.globals import INSTANCE_VERSION

    class RecordingScheduler(pool_mod.PoolScheduler):
        def __init__(self):  # the real __init__ starts the schedule loop
            pass

        async def _compute_fair_share(self, free_cores_mcpu, *a, **k):
            self.recorded_free = free_cores_mcpu
            return await pool_mod.PoolScheduler._compute_fair_share(self, free_cores_mcpu, *a, **k)

    def make_instance(idx, state, failed, voff, free):
        inst = object.__new__(Instance)
        inst.name = f'verif-worker-{idx:04d}'
        inst._state = STATES[state]
        inst.cores_mcpu = 16000
        inst._free_cores_mcpu = free
        inst.time_created = 0
        inst._failed_request_count = failed
        inst._last_updated = idx
        inst.ip_address = '10.0.0.1'
        inst.version = INSTANCE_VERSION + voff
        inst.location = 'verif-region'
        inst.machine_type = 'verif'
        inst.preemptible = True
        inst.instance_config = FakeInstanceConfig()
        return inst

    def make_pool(instances):
        p = object.__new__(pool_mod.Pool)
        p.name = 'verif-pool'
        p.is_pool = True
        p.stats_by_instance_version = collections.defaultdict(lambda: base_mod.InstanceCollectionStats())
        p.name_instance = {}
        p.instances_by_last_updated = sortedcontainers.SortedSet(key=lambda instance: instance.last_updated)
        p.healthy_instances_by_free_cores = sortedcontainers.SortedSet(key=lambda instance: instance.free_cores_mcpu)
        for inst in instances:
            p.add_instance(inst)
        return p

    signal.signal(signal.SIGALRM, _alarm)
    loop = asyncio.new_event_loop()
    out = []
    for case in req['cases']:
        users = case['users']
        res = {'alloc': None, 'free_passed': None, 'healthy': None, 'tally': None}
        signal.alarm(20)
        try:
            instances = [make_instance(i, *spec) for i, spec in enumerate(case['instances'])]
            p = make_pool(instances)
            res['healthy'] = sorted(instances.index(w) for w in p.healthy_instances_by_free_cores)
            res['tally'] = p.current_worker_version_stats.active_schedulable_free_cores_mcpu
            s = RecordingScheduler()
            s.pool = p
            s.db = FakeDB([{'user': f'u{i:04d}', 'n_ready_jobs': 1 if rd else 0, 'ready_cores_mcpu': rd,
                            'n_running_jobs': 1 if rn else 0, 'running_cores_mcpu': rn} for i, (rn, rd) in enumerate(users)])
            r = loop.run_until_complete(s.compute_fair_share())
            res['free_passed'] = getattr(s, 'recorded_free', None)
            if not isinstance(res['free_passed'], int) or isinstance(res['free_passed'], bool):
                res['free_passed'] = repr(res['free_passed'])
            res['alloc'] = [r[f'u{i:04d}']['allocated_cores_mcpu'] for i in range(len(users))]
        except Timeout:
            res['alloc'] = 'Timeout'
        except Exception as e:  # noqa
            res['alloc'] = type(e).__name__
        finally:
            signal.alarm(0)
        out.append(res)
    sys.stdout.write(json.dumps({'results': out, 'loaded_from': 'import batch.driver.instance_collection.pool (real Pool/Instance/PoolScheduler objects)',
                                 'instance_version': INSTANCE_VERSION, 'shape': shape()}))


main()
