"""C22: run the REAL hailtop.aiotools Copier on the REAL LocalAsyncFS inside a scratch directory.

Scenario (paths are lists of ints, component i is rendered as the directory entry name f'n{i}'):
  {fs: [[path, 'D' | [bytes...]], ...]        initial tree (parents first)
   transfers: [{srcs: [[path, slash]...], is_list: bool, dest: path, dest_slash: bool, mode: 'dest_dir'|'dest_is_target'|'infer_dest'}]
   part: int, buf: int, sema: int, seed: int}
Instrumentation lives here, not in the repo: a LocalAsyncFS subclass with copy_part_size = part that logs reads/parts,
Copier.BUFFER_SIZE = buf, and `blocking_to_async` replaced by a synchronous call surrounded by a seeded random number of
event-loop yields (no threads; task interleavings vary with the seed).
Result: {result: 'ok' | <exception class name>, tree: [[path, 'D'|bytes]...] (sorted), files: {src path str: {n_parts, reads, writes, single_reads}}}
"""
import asyncio
import json
import os
import random
import shutil
import sys

import hailload
hailload.install()
from hailtop.aiotools import Copier, Transfer  # noqa: E402
from hailtop.aiotools import local_fs as lfs  # noqa: E402
from hailtop.aiotools.fs import stream as fstream  # noqa: E402
from hailtop.aiotools.local_fs import LocalAsyncFS  # noqa: E402

os.fsync = lambda fd: None          # durability is not part of the property; keeps thousands of tiny copies fast
RNG = random.Random(0)


async def fake_blocking_to_async(pool, fun, *args, **kwargs):
    for _ in range(RNG.randint(0, 3)):
        await asyncio.sleep(0)
    r = fun(*args, **kwargs)
    for _ in range(RNG.randint(0, 2)):
        await asyncio.sleep(0)
    return r


lfs.blocking_to_async = fake_blocking_to_async
fstream.blocking_to_async = fake_blocking_to_async

LOG = {}
PART = 5


def rec(url):
    return LOG.setdefault(url, {'n_parts': [], 'reads': [], 'parts': [], 'single_reads': []})


class LoggingFS(LocalAsyncFS):
    @staticmethod
    def copy_part_size(url):
        return PART

    async def open(self, url):
        s = await super().open(url)
        r = rec(url)
        orig = s.read

        async def read(n=-1):
            b = await orig(n)
            r['single_reads'].append([n, len(b)])
            return b
        s.read = read
        return s

    async def create(self, url, *, retry_writes=True):
        w = await super().create(url, retry_writes=retry_writes)
        r = rec('dest:' + url)
        r['single_writes'] = []          # a fresh 'wb' open truncates: only the last attempt counts
        pos = [0]
        wr = w.write

        async def write(b):
            n = await wr(b)
            r['single_writes'].append([pos[0], len(b)])
            pos[0] += len(b)
            return n
        w.write = write
        return w

    async def _open_from(self, url, start, *, length=None):
        rec(url)['reads'].append([start, length])
        return await super()._open_from(url, start, length=length)

    async def multi_part_create(self, sema, url, num_parts):
        mpc = await super().multi_part_create(sema, url, num_parts)
        rec('dest:' + url)['n_parts'].append(num_parts)
        orig = mpc.create_part

        async def create_part(number, start, size_hint=None):
            rec('dest:' + url)['parts'].append([number, start, size_hint])
            w = await orig(number, start, size_hint=size_hint)
            pos = [start]
            wr = w.write

            async def write(b):
                n = await wr(b)
                rec('dest:' + url).setdefault('writes', []).append([pos[0], len(b)])
                pos[0] += len(b)
                return n
            w.write = write
            return w
        mpc.create_part = create_part
        return mpc


def render(root, path, slash=False):
    p = os.path.join(root, *[f'n{c}' for c in path]) if path else root
    return p + ('/' if slash and not p.endswith('/') else '')


def unrender(root, p):
    rel = os.path.relpath(p, root)
    if rel == '.':
        return []
    try:
        return [int(c[1:]) for c in rel.split(os.sep)]
    except ValueError:
        return ['?' + rel]


def build(root, fs):
    os.makedirs(root)
    for path, e in fs:
        p = render(root, path)
        if e == 'D':
            os.makedirs(p, exist_ok=True)
        else:
            os.makedirs(os.path.dirname(p), exist_ok=True)
            with open(p, 'wb') as f:
                f.write(bytes(e))


def scan(root):
    out = []
    for d, dirs, files in os.walk(root):
        for x in dirs:
            out.append([unrender(root, os.path.join(d, x)), 'D'])
        for x in files:
            with open(os.path.join(d, x), 'rb') as f:
                out.append([unrender(root, os.path.join(d, x)), list(f.read())])
    return sorted(out, key=lambda pe: pe[0])


async def run_one(root, scn):
    global PART
    PART = scn['part']
    Copier.BUFFER_SIZE = scn['buf']
    RNG.seed(scn['seed'])
    LOG.clear()
    fs = LoggingFS(thread_pool=object())       # the pool is never used: blocking_to_async is replaced
    result = 'ok'
    try:
        transfers = []
        for t in scn['transfers']:
            srcs = [render(root, p, s) for p, s in t['srcs']]
            src = srcs if t['is_list'] else srcs[0]
            transfers.append(Transfer(src, render(root, t['dest'], t['dest_slash']), treat_dest_as=t['mode']))
        arg = transfers if len(transfers) > 1 or scn.get('as_list') else transfers[0]
        sema = asyncio.Semaphore(scn['sema'])
        async with sema:
            await asyncio.wait_for(Copier.copy(fs, sema, arg), timeout=20)
    except asyncio.TimeoutError:
        result = 'HANG'
    except Exception as e:  # noqa
        result = type(e).__name__
    log = {}
    for url, r in LOG.items():
        key = url[5:] if url.startswith('dest:') else url
        kind = 'dest' if url.startswith('dest:') else 'src'
        log.setdefault(kind, {})[json.dumps(unrender(root, key.rstrip('/')))] = r
    return {'result': result, 'tree': scan(root), 'log': log}


def main():
    req = json.load(sys.stdin)
    base = os.path.join(os.environ.get('VERIF_WORK', '.'), f'c22-scratch-{os.getpid()}')
    shutil.rmtree(base, ignore_errors=True)
    os.makedirs(base)
    out = []
    loop = asyncio.new_event_loop()
    asyncio.set_event_loop(loop)
    for i, scn in enumerate(req['cases']):
        root = os.path.join(base, f'r{i}')
        build(root, scn['fs'])
        out.append(loop.run_until_complete(run_one(root, scn)))
        shutil.rmtree(root, ignore_errors=True)
    loop.close()
    shutil.rmtree(base, ignore_errors=True)
    json.dump({'results': out}, sys.stdout)


main()
