"""Drive the real Batch.submit / Batch._submit against a recording fake BatchClient.

stdin:  {"cases": [{"g": [sizes], "j": [sizes], "mb": int|null, "ms": int|null, "created": bool, "seed": int,
                    "mode": "specs"|"api"}]}
        mode "specs": _job_group_specs/_job_specs are filled with padded specs of the prescribed serialised sizes
                      (sizes >= MIN_SIZE) and Batch._submit is called;
        mode "api":   the job groups and jobs are made with the public create_job_group/create_job (sizes give the
                      padding of attributes/command) and the public Batch.submit is called.
        mb/ms null = the client's own defaults (Batch.MAX_BUNCH_BYTESIZE / MAX_BUNCH_SIZE, read from the class).
stdout: {"results": [{"error": null|str, "mb": int, "ms": int, "gsizes": [...], "jsizes": [...],
                      "events": [{"k": code, "g": [ids], "j": [ids], "gb": [bytes], "jb": [bytes], "s": t_start, "e": t_end}]}]}
        ids: position of the spec in the original groups++jobs list (-1 = not one of the original specs);
        request codes as in Bunches/Model.v req_code: 0 batches/create, 1 updates/create, 2 commit, 3 create-fast,
        4 update-fast, 5 job-groups/create, 6 jobs/create.  t_start/t_end: logical clock (one tick per event edge).
Every request is answered after a number of event-loop turns chosen by "delay": "random" (pseudo-random from `seed`),
"decreasing" (adversarial: the later a request is started the faster it is answered, so requests that are in flight together
LAND in reverse order) or "zero".  The fake server processes a request when it LANDS (end of its delay) and applies the real
front end's rule to the specs made by the public API ("nest": "chain"|"tree"|null nests the job groups): a job group whose
in_update_parent_id has not landed yet, or a job whose in_update_job_group_id has not landed yet, is REFUSED (the request
raises, as a 400 does); refusals are returned in "refusals": [[what, id, missing id]].
"""
import asyncio
import contextlib
import json
import logging
import random
import sys

import hailload
hailload.install()
from hailtop.batch_client import aioclient  # noqa: E402
import orjson  # noqa: E402

logging.disable(logging.CRITICAL)

MIN_SIZE = 20


def spec_of_size(ident, size):
    base = len(orjson.dumps({'i': ident, 'p': ''}))
    assert size >= base, (ident, size)
    s = {'i': ident, 'p': 'x' * (size - base)}
    assert len(orjson.dumps(s)) == size
    return s


class FakeRefused(Exception):
    pass


class FakeResp:
    def __init__(self, body):
        self._body = body

    async def json(self):
        return self._body


class FakeClient:
    billing_project = 'verif'

    def __init__(self, index, rng, delay='random'):
        self.delay = delay
        self.n_req = 0
        self.received_groups = set()     # in-update job group ids that have landed
        self.refusals = []
        self.events = []
        self.clock = 0
        self.index = index       # serialised original spec -> position
        self.rng = rng

    def _ids(self, specs):
        ids, sizes = [], []
        for s in specs:
            b = orjson.dumps(s)
            ids.append(self.index.get(b, -1))
            sizes.append(len(b))
        return ids, sizes

    def _tick(self):
        self.clock += 1
        return self.clock

    async def _request(self, code, groups, jobs, answer):
        g, gb = self._ids(groups)
        j, jb = self._ids(jobs)
        ev = {'k': code, 'g': g, 'j': j, 'gb': gb, 'jb': jb, 's': self._tick(), 'e': None}
        self.events.append(ev)
        k = self.n_req
        self.n_req += 1
        turns = {'zero': 0, 'decreasing': max(1, 40 - 5 * k)}.get(self.delay)
        if turns is None:
            turns = self.rng.choice([0, 1, 1, 2, 3, 5, 8])
        for _ in range(turns):
            await asyncio.sleep(0)
        # the request LANDS: the server processes it now
        ev['e'] = self._tick()
        for spec in groups:
            if isinstance(spec, dict) and 'job_group_id' in spec:
                p = spec.get('in_update_parent_id')
                if p is not None and p != 0 and p not in self.received_groups:
                    self.refusals.append(['job-group-before-parent', spec['job_group_id'], p])
                    raise FakeRefused(f'job group {spec["job_group_id"]}: parent {p} unknown')
                self.received_groups.add(spec['job_group_id'])
        for spec in jobs:
            if isinstance(spec, dict) and 'job_id' in spec:
                gid = spec.get('in_update_job_group_id')
                if gid is not None and gid != 0 and gid not in self.received_groups:
                    self.refusals.append(['job-before-job-group', spec['job_id'], gid])
                    raise FakeRefused(f'job {spec["job_id"]}: job group {gid} unknown')
        return FakeResp(answer)

    async def _post(self, url, data=None, json=None, **kwargs):  # noqa: A002  pylint: disable=redefined-outer-name
        body = None
        if data is not None:
            body = bytes(data._value)
        if url.endswith('/batches/create'):
            n = (json or {}).get('n_jobs', 0) + (json or {}).get('n_job_groups', 0)
            return await self._request(0, [], [], {'id': 7, 'update_id': 1 if n > 0 else None})
        if url.endswith('/updates/create'):
            return await self._request(1, [], [], {'update_id': 2})
        if url.endswith('/create-fast'):
            doc = orjson.loads(body)
            return await self._request(3, doc['job_groups'], doc['bunch'], {'id': 7, 'start_job_group_id': 1, 'start_job_id': 1})
        if url.endswith('/update-fast'):
            doc = orjson.loads(body)
            return await self._request(4, doc['job_groups'], doc['bunch'], {'start_job_group_id': 1, 'start_job_id': 1})
        if url.endswith('/job-groups/create'):
            return await self._request(5, orjson.loads(body), [], {})
        if url.endswith('/jobs/create'):
            return await self._request(6, [], orjson.loads(body), {})
        raise AssertionError('unexpected POST ' + url)

    async def _patch(self, url, **kwargs):
        assert url.endswith('/commit'), url
        return await self._request(2, [], [], {'start_job_group_id': 1, 'start_job_id': 1})


class FakeTask:
    def update(self, *args, **kwargs):
        pass


class FakeProgress:
    @contextlib.contextmanager
    def with_task(self, *args, **kwargs):
        yield FakeTask()


class Stub:
    def _submit(self, *args, **kwargs):
        pass


def run_case(case):
    rng = random.Random(case.get('seed', 0))
    created = bool(case['created'])
    mb = case['mb'] if case.get('mb') is not None else aioclient.Batch.MAX_BUNCH_BYTESIZE
    ms = case['ms'] if case.get('ms') is not None else aioclient.Batch.MAX_BUNCH_SIZE
    index = {}
    client = FakeClient(index, rng, case.get('delay', 'random'))
    batch = aioclient.Batch(client, 7 if created else None, token='t')
    g, j = case['g'], case['j']
    if case.get('mode', 'specs') == 'api':
        jgs = []
        for i, s in enumerate(g):
            nest = case.get('nest')
            parent = batch if (not nest or i == 0) else jgs[i - 1] if nest == 'chain' else jgs[(i - 1) // 2]
            jgs.append(parent.create_job_group(attributes={'p': 'x' * s}))
        for i, s in enumerate(j):
            parent = jgs[i % len(jgs)] if jgs else batch
            parent.create_job('img', ['echo', 'x' * s])
        gspecs, jspecs = list(batch._job_group_specs), list(batch._job_specs)
    else:
        gspecs = [spec_of_size(i, s) for i, s in enumerate(g)]
        jspecs = [spec_of_size(len(g) + i, s) for i, s in enumerate(j)]
        batch._job_group_specs = list(gspecs)
        batch._job_specs = list(jspecs)
        batch._job_groups = [Stub() for _ in gspecs]
        batch._jobs = [Stub() for _ in jspecs]
    for i, s in enumerate(gspecs + jspecs):
        b = orjson.dumps(s)
        assert b not in index, 'specs must be pairwise distinct'
        index[b] = i
    out = {'error': None, 'mb': mb, 'ms': ms,
           'gsizes': [len(orjson.dumps(s)) for s in gspecs], 'jsizes': [len(orjson.dumps(s)) for s in jspecs]}

    async def go():
        if case.get('mode', 'specs') == 'api':
            await asyncio.wait_for(batch.submit(mb, ms, True, progress=FakeProgress()), 60)
        else:
            await asyncio.wait_for(batch._submit(mb, ms, True, FakeProgress()), 60)

    try:
        asyncio.run(go())
    except AssertionError as e:
        out['error'] = 'AssertionError'
    except Exception as e:  # noqa
        out['error'] = type(e).__name__
    out['events'] = client.events
    out['refusals'] = client.refusals
    return out


def main():
    req = json.load(sys.stdin)
    json.dump({'results': [run_case(c) for c in req['cases']]}, sys.stdout)


main()
