"""C34 implementation-side runner: the REAL hail.expr.types.tcall / hail.genetics.Call under the loader (no JVM).

stdin : {"ops": [{"op": "encode", "calls": [[alleles, phased], ...]}, {"op": "decode", "ints": [...]},
                 {"op": "sqrt", "is": [...]}, {"op": "gtindex", "calls": [...]}, {"op": "init", "calls": [...]},
                 {"op": "sqrt_boundaries", "kmax": K}, {"op": "sqrt_sweep", "lo": a, "hi": b}]}
stdout: {"results": [...]} one entry per op.  Exceptions are reported as "error:<ExceptionType>".
"""
import json
import struct
import sys

import hailload

hailload.install()
import hail  # noqa: E402,F401
from hail.expr import types as T  # noqa: E402
from hail.genetics import Call  # noqa: E402
from hail.utils.byte_reader import ByteReader, ByteWriter  # noqa: E402

tcall = T.tcall


def err(e):
    return 'error:' + type(e).__name__


def mk(c):
    return Call(list(c[0]), bool(c[1]))


def encode(c):
    try:
        b = bytearray()
        tcall._convert_to_encoding(ByteWriter(b), mk(c))
        if len(b) != 4:
            return 'error:length'
        return struct.unpack('=i', bytes(b))[0]
    except Exception as e:  # noqa: BLE001
        return err(e)


def decode(v):
    try:
        c = tcall._convert_from_encoding(ByteReader(memoryview(struct.pack('=i', v))))
        return [list(c.alleles), bool(c.phased)]
    except Exception as e:  # noqa: BLE001
        return err(e)


def sqrt_pair(i):
    try:
        p = T.allele_pair_sqrt(i)
        return [p & 0xFFFF, (p >> 16) & 0xFFFF, p]
    except Exception as e:  # noqa: BLE001
        return err(e)


def gtindex(c):
    try:
        v = mk(c).unphased_diploid_gt_index()
        return [type(v).__name__, int(v), bool(v == int(v))]
    except Exception as e:  # noqa: BLE001
        return err(e)


def init(c):
    try:
        x = mk(c)
        return [list(x.alleles), bool(x.phased), int(x.ploidy)]
    except Exception as e:  # noqa: BLE001
        return err(e)


def sqrt_boundaries(kmax):
    """allele_pair_sqrt at every triangular-number boundary below 2^29: returns the failing i (should be none)."""
    bad = []
    n = 0
    lim = 1 << 29
    for k in range(0, kmax + 1):
        t = k * (k + 1) // 2
        for i in (t - 1, t, t + 1, t + k):
            if 36 <= i < lim:
                n += 1
                # expected by integer arithmetic only
                kk = k if i >= t else k - 1
                tt = kk * (kk + 1) // 2
                if i - tt > kk:
                    kk += 1
                    tt = kk * (kk + 1) // 2
                exp = (i - tt) | (kk << 16) if kk <= 0xFFFF else None
                try:
                    got = T.allele_pair_sqrt(i)
                except Exception as e:  # noqa: BLE001
                    got = err(e)
                if got != exp:
                    bad.append([i, exp, got])
                    if len(bad) > 20:
                        return {'n': n, 'bad': bad}
    return {'n': n, 'bad': bad}


def sqrt_sweep(lo, hi):
    """every i in [lo, hi): the float expression of allele_pair_sqrt (vectorised with numpy float64, the same IEEE
    operations math.sqrt performs) against exact integer arithmetic."""
    import numpy as np
    bad = []
    step = 1 << 24
    n = 0
    for a in range(lo, hi, step):
        b = min(hi, a + step)
        i = np.arange(a, b, dtype=np.int64)
        k = (np.sqrt(8 * i.astype(np.float64) + 1) / 2 - 0.5).astype(np.int64)     # int() truncates; values are >= 0
        t = k * (k + 1) // 2
        ok = (t <= i) & (i - t <= k)
        n += int(b - a)
        if not bool(ok.all()):
            idx = np.nonzero(~ok)[0][:10]
            bad += [[int(i[x]), int(k[x])] for x in idx]
            if len(bad) > 20:
                break
    # spot-check that the vectorised expression is the function's: compare on a sample with the real function
    import random
    rnd = random.Random(lo ^ hi)
    for _ in range(2000):
        x = rnd.randrange(max(lo, 36), hi) if hi > max(lo, 36) else None
        if x is None:
            break
        kk = int((np.sqrt(8 * np.float64(x) + 1) / 2 - 0.5))
        p = T.allele_pair_sqrt(x)
        if (p >> 16) & 0xFFFF != kk and kk <= 0xFFFF:
            bad.append([x, 'vectorised!=function', kk, p])
    return {'n': n, 'bad': bad}


def main():
    req = json.load(sys.stdin)
    out = []
    for o in req['ops']:
        op = o['op']
        if op == 'encode':
            out.append([encode(c) for c in o['calls']])
        elif op == 'decode':
            out.append([decode(v) for v in o['ints']])
        elif op == 'sqrt':
            out.append([sqrt_pair(i) for i in o['is']])
        elif op == 'gtindex':
            out.append([gtindex(c) for c in o['calls']])
        elif op == 'init':
            out.append([init(c) for c in o['calls']])
        elif op == 'sqrt_boundaries':
            out.append(sqrt_boundaries(o['kmax']))
        elif op == 'sqrt_sweep':
            out.append(sqrt_sweep(o['lo'], o['hi']))
        else:
            raise SystemExit(f'unknown op {op}')
    json.dump({'results': out}, sys.stdout)


main()
