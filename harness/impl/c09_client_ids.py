"""C09 smoke test: the REAL client classes (hailtop.batch_client.aioclient Batch / Job / JobGroup) build two successive
updates of one batch offline; only Batch._submit (the network part) is replaced by a stub returning the start ids the
server would answer.  Output per update: the specs the server would receive (relative ids, relative / absolute group and
parent references) and the absolute ids the client objects hold after Batch.submit()."""
import asyncio
import json
import sys

import hailload
hailload.install()
from hailtop.batch_client import aioclient  # noqa: E402


def build_update(batch, earlier_jobs, earlier_groups, shape):
    """shape = {'n_groups': k, 'jobs': [{'group': g, 'parents': [...]}]}: group 0 = root, 1..k = the update's new groups
    (relative), negative -i = i-th group of an earlier update; parents: positive = job index in this update (1-based),
    negative -i = i-th job of an earlier update."""
    groups = [batch.create_job_group() for _ in range(shape['n_groups'])]
    jobs = []
    for js in shape['jobs']:
        g = js['group']
        parents = []
        for p in js['parents']:
            if p > 0 and p <= len(jobs):
                parents.append(jobs[p - 1])
            elif p < 0 and -p <= len(earlier_jobs):
                parents.append(earlier_jobs[-p - 1])
        if g == 0:
            owner = batch
        elif g > 0:
            owner = groups[min(g, len(groups)) - 1] if groups else batch
        else:
            owner = earlier_groups[min(-g, len(earlier_groups)) - 1] if earlier_groups else batch
        jobs.append(owner.create_job('img', ['true'], parents=parents))
    return groups, jobs


def run_case(case):
    batch = aioclient.Batch(None, case['batch'])
    out = []
    all_jobs, all_groups = [], []
    for upd in case['updates']:
        groups, jobs = build_update(batch, all_jobs, all_groups, upd['shape'])
        job_specs = [{k: s.get(k) for k in ('job_id', 'in_update_job_group_id', 'absolute_job_group_id',
                                             'in_update_parent_ids', 'absolute_parent_ids')} for s in batch._job_specs]
        group_specs = [{k: s.get(k) for k in ('job_group_id', 'in_update_parent_id', 'absolute_parent_id')} for s in batch._job_group_specs]
        start = (upd['start_group'], upd['start_job'])

        async def fake_submit(*_a, **_k):
            return start

        batch._submit = fake_submit
        asyncio.run(batch.submit(disable_progress_bar=True))
        out.append({'job_specs': job_specs, 'group_specs': group_specs,
                    'client_job_ids': [j.job_id for j in jobs], 'client_group_ids': [g.job_group_id for g in groups],
                    'all_submitted': all(j.is_submitted for j in jobs) and all(g.is_submitted for g in groups),
                    'reset': [batch._in_update_job_id, batch._in_update_job_group_id, len(batch._jobs), len(batch._job_specs)]})
        all_jobs += jobs
        all_groups += groups
    return out


def main():
    req = json.load(sys.stdin)
    res = []
    for case in req['cases']:
        try:
            res.append({'ok': run_case(case)})
        except Exception as e:  # noqa: BLE001
            res.append({'err': f'{type(e).__name__}: {e}'[:300]})
    json.dump({'results': res}, sys.stdout)


if __name__ == '__main__':
    main()
