"""C26 implementation side: run the REAL gear.time_limited_max_size_cache.TimeLimitedMaxSizeCache on the deterministic
asyncio loop under harness schedules and report what is observable after every action.

request : {"cases": [{"slots": n, "life": seconds, "acts": [action...]}, ...]}
actions : ["L", k]      a new caller (numbered 0,1,2.. in order of appearance) starts lookup(k)
          ["D", k]      the oldest in-flight load of key k completes with a fresh value (= the load's serial number)
          ["F", k, e]   the oldest in-flight load of key k fails with error class e (0 -> ErrA, 1 -> ErrB)
          ["C", c]      caller c's task is cancelled
          ["A", dt]     the clock advances dt seconds
answer  : {"results": [[obs after action 1, obs after action 2, ...], ...]}
obs     : {"callers": ["P" | ["V", v] | ["E", name] | "X", ...],      status of every caller so far
           "cache":   [[k, v, expiry_seconds_since_start], ...]        in the order of _keys_by_expiry
           "inflight": [k...]                                          keys of _futures in insertion order
           "starts":  [[k, load_id], ...]                              every call of the load function so far
           "produced": [[load_id, t], ...]                             loads the schedule completed with a value, and when
           "peak":    largest number of simultaneously running loads of one key seen so far
           "coherent": the three internal maps hold the same key set
           "now":     seconds since start}
"""
import asyncio
import json
import sys

import hailload
hailload.install()
sys.path.insert(0, hailload.HERE + '/..')
from aio.detloop import DetLoop  # noqa: E402
from gear.time_limited_max_size_cache import TimeLimitedMaxSizeCache  # noqa: E402


class ErrA(Exception):
    pass


class ErrB(Exception):
    pass


ERR = [ErrA, ErrB]
NS = 10 ** 9


def status(t):
    if not t.done():
        return 'P'
    if t.cancelled():
        return 'X'
    e = t.exception()
    if e is not None:
        return ['E', type(e).__name__]
    return ['V', t.result()]


def run_case(case):
    dl = DetLoop(start=1000.0)
    dl.patch_time()
    dl.loop.set_exception_handler(lambda loop, context: None)   # 'exception never retrieved' reports are not observations
    start_ns = 1000 * NS
    try:
        starts = []
        pending = {}     # k -> list of (load id, future) still running
        peak = [0]
        produced = []    # [load id, time] for every load the schedule completed with a value

        async def load(k):
            lid = len(starts)
            starts.append([k, lid])
            fut = dl.loop.create_future()
            pending.setdefault(k, []).append((lid, fut))
            peak[0] = max(peak[0], len(pending[k]))
            try:
                return await fut
            finally:
                pending[k] = [(i, f) for (i, f) in pending[k] if i != lid]

        cache = TimeLimitedMaxSizeCache(load, case['life'] * NS, case['slots'], 'verif')
        callers = []
        out = []
        for a in case['acts']:
            op = a[0]
            if op == 'L':
                callers.append(dl.spawn(cache.lookup(a[1])))
                dl.settle()
            elif op in ('D', 'F'):
                live = [(i, f) for (i, f) in pending.get(a[1], []) if not f.done()]
                if live:
                    lid, fut = live[0]
                    if op == 'D':
                        fut.set_result(lid)
                        produced.append([lid, int(round(dl.now - 1000.0))])
                    else:
                        fut.set_exception(ERR[a[2]]())
                dl.settle()
            elif op == 'C':
                if 0 <= a[1] < len(callers):
                    callers[a[1]].cancel()
                dl.settle()
            elif op == 'A':
                dl.advance(float(a[1]))
            else:
                raise ValueError(f'bad action {a}')
            keys = list(cache._keys_by_expiry)
            coherent = (set(keys) == set(cache._cache) == set(cache._expiry_time)) and len(keys) == len(set(keys))
            ent = []
            for k in keys:
                exp = cache._expiry_time.get(k)
                rel = None
                if exp is not None:
                    rel = (exp - start_ns) // NS if (exp - start_ns) % NS == 0 else (exp - start_ns) / NS
                ent.append([k, cache._cache.get(k), rel])
            out.append({'callers': [status(t) for t in callers], 'cache': ent,
                        'inflight': list(cache._futures), 'starts': [list(s) for s in starts],
                        'produced': [list(x) for x in produced], 'peak': peak[0], 'coherent': bool(coherent),
                        'now': int(round(dl.now - 1000.0))})
        return out
    finally:
        dl.close()


def main():
    req = json.load(sys.stdin)
    res = []
    for case in req['cases']:
        try:
            res.append(run_case(case))
        except Exception as e:  # the harness, not the code under test, failed
            res.append({'harness_error': f'{type(e).__name__}: {e}'})
    json.dump({'results': res}, sys.stdout)


main()
