"""C16 — how batch/batch/worker/worker.py uses the worker's CPU semaphore (`cpu_sem`): analysis and extraction by AST.

Shared by the plug-in (translator T: `analyse` -> reservation pattern of every use site, fail closed) and by the
implementation-side driver harness/impl/c16_use.py (`harness_source` -> the REAL reservation code of the job classes, with
the body of the reservation replaced by a harness body, plus every helper the reservation goes through, verbatim).

No dependency on harness.core: errors are `Unrecognised`, which the plug-in turns into TieBroken.
"""
import ast

SEM_ATTR = 'cpu_sem'
WORKER_PY = 'batch/batch/worker/worker.py'
SEM_PY = 'batch/batch/semaphore.py'


class Unrecognised(Exception):
    pass


def _parents(tree):
    par = {}
    for n in ast.walk(tree):
        for c in ast.iter_child_nodes(n):
            par[c] = n
    return par


def _enclosing(node, par, kinds):
    n = par.get(node)
    while n is not None and not isinstance(n, kinds):
        n = par.get(n)
    return n


def _stmt_of(node, par):
    n = node
    while n is not None and not isinstance(n, ast.stmt):
        n = par.get(n)
    return n


def _strip_doc(body):
    return [s for s in body if not (isinstance(s, ast.Expr) and isinstance(s.value, ast.Constant) and isinstance(s.value.value, str))]


def _release_weights(stmts, sem_expr):
    """weight expressions w of statements `<sem_expr>.release(w)` directly in `stmts`"""
    out = []
    for s in stmts:
        if (isinstance(s, ast.Expr) and isinstance(s.value, ast.Call) and isinstance(s.value.func, ast.Attribute)
                and s.value.func.attr == 'release' and ast.unparse(s.value.func.value) == sem_expr and len(s.value.args) == 1
                and not s.value.keywords):
            out.append(ast.unparse(s.value.args[0]))
    return out


def check_context_manager(sem_src):
    """`sem(w)` must be the context manager  __aenter__: await sem.acquire(w)  /  __aexit__: sem.release(w)  (then
    `async with sem(w): body` is  await acquire(w); try: body finally: release(w))."""
    tree = ast.parse(sem_src)
    classes = {n.name: n for n in tree.body if isinstance(n, ast.ClassDef)}
    for need in ('FIFOWeightedSemaphore', 'FIFOWeightedSemaphoreContextManager'):
        if need not in classes:
            raise Unrecognised(f'{SEM_PY}: class {need} not found')

    def method(cls, name):
        ms = [n for n in classes[cls].body if isinstance(n, (ast.FunctionDef, ast.AsyncFunctionDef)) and n.name == name]
        if len(ms) != 1:
            raise Unrecognised(f'{SEM_PY}: {cls}.{name} not found exactly once')
        return ms[0]

    def body_is(cls, name, is_async, expect):
        m = method(cls, name)
        got = [ast.unparse(s) for s in _strip_doc(m.body)]
        if isinstance(m, ast.AsyncFunctionDef) != is_async or got != expect or m.decorator_list:
            raise Unrecognised(f'{SEM_PY}: {cls}.{name} is not `{"; ".join(expect)}` (found `{"; ".join(got)[:200]}`)')

    body_is('FIFOWeightedSemaphoreContextManager', '__init__', False, ['self.sem = sem', 'self.weight = weight'])
    body_is('FIFOWeightedSemaphoreContextManager', '__aenter__', True, ['await self.sem.acquire(self.weight)'])
    body_is('FIFOWeightedSemaphoreContextManager', '__aexit__', True, ['self.sem.release(self.weight)'])
    body_is('FIFOWeightedSemaphore', '__call__', False, ['return FIFOWeightedSemaphoreContextManager(self, weight)'])
    extra = [n.name for n in classes['FIFOWeightedSemaphoreContextManager'].body
             if isinstance(n, (ast.FunctionDef, ast.AsyncFunctionDef)) and n.name not in ('__init__', '__aenter__', '__aexit__')]
    if extra or classes['FIFOWeightedSemaphoreContextManager'].bases:
        raise Unrecognised(f'{SEM_PY}: FIFOWeightedSemaphoreContextManager has further methods/bases {extra}')


def analyse(worker_src):
    """Every occurrence of `.cpu_sem` in worker.py, classified.  Returns
         {'sites': [{'cls', 'func', 'pattern': 'AcquireThenTry'|'AcquireInTry', 'form', 'weight', 'line'}],
          'entries': [{'cls', 'pattern', 'via': <helper name or None>, 'expr'}],     # job classes whose run() reserves cores
          'helpers': [(cls, func)], 'reads': n}"""
    tree = ast.parse(worker_src)
    par = _parents(tree)
    sites, reads, inits = [], 0, 0
    handled_release = set()
    for node in ast.walk(tree):
        if not (isinstance(node, ast.Attribute) and node.attr == SEM_ATTR):
            if isinstance(node, ast.Name) and node.id == SEM_ATTR:
                raise Unrecognised(f'line {node.lineno}: bare name {SEM_ATTR}')
            if isinstance(node, ast.Constant) and isinstance(node.value, str) and SEM_ATTR in node.value:
                raise Unrecognised(f'line {node.lineno}: `{SEM_ATTR}` inside a string (getattr?)')
            continue
        sem_expr = ast.unparse(node)
        p = par.get(node)
        fn = _enclosing(node, par, (ast.FunctionDef, ast.AsyncFunctionDef))
        cls = _enclosing(node, par, ast.ClassDef)
        where = f'line {node.lineno} ({cls.name if cls else "-"}.{fn.name if fn else "-"})'
        if fn is None or cls is None:
            raise Unrecognised(f'{where}: {SEM_ATTR} used outside a method')
        if isinstance(node.ctx, ast.Store):
            st = _stmt_of(node, par)
            ok = (isinstance(st, ast.Assign) and len(st.targets) == 1 and st.targets[0] is node and fn.name == '__init__'
                  and isinstance(st.value, ast.Call) and isinstance(st.value.func, ast.Name)
                  and st.value.func.id == 'FIFOWeightedSemaphore' and len(st.value.args) == 1 and not st.value.keywords)
            if not ok:
                raise Unrecognised(f'{where}: {SEM_ATTR} is assigned other than `self.{SEM_ATTR} = FIFOWeightedSemaphore(<capacity>)` in __init__')
            inits += 1
            continue
        if not isinstance(node.ctx, ast.Load):
            raise Unrecognised(f'{where}: {SEM_ATTR} deleted')
        # --- sem(w) as the context manager of an `async with`
        if isinstance(p, ast.Call) and p.func is node:
            wi = par.get(p)
            aw = par.get(wi)
            if not (isinstance(wi, ast.withitem) and wi.context_expr is p and wi.optional_vars is None
                    and isinstance(aw, ast.AsyncWith) and len(aw.items) == 1 and len(p.args) == 1 and not p.keywords):
                raise Unrecognised(f'{where}: `{ast.unparse(p)[:80]}` is not the sole context manager of an `async with`')
            sites.append({'cls': cls.name, 'func': fn.name, 'pattern': 'AcquireThenTry', 'form': 'async with sem(w)',
                          'weight': ast.unparse(p.args[0]), 'line': node.lineno, '_stmt': aw, '_fn': fn})
            continue
        if isinstance(p, ast.Attribute) and p.value is node:
            if p.attr == 'value' and isinstance(p.ctx, ast.Load):
                reads += 1
                continue
            call = par.get(p)
            if p.attr == 'acquire' and isinstance(call, ast.Call) and call.func is p and len(call.args) == 1 and not call.keywords:
                aw = par.get(call)
                st = par.get(aw)
                if not (isinstance(aw, ast.Await) and isinstance(st, ast.Expr)):
                    raise Unrecognised(f'{where}: acquire is not a statement `await {sem_expr}.acquire(w)`')
                w = ast.unparse(call.args[0])
                holder = par.get(st)
                pattern = None
                if isinstance(holder, ast.Try) and st in holder.body:
                    if w in _release_weights(holder.finalbody, sem_expr):
                        pattern, tr = 'AcquireInTry', holder
                else:
                    body = None
                    for f in ('body', 'orelse', 'finalbody'):
                        if st in getattr(holder, f, []):
                            body = getattr(holder, f)
                    if body is not None:
                        k = body.index(st)
                        if k + 1 < len(body) and isinstance(body[k + 1], ast.Try) and w in _release_weights(body[k + 1].finalbody, sem_expr):
                            pattern, tr = 'AcquireThenTry', body[k + 1]
                if pattern is None:
                    raise Unrecognised(f'{where}: `await {sem_expr}.acquire({w})` is neither followed by `try: .. finally: {sem_expr}.release({w})` nor inside such a try')
                if tr.handlers or tr.orelse or len(_release_weights(tr.finalbody, sem_expr)) != 1:
                    raise Unrecognised(f'{where}: the try/finally around the reservation has handlers/else or releases twice')
                for s in tr.finalbody:
                    handled_release.add(s)
                sites.append({'cls': cls.name, 'func': fn.name, 'pattern': pattern, 'form': 'await sem.acquire(w) + try/finally',
                              'weight': w, 'line': node.lineno, '_stmt': st, '_fn': fn})
                continue
            if p.attr == 'release' and isinstance(call, ast.Call) and call.func is p:
                continue            # checked below: every release must belong to a recognised try/finally
        raise Unrecognised(f'{where}: `{ast.unparse(par.get(p) or p)[:100]}` - a use of {SEM_ATTR} the walker does not understand')
    if inits != 1:
        raise Unrecognised(f'{SEM_ATTR} is created {inits} times')
    for node in ast.walk(tree):
        if (isinstance(node, ast.Attribute) and node.attr == 'release' and isinstance(node.value, ast.Attribute) and node.value.attr == SEM_ATTR):
            st = _stmt_of(node, par)
            if st not in handled_release:
                raise Unrecognised(f'line {node.lineno}: `{ast.unparse(st)[:80]}` releases {SEM_ATTR} outside a recognised try/finally')
    # --- who reserves: run() methods directly, or through helper context managers
    helpers = {}
    entries = []
    for s in sites:
        if s['func'] != 'run':
            fn = s['_fn']
            decos = [ast.unparse(d) for d in fn.decorator_list]
            if decos not in (['asynccontextmanager'], ['contextlib.asynccontextmanager']) or not isinstance(fn, ast.AsyncFunctionDef):
                raise Unrecognised(f'line {s["line"]}: {s["cls"]}.{s["func"]} reserves cores but is neither a run() method nor an @asynccontextmanager helper')
            ys = [n for n in ast.walk(fn) if isinstance(n, (ast.Yield, ast.YieldFrom))]
            if len(ys) != 1 or not isinstance(ys[0], ast.Yield):
                raise Unrecognised(f'{s["cls"]}.{s["func"]}: expected exactly one `yield`')
            ystmt = _stmt_of(ys[0], par)
            # the body (the yield) must be what the reservation protects
            if s['pattern'] == 'AcquireInTry':
                okpos = ystmt in par[s['_stmt']].body and par[s['_stmt']].body.index(ystmt) > par[s['_stmt']].body.index(s['_stmt'])
            elif s['form'].startswith('async with'):
                okpos = ystmt in s['_stmt'].body
            else:
                holder_body = next(getattr(par[s['_stmt']], f) for f in ('body', 'orelse', 'finalbody') if s['_stmt'] in getattr(par[s['_stmt']], f, []))
                okpos = ystmt in holder_body[holder_body.index(s['_stmt']) + 1].body
            if not okpos:
                raise Unrecognised(f'{s["cls"]}.{s["func"]}: the `yield` is not inside the reservation')
            if (s['cls'], s['func']) in helpers:
                raise Unrecognised(f'{s["cls"]}.{s["func"]} reserves twice')
            helpers[(s['cls'], s['func'])] = s
    classes = [n for n in tree.body if isinstance(n, ast.ClassDef)]
    helper_names = {f for (_, f) in helpers}
    used_helpers = set()
    for c in classes:
        for m in c.body:
            if not (isinstance(m, ast.AsyncFunctionDef) and m.name == 'run'):
                continue
            body = _strip_doc(m.body)
            direct = [s for s in sites if s['_fn'] is m]
            via = None
            first = body[0] if body else None
            if isinstance(first, ast.AsyncWith) and len(first.items) == 1:
                ce = first.items[0].context_expr
                if isinstance(ce, ast.Call) and isinstance(ce.func, ast.Attribute) and ce.func.attr in helper_names:
                    via = ce.func.attr
            if not direct and via is None:
                continue
            if len(body) != 1 or not isinstance(first, ast.AsyncWith) or first.items[0].optional_vars is not None:
                raise Unrecognised(f'{c.name}.run: expected the whole method to be one `async with <reservation>:` statement')
            if direct:
                if len(direct) != 1 or direct[0]['_stmt'] is not first:
                    raise Unrecognised(f'{c.name}.run: the reservation is not the outermost statement')
                entries.append({'cls': c.name, 'pattern': direct[0]['pattern'], 'via': None, 'expr': ast.unparse(first.items[0].context_expr)})
            else:
                hs = [h for (hc, hf), h in helpers.items() if hf == via]
                if len(hs) != 1:
                    raise Unrecognised(f'{c.name}.run: helper {via} is ambiguous')
                used_helpers.add(via)
                entries.append({'cls': c.name, 'pattern': hs[0]['pattern'], 'via': via, 'expr': ast.unparse(first.items[0].context_expr)})
    # any other mention of a helper (called elsewhere) is not understood
    for node in ast.walk(tree):
        if isinstance(node, ast.Attribute) and node.attr in helper_names and isinstance(node.ctx, ast.Load):
            fn = _enclosing(node, par, (ast.FunctionDef, ast.AsyncFunctionDef))
            if fn is None or fn.name != 'run':
                raise Unrecognised(f'line {node.lineno}: helper {node.attr} used outside a run() method')
    for (hc, hf) in helpers:
        if hf not in used_helpers:
            raise Unrecognised(f'{hc}.{hf} reserves cores but no run() method goes through it')
    if not entries:
        raise Unrecognised('no run() method reserves cores')
    pub = [{k: v for k, v in s.items() if not k.startswith('_')} for s in sites]
    return {'sites': pub, 'entries': entries, 'helpers': sorted(helpers), 'reads': reads}


def _lenient(tree):
    """Without judging anything: the job classes whose run() is `async with <something that reaches cpu_sem>:` and the
    methods (other than __init__ / run) that mention cpu_sem.  Used to DRIVE the real code even when `analyse` does not
    recognise the pattern (the oracle must still be able to search)."""
    classes = [n for n in tree.body if isinstance(n, ast.ClassDef)]
    helpers = []
    for c in classes:
        for m in c.body:
            if isinstance(m, (ast.FunctionDef, ast.AsyncFunctionDef)) and m.name not in ('__init__', 'run') and SEM_ATTR in ast.unparse(m):
                helpers.append((c.name, m.name))
    hnames = {f for _, f in helpers}
    entries = []
    for c in classes:
        for m in c.body:
            if isinstance(m, ast.AsyncFunctionDef) and m.name == 'run':
                body = _strip_doc(m.body)
                if body and isinstance(body[0], ast.AsyncWith):
                    expr = ' ; '.join(ast.unparse(i.context_expr) for i in body[0].items)
                    reaches = SEM_ATTR in expr or any(isinstance(n, ast.Attribute) and n.attr in hnames
                                                      for i in body[0].items for n in ast.walk(i.context_expr))
                    if reaches:
                        entries.append({'cls': c.name, 'pattern': None, 'via': None, 'expr': expr})
    return entries, helpers


def harness_source(worker_src):
    """Python source with the REAL reservation code: for every job class that reserves cores, its run() with the body of the
    outermost `async with` replaced by `await self._h_body()` (statements after it are dropped); every helper that touches
    cpu_sem, verbatim.  Returns (source, job class names, analysis or None when the pattern is not recognised)."""
    tree = ast.parse(worker_src)
    try:
        info = analyse(worker_src)
    except Unrecognised as e:
        info = {'unrecognised': str(e)}
    entries, helpers = _lenient(tree)
    if 'entries' in info:
        by_cls = {e['cls']: e for e in info['entries']}
        entries = [by_cls.get(e['cls'], e) for e in entries]
        for e in info['entries']:
            if e['cls'] not in {x['cls'] for x in entries}:
                entries.append(e)
    if not entries:
        raise Unrecognised('no run() method reaches cpu_sem')
    info['entries'] = entries
    classes = {n.name: n for n in tree.body if isinstance(n, ast.ClassDef)}
    out = ['class HWorkerHelpers:', '    pass']
    for (hc, hf) in helpers:
        fn = next(m for m in classes[hc].body if isinstance(m, (ast.FunctionDef, ast.AsyncFunctionDef)) and m.name == hf)
        out += ['    ' + ln for ln in ast.unparse(fn).splitlines()]
        out.append('')
    names = []
    for e in entries:
        run = next(m for m in classes[e['cls']].body if isinstance(m, ast.AsyncFunctionDef) and m.name == 'run')
        run = ast.parse(ast.unparse(run)).body[0]           # private copy
        aw = _strip_doc(run.body)[0]
        aw.body = [ast.Expr(ast.Await(ast.Call(ast.Attribute(ast.Name('self', ast.Load()), '_h_body', ast.Load()), [], [])))]
        run.body = [aw]
        ast.fix_missing_locations(run)
        out.append(f'class H_{e["cls"]}(HJobBase):')
        out += ['    ' + ln for ln in ast.unparse(run).splitlines()]
        out.append('')
        names.append(e['cls'])
    return '\n'.join(out), names, info
