"""Implementation-side helpers of the Hail front-end checks (C31/C32/C33): build REAL hail types and Python values from the
neutral descriptions of harness/hailfe/gen.py and canonicalise what the real functions return.  Runs in /venv with the
loader; nothing here touches a JVM/backend (reference genomes are constructed with `_builtin=True`, which skips the
backend registration)."""
import math
import struct
import traceback

import hailload
hailload.install()
import numpy as np  # noqa: E402
import hail as hl  # noqa: E402
from hail.utils import Struct, Interval  # noqa: E402
from hail.genetics import Call, Locus  # noqa: E402
from hailtop.frozendict import frozendict  # noqa: E402
from hailtop.hail_frozenlist import frozenlist  # noqa: E402

_RGS = {}


def uncps(l):
    return ''.join(chr(c) for c in l)


def cps(s):
    return [ord(c) for c in s]


def kind(t):
    return t if isinstance(t, str) else t[0]


def reference(name):
    if name not in _RGS:
        _RGS[name] = hl.ReferenceGenome(name, ['1', '2', 'X'], {'1': 1000, '2': 500, 'X': 100}, _builtin=True)
    return _RGS[name]


_SCALAR = {'int32': 'tint32', 'int64': 'tint64', 'float32': 'tfloat32', 'float64': 'tfloat64', 'bool': 'tbool',
           'str': 'tstr', 'call': 'tcall'}


def mk_type(t):
    k = kind(t)
    if k in _SCALAR:
        return getattr(hl, _SCALAR[k])
    if k == 'void':
        return hl.tvoid
    if k == 'rng_state':
        return hl.expr.types.trngstate
    if k == 'stream':
        return hl.tstream(mk_type(t[1]))
    if k == 'locus':
        return hl.tlocus(reference(uncps(t[1])))
    if k == 'interval':
        return hl.tinterval(mk_type(t[1]))
    if k == 'array':
        return hl.tarray(mk_type(t[1]))
    if k == 'set':
        return hl.tset(mk_type(t[1]))
    if k == 'dict':
        return hl.tdict(mk_type(t[1]), mk_type(t[2]))
    if k == 'struct':
        return hl.tstruct(**{uncps(n): mk_type(ft) for n, ft in t[1]})
    if k == 'tuple':
        return hl.ttuple(*[mk_type(x) for x in t[1]])
    if k == 'ndarray':
        return hl.tndarray(mk_type(t[1]), t[2])
    raise ValueError(t)


def desc_type(ht):
    """real hail type object -> neutral description (None for anything unexpected)"""
    T = hl.expr.types
    for k, a in _SCALAR.items():
        if ht is getattr(hl, a):
            return k
    if ht is hl.tvoid:
        return 'void'
    if ht is T.trngstate:
        return 'rng_state'
    if isinstance(ht, T.tlocus):
        return ['locus', cps(ht.reference_genome.name)]
    if isinstance(ht, T.tinterval):
        return ['interval', desc_type(ht.point_type)]
    if isinstance(ht, T.tarray):
        return ['array', desc_type(ht.element_type)]
    if isinstance(ht, T.tstream):
        return ['stream', desc_type(ht.element_type)]
    if isinstance(ht, T.tset):
        return ['set', desc_type(ht.element_type)]
    if isinstance(ht, T.tdict):
        return ['dict', desc_type(ht.key_type), desc_type(ht.value_type)]
    if isinstance(ht, T.tstruct):
        return ['struct', [[cps(n), desc_type(ft)] for n, ft in ht.items()]]
    if isinstance(ht, T.ttuple):
        return ['tuple', [desc_type(x) for x in ht.types]]
    if isinstance(ht, T.tndarray):
        return ['ndarray', desc_type(ht.element_type), int(ht.ndim)]
    return None


def mk_float(v, width):
    c = v[1]
    if c == 'nan':
        return float('nan')
    if c == 'inf':
        return float('inf')
    if c == '-inf':
        return float('-inf')
    if width == 64:
        return struct.unpack('<d', struct.pack('<Q', v[2]))[0]
    return struct.unpack('<f', struct.pack('<I', v[2]))[0]


_NP = {'int32': np.int32, 'int64': np.int64, 'float32': np.float32, 'float64': np.float64, 'bool': np.bool_}


def mk_struct(names, vals, frozen=False):
    kw = dict(zip(names, vals))
    try:
        return Struct(**kw)
    except TypeError:
        # unfixed hail.utils.Struct cannot be built with a field called 'self': a Mapping is also a value of a struct type
        return frozendict(kw) if frozen else kw


def _keys(x):
    return list(x._fields.keys() if isinstance(x, Struct) else x.keys())


def mk_value(t, v, frozen=False):
    """frozen: the value sits inside a set or a dict key, where Hail uses the hashable variants."""
    if v is None:
        return None
    k = kind(t)
    if k in ('int32', 'int64'):
        return int(v[1])
    if k == 'float32':
        return mk_float(v, 32)
    if k == 'float64':
        return mk_float(v, 64)
    if k == 'bool':
        return bool(v[1])
    if k == 'str':
        return uncps(v[1])
    if k == 'call':
        return Call([int(a) for a in v[2]], phased=bool(v[1]))
    if k == 'locus':
        return Locus(uncps(v[1]), int(v[2]), reference(uncps(t[1])))
    if k == 'interval':
        return Interval(mk_value(t[1], v[1], frozen), mk_value(t[1], v[2], frozen), bool(v[3]), bool(v[4]),
                        point_type=mk_type(t[1]))
    if k == 'array':
        l = [mk_value(t[1], x, frozen) for x in v[1]]
        return frozenlist(l) if frozen else l
    if k == 'set':
        s = {mk_value(t[1], x, True) for x in v[1]}
        if len(s) != len(v[1]):
            raise ValueError('generated set elements are not distinct in Python')
        return frozenset(s) if frozen else s
    if k == 'dict':
        d = {}
        for a, b in v[1]:
            d[mk_value(t[1], a, True)] = mk_value(t[2], b, frozen)
        if len(d) != len(v[1]):
            raise ValueError('generated dict keys are not distinct in Python')
        return frozendict(d) if frozen else d
    if k == 'struct':
        return mk_struct([uncps(n) for n, _ in t[1]], [mk_value(ft, x, frozen) for (_, ft), x in zip(t[1], v[1])], frozen)
    if k == 'tuple':
        return tuple(mk_value(tt, x, frozen) for tt, x in zip(t[1], v[1]))
    if k == 'ndarray':
        ek = kind(t[1])
        flat = [mk_value(t[1], x) for x in v[2]]
        a = np.array(flat, dtype=_NP[ek]).reshape([int(d) for d in v[1]])
        order = v[3] if len(v) > 3 else 'C'
        return np.array(a, order=order, copy=True)       # (np.asfortranarray would turn a 0-d array into a 1-d one)
    raise ValueError(t)


def canon_float(x, width):
    x = float(x)
    if math.isnan(x):
        return ['f', 'nan', None]
    if math.isinf(x):
        return ['f', 'inf' if x > 0 else '-inf', None]
    if width == 64:
        return ['f', 'fin', struct.unpack('<Q', struct.pack('<d', x))[0]]
    try:
        b = struct.pack('<f', x)
    except OverflowError:
        return ['?', 'float32-overflow', repr(x)]
    if struct.unpack('<f', b)[0] != x:
        return ['?', 'not-a-float32', repr(x)]
    return ['f', 'fin', struct.unpack('<I', b)[0]]


def _unknown(x):
    return ['?', type(x).__name__, repr(x)[:80]]


def canon_value(t, x):
    """Real Python value -> neutral value (type-directed); anything unexpected becomes ['?', ...]."""
    if x is None:
        return None
    k = kind(t)
    try:
        if k in ('int32', 'int64'):
            if isinstance(x, bool) or not isinstance(x, (int, np.integer)):
                return _unknown(x)
            return ['i', int(x)]
        if k in ('float32', 'float64'):
            if isinstance(x, bool) or not isinstance(x, (float, np.floating)):
                return _unknown(x)
            return canon_float(x, 32 if k == 'float32' else 64)
        if k == 'bool':
            return ['b', bool(x)] if isinstance(x, (bool, np.bool_)) else _unknown(x)
        if k == 'str':
            return ['s', cps(x)] if isinstance(x, str) else _unknown(x)
        if k == 'call':
            return ['call', x.phased, [int(a) for a in x.alleles]] if isinstance(x, Call) else _unknown(x)
        if k == 'locus':
            if not isinstance(x, Locus) or x.reference_genome.name != uncps(t[1]):
                return _unknown(x)
            return ['locus', cps(x.contig), int(x.position)]
        if k == 'interval':
            if not isinstance(x, Interval):
                return _unknown(x)
            return ['iv', canon_value(t[1], x.start), canon_value(t[1], x.end), x.includes_start, x.includes_end]
        if k == 'array':
            return ['arr', [canon_value(t[1], y) for y in x]] if isinstance(x, (list, frozenlist)) else _unknown(x)
        if k == 'set':
            return ['set', [canon_value(t[1], y) for y in x]] if isinstance(x, (set, frozenset)) else _unknown(x)
        if k == 'dict':
            if not isinstance(x, (dict, frozendict)):
                return _unknown(x)
            return ['dict', [[canon_value(t[1], a), canon_value(t[2], b)] for a, b in x.items()]]
        if k == 'struct':
            if not isinstance(x, (Struct, dict, frozendict)):
                return _unknown(x)
            names = [uncps(n) for n, _ in t[1]]
            if _keys(x) != names:
                return ['?', 'struct-fields', repr(list(x))[:80]]
            return ['struct', [canon_value(ft, x[n]) for (_, ft), n in zip(t[1], names)]]
        if k == 'tuple':
            if not isinstance(x, tuple) or len(x) != len(t[1]):
                return _unknown(x)
            return ['tuple', [canon_value(tt, y) for tt, y in zip(t[1], x)]]
        if k == 'ndarray':
            if not isinstance(x, np.ndarray) or x.dtype != _NP[kind(t[1])]:
                return _unknown(x)
            return ['nd', [int(d) for d in x.shape], [canon_value(t[1], y) for y in x.flatten('C').tolist()]]
    except Exception as e:  # noqa: BLE001
        return ['?', 'canon-error', f'{type(e).__name__}: {e}'[:80]]
    return _unknown(x)


def py_equal(t, a, b):
    """Python-level equality `a == b` with NaN == NaN and arrays compared element-wise (type-directed)."""
    if a is None or b is None:
        return a is None and b is None
    k = kind(t)
    try:
        if k in ('float32', 'float64'):
            return (a == b) or (isinstance(a, float) and isinstance(b, float) and math.isnan(a) and math.isnan(b))
        if k == 'interval':
            return (type(a) is type(b) and py_equal(t[1], a.start, b.start) and py_equal(t[1], a.end, b.end)
                    and a.includes_start == b.includes_start and a.includes_end == b.includes_end)
        if k == 'array':
            return type(a) is type(b) and len(a) == len(b) and all(py_equal(t[1], x, y) for x, y in zip(a, b))
        if k == 'set':
            if type(a) is not type(b) or len(a) != len(b):
                return False
            rest = list(b)
            for x in a:
                for i, y in enumerate(rest):
                    if py_equal(t[1], x, y):
                        del rest[i]
                        break
                else:
                    return False
            return True
        if k == 'dict':
            if type(a) is not type(b) or len(a) != len(b):
                return False
            rest = list(b.items())
            for ka, va in a.items():
                for i, (kb, vb) in enumerate(rest):
                    if py_equal(t[1], ka, kb) and py_equal(t[2], va, vb):
                        del rest[i]
                        break
                else:
                    return False
            return True
        if k == 'struct':
            names = [uncps(n) for n, _ in t[1]]
            # a Mapping is accepted as input of a struct type (needed for a field called 'self' on the unfixed Struct)
            return (_keys(a) == names and _keys(b) == names
                    and all(py_equal(ft, a[n], b[n]) for (_, ft), n in zip(t[1], names)))
        if k == 'tuple':
            return (isinstance(a, tuple) and isinstance(b, tuple) and len(a) == len(b)
                    and all(py_equal(tt, x, y) for tt, x, y in zip(t[1], a, b)))
        if k == 'ndarray':
            return (isinstance(b, np.ndarray) and a.dtype == b.dtype and a.shape == b.shape
                    and bool(np.array_equal(a, b, equal_nan=kind(t[1]) in ('float32', 'float64'))))
        return type(a) is type(b) and bool(a == b)
    except Exception:  # noqa: BLE001
        return False


def describe_exception(e):
    """(exception class name, qualified name of the deepest frame inside hail's own sources)"""
    where = None
    tb = e.__traceback__
    while tb is not None:
        code = tb.tb_frame.f_code
        fn = code.co_filename.replace('\\', '/')
        if '/hail/python/hail/' in fn:
            where = fn.split('/hail/python/hail/')[-1] + ':' + getattr(code, 'co_qualname', code.co_name)
        tb = tb.tb_next
    return {'exc': type(e).__name__, 'where': where, 'msg': str(e)[:160]}
