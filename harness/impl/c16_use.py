"""C16 at the USE site: run the REAL core-reservation code of batch/batch/worker/worker.py (the run() methods of the job
classes that reserve cores, cut down by AST to `async with <reservation>: <harness body>`, and every helper the reservation
goes through, verbatim — see c16_usesite.harness_source) against the REAL batch.semaphore.FIFOWeightedSemaphore on the
deterministic loop, with task cancellation at any point.

stdin : {"schedules": [{"cap": c, "site": <job class name or index>, "acts": [["a", w] | ["f", i] | ["f", i, "raise"] | ["c", i] | ["s"], ...]}, ...]}
          a = create_task(job.run()) for a new job of weight w     f = the body of job i ends (returns / raises)
          c = tasks[i].cancel()                                     s = run the loop until idle
stdout: {"sites": [...], "results": [{"trace": [[value, [[id, w], ...], [running ids], [entry order], len(ready)], ...], "viol": [...]}]}
The verdicts (viol) use only what the jobs experience (who is inside a body), never the semaphore's fields.
"""
import asyncio
import contextlib
import json
import logging
import os
import sys
import time

import hailload
hailload.install()
from aio.detloop import DetLoop  # noqa: E402
from batch.semaphore import FIFOWeightedSemaphore  # noqa: E402
from impl import c16_usesite  # noqa: E402


class BodyError(Exception):
    pass


class _Stub:
    """whatever else the extracted helpers mention (metrics, tracing ...) does nothing"""

    def __call__(self, *a, **k):
        return _Stub()

    def __getattr__(self, name):
        if name.startswith('__'):
            raise AttributeError(name)
        return _Stub()

    def __format__(self, spec):
        return 'stub'

    def __enter__(self):
        return self

    def __exit__(self, *a):
        return False


class _NS(dict):
    def __missing__(self, key):
        import builtins
        if hasattr(builtins, key):
            return getattr(builtins, key)
        return _Stub()


def load_real_code():
    src = open(os.path.join(hailload.REPO, c16_usesite.WORKER_PY), encoding='utf-8').read()
    text, names, info = c16_usesite.harness_source(src)
    log = logging.getLogger('c16-use')
    log.disabled = True

    class HJobBase:
        def __init__(self, worker, i, w, hooks):
            self.worker, self.id, self.cpu_in_mcpu, self._hooks = worker, i, w, hooks

        def __str__(self):
            return f'job {self.id}'

        async def _h_body(self):
            await self._hooks(self)

    ns = _NS({'asyncio': asyncio, 'contextlib': contextlib, 'asynccontextmanager': contextlib.asynccontextmanager,
              'time_msecs': lambda: int(time.time() * 1000), 'time': time, 'log': log, 'logging': logging,
              'HJobBase': HJobBase, 'FIFOWeightedSemaphore': FIFOWeightedSemaphore, '__name__': 'c16_use_extracted'})
    exec(compile(text, '<extracted from worker.py>', 'exec'), ns)

    class HWorker(ns['HWorkerHelpers']):
        def __init__(self, cap):
            self.cores_mcpu = cap
            self.cpu_sem = FIFOWeightedSemaphore(self.cores_mcpu)

    return HWorker, {n: ns['H_' + n] for n in names}, names, info


def run_schedule(dl, HWorker, job_cls, cap, acts):
    worker = HWorker(cap)
    sem = worker.cpu_sem
    tasks, weights, gates, gate_set, mode = [], [], [], [], []
    entered, inbody = [], []
    cancelled_any = [False]
    viol, trace = [], []
    ev_owner, ev_keep = {}, []

    waited, last = set(), [None]

    async def runner(job):
        last[0] = ('start', job.id)
        await job.run()

    async def body(job):
        i = job.id
        if last[0] != ('start', i):           # something else ran since this job's first step: the reservation suspended it
            waited.add(i)
        last[0] = ('enter', i)
        entered.append(i)
        inbody.append(i)
        tot = sum(weights[j] for j in inbody)
        if tot > cap:
            viol.append({'kind': 'capacity', 'inbody': list(inbody), 'running_weight': tot, 'cap': cap})
        try:
            await gates[i].wait()
            if mode[i] == 'raise':
                raise BodyError(i)
        finally:
            inbody.remove(i)

    def queue_ids():
        by_fut = {}
        for i, t in enumerate(tasks):
            f = getattr(t, '_fut_waiter', None)
            if f is not None:
                by_fut[id(f)] = i
        out = []
        for ev, w in sem.queue:
            if id(ev) not in ev_owner:
                who = -1
                for fut in ev._waiters:
                    who = by_fut.get(id(fut), who)
                if who >= 0:
                    ev_owner[id(ev)] = who
                    ev_keep.append(ev)          # keep the object alive: ids must not be reused
            out.append([ev_owner.get(id(ev), -1), w])
        return out

    for n, a in enumerate(acts):
        if a[0] == 'a':
            i = len(tasks)
            weights.append(a[1])
            gates.append(asyncio.Event())
            gate_set.append(False)
            mode.append(None)
            tasks.append(dl.spawn(runner(job_cls(worker, i, a[1], body))))
        elif a[0] == 'f':
            i = a[1]
            if i < len(tasks) and i in inbody and not gate_set[i]:
                gate_set[i] = True
                mode[i] = a[2] if len(a) > 2 else 'normal'
                gates[i].set()
        elif a[0] == 'c':
            i = a[1]
            if i < len(tasks):
                queue_ids()                     # learn which entry belongs to whom before the waiter goes away
                tasks[i].cancel()
                cancelled_any[0] = True
        elif a[0] == 's':
            dl.settle()
            trace.append([sem.value, queue_ids(), sorted(inbody), list(entered), len(dl.loop._ready)])
            run_w = sum(weights[j] for j in inbody)
            if run_w > cap:
                viol.append({'kind': 'capacity', 'at': n, 'inbody': list(inbody), 'running_weight': run_w, 'cap': cap})
            w_order = [i for i in entered if i in waited]
            if w_order != sorted(w_order):      # jobs that had to wait get their cores in arrival order
                viol.append({'kind': 'fifo', 'at': n, 'entered': list(entered), 'waited': sorted(waited)})
            if not cancelled_any[0]:
                blocked = [i for i, t in enumerate(tasks) if not t.done() and i not in set(entered)]
                if blocked and weights[min(blocked)] <= cap - run_w:
                    viol.append({'kind': 'lost-wakeup', 'at': n, 'head': min(blocked), 'weight': weights[min(blocked)], 'free': cap - run_w})
            for i, t in enumerate(tasks):
                if t.done() and not t.cancelled() and t.exception() is not None and not isinstance(t.exception(), BodyError):
                    viol.append({'kind': 'job-raised', 'at': n, 'job': i, 'exc': repr(t.exception())})
        else:
            raise ValueError(a)
    for t in tasks:
        if not t.done():
            t.cancel()
    dl.settle()
    for t in tasks:
        if t.done() and not t.cancelled():
            t.exception()
    seen, out = set(), []
    for v in viol:
        if v['kind'] not in seen:
            seen.add(v['kind'])
            out.append(v)
    return {'trace': trace, 'viol': out}


def main():
    req = json.load(sys.stdin)
    HWorker, classes, names, info = load_real_code()
    dl = DetLoop()
    out = []
    try:
        for sc in req['schedules']:
            site = sc.get('site', 0)
            name = names[site % len(names)] if isinstance(site, int) else site
            out.append(run_schedule(dl, HWorker, classes[name], sc['cap'], sc['acts']))
    finally:
        dl.close()
    json.dump({'sites': names, 'entries': info['entries'], 'results': out}, sys.stdout)


main()
