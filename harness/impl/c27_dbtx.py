"""C27 implementation side: the REAL gear.database code over a fault-injecting, recording fake aiomysql pool.

stdin : {"cases": [case...], "hierarchy": bool}
  case  = {"entry": "transaction"|"just_execute"|"execute_update"|"execute_insertone"|"execute_many"|"execute_and_fetchone"|
                    "select_and_fetchone"|"check_call_procedure"|"execute_and_fetchall"|"select_and_fetchall",
           "n": <entry "transaction": number of statements; entry "execute_many": number of rows of the argument array;
                 the other helpers issue exactly one statement>,
           "chunk": <execute_many only: rows per wire statement (aiomysql's bulk INSERT path); default 1 = one statement per row>,
           "nargs": <single-statement helpers: length of the argument tuple; default 1>,
           "init": [ints], "dirty_pool": bool, "hist": [faults...]}
  faults = {"acquire": err, "start": [err, lost], "stmt": [i, err, "stmt"|"txn"|"lost"], "commit": [err, lost], "commit_after": k,
            "rollback": err}      (every key optional)
  err    = {"cls": <pymysql.err class name | "AppException">, "code": int | null}
stdout: {"results": [{"result": "ok" | err, "attempts": k, "acquisitions": a,
                      "trace": [[err|null, committed log after the attempt], ...], "final": committed log at quiescence,
                      "fired": [[[site, err], ...] per attempt], "levels": [...], "sleeps": [...]}], "hierarchy": {...}}
  a log longer than 40 entries is returned as {"runs": [[a, len], ...]} (maximal runs a, a+1, ..., lossless).

The fault plan is indexed by the ATTEMPT OF THE RETRY WRAPPER, not by anything the code under test chooses: attempt k+1
starts when gear.database.sleep_before_try (replaced by a zero-delay hook) is called for the k-th time; hist[k] is the plan
of attempt k (attempts beyond the plan are fault-free).  Inside an attempt the statement index counts the statements
(other than START TRANSACTION) executed successfully so far in this attempt, on whatever connection(s) and in however
many transactions the code chooses to send them: "stmt": [i, ...] strikes the statement that would be the (i+1)-th.
"commit" strikes the first COMMIT of the attempt issued after at least "commit_after" (default 0) statements, "start" the
first START TRANSACTION, "acquire" the first pool.acquire().  With one transaction per attempt (the unchanged code) this
is the per-attempt plan of coq/theories/DbTx/Model.v.

The fake is the trusted stand-in for aiomysql 0.3 + MySQL/InnoDB (same semantics as coq/theories/DbTx/Model.v):
  * the database is the log of committed writes; a connection holds the pending writes of its open transaction;
  * START TRANSACTION implicitly commits an open transaction; COMMIT/ROLLBACK are atomic; an error from COMMIT commits nothing;
  * a deadlock-like fault ("txn") makes the server roll the whole transaction back, a "stmt" fault only the statement,
    a "lost" fault closes the connection (aiomysql closes it in _read_bytes) and the server discards the transaction;
  * every command on a closed connection raises InterfaceError("(0, 'Not connected')") (aiomysql Connection._ensure_alive);
  * Pool.release closes a connection that is still in a transaction and puts clean live ones back on the free list;
  * Cursor.executemany(sql, rows) sends one statement per row (aiomysql's generic path) or, with "chunk" > 1, one statement
    per `chunk` rows (its bulk INSERT ... VALUES path); it returns None for an empty array, else the number of rows.
"""
import asyncio
import json
import logging
import sys

import hailload
hailload.install()
import pymysql  # noqa: E402
import gear.database as gd  # noqa: E402
from hailtop.aiotools import BackgroundTaskManager  # noqa: E402

PY_CLASSES = ['MySQLError', 'Warning', 'Error', 'InterfaceError', 'DatabaseError', 'DataError', 'OperationalError', 'IntegrityError',
              'InternalError', 'ProgrammingError', 'NotSupportedError']
LONG = 40


class AppException(Exception):
    pass


def build(e):
    if e['cls'] == 'AppException':
        return AppException('application error')
    cls = getattr(pymysql.err, e['cls'])
    if e.get('code') is None:
        return cls("(0, 'message only')")
    return cls(int(e['code']), 'injected')


def canon(ex):
    if ex is None:
        return None
    name = type(ex).__name__
    if type(ex) is AppException:
        cls = 'AppException'
    elif type(ex).__module__ == 'pymysql.err' and name in PY_CLASSES:
        cls = name
    else:
        return {'cls': 'Other:' + name, 'code': None, 'msg': str(ex)[:200]}
    a0 = ex.args[0] if ex.args else None
    return {'cls': cls, 'code': a0 if isinstance(a0, int) and not isinstance(a0, bool) else None}


def runs(log):
    out = []
    for x in log:
        if out and x == out[-1][0] + out[-1][1]:
            out[-1][1] += 1
        else:
            out.append([x, 1])
    return out


def enc(log):
    return list(log) if len(log) <= LONG else {'runs': runs(log)}


def wval(args):
    """the write recorded for one statement / one row: its first argument, tagged with the arity when there are several"""
    if isinstance(args, (list, tuple)):
        return args[0] if len(args) == 1 else args[0] + 10 ** 6 * len(args)
    return args


class Server:
    def __init__(self, init):
        self.committed = list(init)


class FakeConn:
    def __init__(self, pool):
        self.pool = pool
        self.server = pool.server
        self.pending = []
        self.in_trans = False        # client-side view of SERVER_STATUS_IN_TRANS (updated by OK packets only)
        self._closed = False

    # --- aiomysql.Connection surface used by gear.database / Pool.release
    @property
    def closed(self):
        return self._closed

    def get_transaction_status(self):
        return self.in_trans

    def close(self):
        self._closed = True
        self.pending = []            # the server discards the open transaction when the connection goes away

    def cursor(self, *a, **k):
        return FakeCursor(self)

    async def commit(self):
        self._ensure_alive()
        await asyncio.sleep(0)
        plan = self.pool.plan
        f = plan.get('commit')
        if f is not None and self.pool.n_stmt >= plan.get('commit_after', 0):
            del plan['commit']
            err, lost = f
            self.pool.note('commit-lost' if lost else 'commit', err)
            self.pending = []        # an error from COMMIT: nothing was committed
            if lost:
                self.close()
            raise build(err)
        self.server.committed += self.pending
        self.pending = []
        self.in_trans = False

    async def rollback(self):
        self._ensure_alive()
        await asyncio.sleep(0)
        f = self.pool.plan.pop('rollback', None)
        if f is not None:
            self.pool.note('rollback', f)
            self.close()
            raise build(f)
        self.pending = []
        self.in_trans = False

    # --- internals
    def _ensure_alive(self):
        if self._closed:
            raise pymysql.err.InterfaceError("(0, 'Not connected')")

    async def _query(self, sql, writes, yield_=True):
        """one wire statement carrying the list `writes`"""
        self._ensure_alive()
        if yield_:
            await asyncio.sleep(0)
        plan = self.pool.plan
        if sql.startswith('START TRANSACTION'):
            f = plan.pop('start', None)
            if f is not None:
                err, lost = f
                self.pool.note('start-lost' if lost else 'start', err)
                if lost:
                    self.close()
                raise build(err)
            self.server.committed += self.pending      # implicit commit
            self.pending = []
            self.in_trans = True
            return 0
        i = self.pool.n_stmt
        f = plan.get('stmt')
        if f is not None and f[0] == i:
            del plan['stmt']
            _, err, eff = f
            self.pool.note('stmt-' + eff, err, i)
            if eff == 'txn':
                self.pending = []
            elif eff == 'lost':
                self.close()
            elif eff != 'stmt':
                raise SystemExit(f'c27_dbtx: unknown effect {eff}')
            raise build(err)
        self.pool.n_stmt += 1
        self.pending.extend(writes)
        return len(writes)


class FakeCursor:
    def __init__(self, conn):
        self.conn = conn
        self.lastrowid = 7
        self._rows = None

    async def __aenter__(self):
        return self

    async def __aexit__(self, *a):
        return None

    async def execute(self, sql, args=None):
        r = await self.conn._query(sql, [wval(args)])
        self._rows = [{'r': 1}, {'r': 2}]
        return r

    async def executemany(self, sql, args_array):
        if not args_array:
            return None
        chunk = self.conn.pool.chunk
        rows = 0
        first = True
        for k in range(0, len(args_array), chunk):
            rows += await self.conn._query(sql, [wval(a) for a in args_array[k:k + chunk]], yield_=first)
            first = False
        return rows

    async def fetchone(self):
        return {'rc': 0}

    async def fetchmany(self, n):
        rows, self._rows = self._rows or [], []
        return rows


class _AcquireCM:
    """aiomysql.utils._PoolAcquireContextManager"""

    def __init__(self, pool):
        self._pool = pool
        self._conn = None

    async def __aenter__(self):
        self._conn = await self._pool._acquire()
        return self._conn

    async def __aexit__(self, *a):
        try:
            await self._pool.release(self._conn)
        finally:
            self._pool = None
            self._conn = None


class FakePool:
    def __init__(self, server, hist, chunk):
        self.server = server
        self.hist = [dict(h) for h in hist]
        self.chunk = max(1, int(chunk))
        self.free = []
        self.used = set()
        self.acquisitions = 0
        self.attempt = 0                 # attempts of the retry wrapper started so far, minus one
        self.plan = self.hist[0] if self.hist else {}
        self.n_stmt = 0                  # statements executed so far in the current attempt
        self.after = []                  # committed log left behind by attempt k
        self.fired = [[]]

    def note(self, site, err, index=None):
        self.fired[-1].append([site, dict(err)] + ([index] if index is not None else []))

    def next_attempt(self):
        self.after.append(list(self.server.committed))
        self.attempt += 1
        self.plan = self.hist[self.attempt] if self.attempt < len(self.hist) else {}
        self.n_stmt = 0
        self.fired.append([])

    def acquire(self):
        return _AcquireCM(self)

    async def _acquire(self):
        await asyncio.sleep(0)
        self.acquisitions += 1
        f = self.plan.pop('acquire', None)
        if f is not None:
            self.note('acquire', f)
            raise build(f)
        conn = self.free.pop() if self.free else FakeConn(self)
        self.used.add(conn)
        return conn

    def release(self, conn):
        fut = asyncio.get_event_loop().create_future()
        fut.set_result(None)
        self.used.discard(conn)
        if not conn.closed:
            if conn.get_transaction_status():
                conn.close()
                return fut
            self.free.append(conn)
        return fut


class _Capture(logging.Handler):
    def __init__(self):
        super().__init__(level=0)
        self.retries = []

    def emit(self, record):
        if record.getMessage().startswith('encountered pymysql error, retrying') and record.exc_info:
            self.retries.append((canon(record.exc_info[1]), record.levelno))


async def run_case(case):
    server = Server(case.get('init', []))
    pool = FakePool(server, case.get('hist', []), case.get('chunk', 1))
    if case.get('dirty_pool'):
        # a connection that somehow got back to the pool with an open transaction (must never be produced by the code itself)
        c = FakeConn(pool)
        c.pending = [-99]
        c.in_trans = True
        pool.free.append(c)
    db = gd.Database()
    db.pool = pool
    db.connection_release_task_manager = BackgroundTaskManager()
    sleeps = []

    async def fake_sleep_before_try(tries, *a, **k):
        sleeps.append(tries)
        pool.next_attempt()
        await asyncio.sleep(0)

    gd.sleep_before_try = fake_sleep_before_try
    cap = _Capture()
    gd.log.addHandler(cap)
    gd.log.setLevel(1)
    gd.log.propagate = False
    entry = case['entry']
    n = case.get('n', 1)
    nargs = max(1, int(case.get('nargs', 1)))
    one = tuple(range(nargs))
    try:
        if entry == 'transaction':
            @gd.transaction(db)
            async def op(tx, a, kw=None):
                assert a == 'a' and kw == 'kw'
                for i in range(n):
                    await tx.just_execute('INSERT W', (i,))
                return 'done'
            val = await op('a', kw='kw')
            ok = val == 'done'
        elif entry == 'just_execute':
            val = await db.just_execute('INSERT W', one)
            ok = val is None
        elif entry == 'execute_update':
            val = await db.execute_update('UPDATE W', one)
            ok = val == 1
        elif entry == 'execute_insertone':
            val = await db.execute_insertone('INSERT W', one)
            ok = val == 7
        elif entry == 'execute_many':
            val = await db.execute_many('INSERT W', [(i,) for i in range(n)])
            ok = val == (n if n else None)
        elif entry == 'execute_and_fetchone':
            val = await db.execute_and_fetchone('UPDATE W', one)
            ok = val == {'rc': 0}
        elif entry == 'select_and_fetchone':
            val = await db.select_and_fetchone('SELECT W', one)
            ok = val == {'rc': 0}
        elif entry == 'check_call_procedure':
            val = await db.check_call_procedure('CALL W', one)
            ok = val == {'rc': 0}
        elif entry in ('execute_and_fetchall', 'select_and_fetchall'):
            val = [row async for row in getattr(db, entry)('UPDATE W' if entry == 'execute_and_fetchall' else 'SELECT W', one)]
            ok = val == [{'r': 1}, {'r': 2}]
        else:
            raise SystemExit(f'c27_dbtx: unknown entry {entry}')
        result = 'ok' if ok else {'cls': 'Other:wrong-return-value', 'code': None, 'msg': repr(val)[:200]}
    except Exception as ex:  # noqa
        result = canon(ex)
    finally:
        gd.log.removeHandler(cap)
    # quiescence: let the background connection releases finish
    for _ in range(50):
        if not db.connection_release_task_manager.tasks:
            break
        await asyncio.sleep(0)
    else:
        raise SystemExit('c27_dbtx: background release tasks did not finish')
    final = list(server.committed)
    after = pool.after + [final]                                # committed log after attempt k
    errs = [r[0] for r in cap.retries]
    # the retry wrapper logs every retried exception; the last attempt's outcome is the call's outcome
    per_attempt = errs + [None if result == 'ok' else result]
    trace = [[per_attempt[k] if k < len(per_attempt) else {'cls': 'Other:unlogged', 'code': None}, enc(after[k])] for k in range(len(after))]
    return {'result': result, 'attempts': pool.attempt + 1, 'acquisitions': pool.acquisitions, 'trace': trace, 'final': enc(final),
            'fired': pool.fired, 'levels': [r[1] for r in cap.retries], 'sleeps': sleeps, 'n_retry_logs': len(errs),
            'pool_dirty': any(c.in_trans or c.pending for c in pool.free)}


def hierarchy():
    names = PY_CLASSES
    return {a: [b for b in names if issubclass(getattr(pymysql.err, a), getattr(pymysql.err, b))] for a in names}


async def main_async(req):
    out = []
    for c in req.get('cases', []):
        out.append(await asyncio.wait_for(run_case(c), 30))
    return out


def main():
    req = json.load(sys.stdin)
    logging.getLogger('gear.database').setLevel(1)
    logging.lastResort = None
    out = asyncio.run(main_async(req))
    json.dump({'results': out, 'hierarchy': hierarchy() if req.get('hierarchy') else None}, sys.stdout)


main()
