#!/usr/bin/env python3
"""tools/confirm_seeded.py SRC_DIR...   — confirm candidate breaking changes and file them under /verif/seeded/.

Each SRC_DIR/<ID>/ holds patch.diff (+ demo.py and/or scenario.md, notes.md) produced by an independent sub-agent that saw
only the property text and a scratch worktree.  For each candidate this script, in its own scratch worktree of /repo:
  1. applies patch.diff (must apply cleanly to HEAD),
  2. runs the demonstration (demo.py <worktree>) and expects exit 1,
  3. runs the pinned test suite in the worktree and expects it to pass with the same count as on the unchanged tree,
  4. reverts the patch and expects the demonstration to exit 0,
and only then copies the directory to /verif/seeded/<ID>-<n>/ with meta.json.  The worktree is removed afterwards.
"""
import json
import os
import re
import shutil
import subprocess
import sys
from concurrent.futures import ThreadPoolExecutor

HERE = os.path.dirname(os.path.dirname(os.path.abspath(__file__)))
SEEDED = os.path.join(HERE, 'seeded')
PYTEST = '/venv/bin/python -m pytest -q -p no:cacheprovider --timeout=900 --continue-on-collection-errors'


def sh(cmd, **kw):
    return subprocess.run(cmd, shell=True, capture_output=True, text=True, **kw)


def needs_from_notes(d):
    p = os.path.join(d, 'notes.md')
    if not os.path.exists(p):
        return ''
    txt = open(p).read()
    m = re.search(r'(?is)(trigger|needs|manifest)[^\n]*\n(.{0,900})', txt)
    return (m.group(0) if m else txt[:900]).strip()


def confirm(src):
    pid = os.path.basename(src.rstrip('/'))
    wt = f'/tmp/seedconf-{pid}-{os.getpid()}'
    sh(f'git -C /repo worktree remove --force {wt}')
    r = sh(f'git -C /repo worktree add --detach {wt} HEAD')
    if r.returncode != 0:
        return pid, False, 'worktree: ' + r.stderr[-200:]
    ran = []
    try:
        patch = os.path.join(src, 'patch.diff')
        r = sh(f'git -C {wt} apply {patch}')
        ran.append(f'git apply patch.diff -> rc {r.returncode}')
        if r.returncode != 0:
            return pid, False, 'patch does not apply: ' + r.stderr[-300:]
        demo = os.path.join(src, 'demo.py')
        has_demo = os.path.exists(demo)
        env = dict(os.environ, PYTHONHASHSEED='0')
        if has_demo:
            r1 = sh(f'cd {src} && timeout 1500 /venv/bin/python demo.py {wt}', env=env)
            ran.append(f'demo.py <patched worktree> -> rc {r1.returncode}')
            if r1.returncode != 1:
                return pid, False, f'demo with patch exit {r1.returncode}: {(r1.stdout + r1.stderr)[-400:]}'
        rt = sh(f'cd {wt} && timeout 1800 {PYTEST}', env=env)
        m = re.search(r'(\d+) passed', rt.stdout)
        passed = int(m.group(1)) if m else -1
        bad = re.search(r'(\d+) failed', rt.stdout)   # the 12 collection errors are the same on the unchanged tree
        ran.append(f'pinned suite in patched worktree -> {passed} passed' + (f', {bad.group(0)}' if bad else ''))
        if passed != 63 or bad:
            return pid, False, 'pinned suite: ' + rt.stdout[-300:]
        sh(f'git -C {wt} apply -R {patch}')
        if has_demo:
            r0 = sh(f'cd {src} && timeout 1500 /venv/bin/python demo.py {wt}', env=env)
            ran.append(f'demo.py <unchanged worktree> -> rc {r0.returncode}')
            if r0.returncode != 0:
                return pid, False, f'demo without patch exit {r0.returncode}: {(r0.stdout + r0.stderr)[-400:]}'
        n = 1
        while os.path.exists(os.path.join(SEEDED, f'{pid}-{n}')):
            n += 1
        dst = os.path.join(SEEDED, f'{pid}-{n}')
        shutil.copytree(src, dst, ignore=shutil.ignore_patterns('__pycache__'))
        files = sorted(os.listdir(dst))
        meta = {'property': pid,
                'origin': 'independent sub-agent given only the property text and a scratch worktree of /repo',
                'changed_files': re.findall(r'^\+\+\+ b/(.*)$', open(patch).read(), re.M),
                'needs_to_manifest': needs_from_notes(src),
                'demonstration': 'demo.py (exit 1 with the change, 0 without)' if has_demo else 'scenario.md (step-by-step history; stored-procedure change, no executable demo)',
                'confirmed_by': ran,
                'files': files}
        json.dump(meta, open(os.path.join(dst, 'meta.json'), 'w'), indent=1)
        return pid, True, dst
    finally:
        sh(f'git -C /repo worktree remove --force {wt}')


def main():
    os.makedirs(SEEDED, exist_ok=True)
    srcs = []
    for a in sys.argv[1:]:
        for d in sorted(os.listdir(a)):
            if os.path.exists(os.path.join(a, d, 'patch.diff')):
                srcs.append(os.path.join(a, d))
    with ThreadPoolExecutor(6) as ex:
        for pid, ok, msg in ex.map(confirm, srcs):
            print(f'{pid:6s} {"CONFIRMED" if ok else "REJECTED "} {msg}', flush=True)


if __name__ == '__main__':
    main()
