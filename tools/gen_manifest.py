#!/usr/bin/env python3
"""Regenerate MANIFEST.json from the plug-ins' META and tools/not_applicable.json."""
import importlib
import json
import os
import sys

HERE = os.path.dirname(os.path.dirname(os.path.abspath(__file__)))
sys.path.insert(0, HERE)

props = [json.loads(l) for l in open(os.path.join(HERE, 'properties.jsonl'))]
na_path = os.path.join(HERE, 'tools', 'not_applicable.json')
na_reasons = json.load(open(na_path)) if os.path.exists(na_path) else {}
checks, na = [], []
for p in props:
    pid = p['id']
    if not os.path.exists(os.path.join(HERE, 'harness', 'props', pid + '.py')):
        na.append({'property_id': pid, 'reason': na_reasons.get(pid, 'no check built yet in this round (planned design in DESIGN.md §5); not claimed')})
        continue
    plug = importlib.import_module(f'harness.props.{pid}')
    if not getattr(plug, 'READY', False):
        na.append({'property_id': pid, 'reason': na_reasons.get(pid, 'check under construction (plug-in present but not yet green on the unchanged tree); not claimed')})
        continue
    m = plug.META
    checks.append({
        'property_id': pid,
        'quick_cmd': f'./check {pid} --tier quick',
        'thorough_cmd': f'./check {pid} --tier thorough',
        'evidence_file': f'/verif/evidence/{pid}.json',
        'replay_cmd_template': f'./check {pid} --replay {{path}}',
        'engine': 'coq-proof+tie',
        'level_claimed': {'category': 'proof', 'text': ('[PARTIAL] ' if m.get('partial') else '') + m['level_text'],
                          'design_ref': m.get('design_ref', '')},
        'level_note': m['level_note'],
        'technique': m['technique'],
    })
hooks_path = os.path.join(HERE, 'tools', 'hooks.json')
hooks = json.load(open(hooks_path)) if os.path.exists(hooks_path) else {
    'guard': 'HAIL_VERIF', 'enable': 'none needed: all instrumentation lives in the harness (loader, fakes, patched clocks); HAIL_VERIF is reserved',
    'baseline_off_cmd': 'cd /repo && /venv/bin/python -m pytest -ra -q -p no:cacheprovider --timeout=900 --continue-on-collection-errors',
    'source_commits': [], 'add_only': True}
man = {
    'version': 1,
    'setup_cmd': 'make -C /verif setup',
    'hooks': hooks,
    'engines': [{'name': 'coq-proof+tie', 'path': '/verif/check',
                 'serves_properties': [c['property_id'] for c in checks],
                 'kind_free_text': 'Coq 8.16 theorems about executable Gallina models; model tied to /repo on every run by a fail-closed translator '
                                   '(regenerated model) and/or a correspondence run of the model (vm_compute) against the real code; oracle search on the implementation for replays'}],
    'checks': checks,
    'not_applicable': na,
    'notes': 'See DESIGN.md. Every check: ./check <ID> --tier quick|thorough. KNOWN_FINDINGS.json lists genuine defects recorded rather than repaired.',
}
with open(os.path.join(HERE, 'MANIFEST.json'), 'w') as f:
    json.dump(man, f, indent=1)
print(f'MANIFEST.json: {len(checks)} checks, {len(na)} not claimed')
