#!/usr/bin/env python3
"""Write seeded/RESULTS.md from seeded/RESULTS.json and each seeded/<name>/meta.json."""
import json
import os
import re

HERE = os.path.dirname(os.path.dirname(os.path.abspath(__file__)))
S = os.path.join(HERE, 'seeded')
res = json.load(open(os.path.join(S, 'RESULTS.json')))
rows = []
for name in sorted(d for d in os.listdir(S) if os.path.isdir(os.path.join(S, d))):
    meta = json.load(open(os.path.join(S, name, 'meta.json')))
    r = res.get(name, {})
    files = ', '.join(sorted({f for f in meta.get('changed_files', []) if f != 'build.yaml'}))
    if not r:
        verdict, how = 'not run', ''
    elif r.get('exit') == 1 and r.get('violations'):
        kinds = r.get('replay_kinds', [])
        inputs = [k[len('input:'):] for k in kinds if k.startswith('input:')]
        if inputs:
            verdict, how = 'caught, failing input', '; '.join(inputs[:3])
        else:
            verdict, how = 'caught, no-failing-input-found', ', '.join(kinds)
    elif r.get('exit') == 0:
        verdict, how = 'MISSED', ''
    else:
        verdict, how = f'error rc={r.get("exit")}', (r.get('stderr_tail') or '')[-120:]
    note = meta.get('strengthened', '') or meta.get('not_covered', '')
    for other, ro in (r.get('also') or {}).items():
        how += f' [{other}: ' + ('failing input' if ro.get('exit') == 1 and not ro.get('no_failing_input') else 'caught' if ro.get('exit') == 1 else 'not caught') + ']'
    rows.append((name, meta['property'], files, verdict, how, str(r.get('seconds', '')), note))
with open(os.path.join(S, 'RESULTS.md'), 'w') as f:
    f.write('# Seeded breaking changes: which check catches which change\n\n'
            'Each row: a change made by an independent sub-agent (property text + scratch worktree only), confirmed by\n'
            '`tools/confirm_seeded.py` (applies, demonstration fails with it and passes without it, pinned suite still 63 passed),\n'
            'then run against the property\'s quick check by `tools/run_seeded.py` in a scratch worktree.\n\n'
            '| change | property | files changed | verdict | replay keys | s | check strengthened because of it |\n|---|---|---|---|---|---|---|\n')
    for r in rows:
        f.write('| ' + ' | '.join(re.sub(r'\|', '/', x) for x in r) + ' |\n')
    n = len(rows)
    c = sum(1 for r in rows if r[3].startswith('caught'))
    ci = sum(1 for r in rows if r[3] == 'caught, failing input')
    f.write(f'\n{c}/{n} caught ({ci} with a concrete failing input).\n')
print(open(os.path.join(S, 'RESULTS.md')).read()[-400:])
