#!/usr/bin/env python3
"""Merge findings/<ID>.json proposals into KNOWN_FINDINGS.json (run by the maintainer before committing; never at check time)."""
import json, os, glob
HERE = os.path.dirname(os.path.dirname(os.path.abspath(__file__)))
kp = os.path.join(HERE, 'KNOWN_FINDINGS.json')
data = json.load(open(kp)) if os.path.exists(kp) else {'findings': []}
old = {(e['property'], e['key']): e for e in data['findings']}
by = {}      # the per-property files are authoritative: an entry removed there (e.g. a re-keyed finding) disappears here too
for f in sorted(glob.glob(os.path.join(HERE, 'findings', '*.json'))):
    extra = json.load(open(f))
    extra = extra if isinstance(extra, list) else extra.get('findings', [extra])
    for e in extra:
        by[(e['property'], e['key'])] = {**old.get((e['property'], e['key']), {}), **e}
data['findings'] = [by[k] for k in sorted(by)]
data['fixed_lines'] = [f"fixed: property={e['property']} {e.get('commit','?')} {e.get('what_fails','')}" for e in data['findings'] if e.get('status') == 'fixed']
json.dump(data, open(kp, 'w'), indent=1)
print(len(data['findings']), 'findings')
