#!/usr/bin/env python3
"""tools/coqmake.py <target.vo>...  — build Coq targets through the same path the checks use (regenerates the Makefile)."""
import os, sys
sys.path.insert(0, os.path.dirname(os.path.dirname(os.path.abspath(__file__))))
from harness import core
ok, log = core.coq_make(sys.argv[1:], timeout=3000)
lines = [l for l in log.split('\n') if l.strip() and not l.startswith('COQDEP')]
print('\n'.join(lines[-40:]))
sys.exit(0 if ok else 1)
