#!/usr/bin/env python3
"""Print a markdown status table of all properties from the plug-ins, the Props files, the findings and the seeded results."""
import importlib
import json
import os
import re
import sys

HERE = os.path.dirname(os.path.dirname(os.path.abspath(__file__)))
sys.path.insert(0, HERE)
from harness import core  # noqa: E402

props = [json.loads(l) for l in open(os.path.join(HERE, 'properties.jsonl'))]
known = json.load(open(os.path.join(HERE, 'KNOWN_FINDINGS.json')))['findings']
seeded = {}
p = os.path.join(HERE, 'seeded', 'RESULTS.json')
if os.path.exists(p):
    for name, r in json.load(open(p)).items():
        seeded.setdefault(r['property'], []).append((name, r))
print('| id | claimed | partial | theorems | tie | open findings | fixed findings | seeded changes caught |')
print('|----|---------|---------|----------|-----|---------------|----------------|------------------------|')
for pr in props:
    pid = pr['id']
    path = os.path.join(HERE, 'harness', 'props', pid + '.py')
    if not os.path.exists(path):
        print(f'| {pid} | no | | | | | | |')
        continue
    plug = importlib.import_module(f'harness.props.{pid}')
    try:
        thms = core.props_theorems(plug.COQ_PROPS)
    except Exception:  # noqa
        thms = []
    tie = ('T' if hasattr(plug, 'generate') else '') + ('X' if hasattr(plug, 'correspond') else '')
    op = [e['key'] for e in known if e['property'] == pid and e.get('status') == 'open']
    fx = sorted({e.get('commit', '?') for e in known if e['property'] == pid and e.get('status') == 'fixed'})
    sd = seeded.get(pid, [])
    caught = sum(1 for _, r in sd if r.get('exit') == 1 and r.get('violations'))
    print(f"| {pid} | {'yes' if getattr(plug, 'READY', False) else 'wip'} | {'partial' if plug.META.get('partial') else 'full'} | {len(thms)} | {tie} | "
          f"{len(op)} | {', '.join(fx)} | {caught}/{len(sd)} |")
