#!/usr/bin/env python3
"""setup: run every plug-in's generate() once and build all Coq targets, so that the first check is warm."""
import importlib
import os
import sys

HERE = os.path.dirname(os.path.dirname(os.path.abspath(__file__)))
sys.path.insert(0, HERE)
from harness import core  # noqa: E402

targets = []
for f in sorted(os.listdir(os.path.join(HERE, 'harness', 'props'))):
    if not f.startswith('C') or not f.endswith('.py'):
        continue
    pid = f[:-3]
    try:
        plug = importlib.import_module(f'harness.props.{pid}')
        ctx = core.Ctx(pid, 'quick', 0)
        try:
            if hasattr(plug, 'generate'):
                plug.generate(ctx)
        finally:
            ctx.cleanup()
        targets.append(plug.COQ_PROPS[:-2] + '.vo')
        targets += [t[:-2] + '.vo' for t in getattr(plug, 'COQ_EXTRA', [])]
    except Exception as e:  # noqa
        print(f'prebuild: {pid}: generate failed ({e}); its check will report it', file=sys.stderr)
ok, log = core.coq_make(targets, timeout=3000)
print('prebuild:', 'ok' if ok else 'some targets failed (the affected checks will report them)')
if not ok:
    print(log[-3000:])
sys.exit(0)
