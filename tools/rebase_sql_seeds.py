#!/usr/bin/env python3
"""Re-number seeded SQL migrations after /repo gained migration 124 (the C03 fix): a seeded patch that adds batch/sql/124-x.sql and a
build.yaml entry is regenerated as 125-x.sql with its build.yaml entry after the 124 entry.  The change itself is untouched; the
original patch is kept as patch.orig.diff."""
import os, re, subprocess, sys, json
HERE = os.path.dirname(os.path.dirname(os.path.abspath(__file__)))
S = os.path.join(HERE, 'seeded')
def sh(c): return subprocess.run(c, shell=True, capture_output=True, text=True)
for name in sorted(os.listdir(S)):
    d = os.path.join(S, name); p = os.path.join(d, 'patch.diff')
    if not os.path.isfile(p): continue
    txt = open(p).read()
    m = re.search(r'^\+\+\+ b/batch/sql/(124-[^\n]+\.sql)$', txt, re.M)
    if not m: continue
    if sh(f'git -C /repo apply --check {p}').returncode == 0: continue
    old = m.group(1); new = '125' + old[3:]
    wt = f'/tmp/rebase-{name}'
    sh(f'git -C /repo worktree remove --force {wt}'); sh(f'git -C /repo worktree add --detach {wt} HEAD')
    r = sh(f'git -C {wt} apply --exclude=build.yaml {p}')
    if r.returncode != 0:
        print(name, 'cannot apply even without build.yaml:', r.stderr[-200:]); sh(f'git -C /repo worktree remove --force {wt}'); continue
    os.rename(f'{wt}/batch/sql/{old}', f'{wt}/batch/sql/{new}')
    y = open(f'{wt}/build.yaml').read()
    anchor = "        script: /io/sql/124-attempts-before-update-timeout-after-reason.sql\n        online: true\n"
    assert anchor in y
    entry = re.search(r'^\+\s+- name: ([^\n]+)\n', txt, re.M).group(1)
    y = y.replace(anchor, anchor + f"      - name: {entry}\n        script: /io/sql/{new}\n        online: true\n")
    open(f'{wt}/build.yaml', 'w').write(y)
    sh(f'git -C {wt} add -A')
    diff = sh(f'git -C {wt} diff --cached').stdout
    if not os.path.exists(os.path.join(d, 'patch.orig.diff')):
        os.rename(p, os.path.join(d, 'patch.orig.diff'))
    open(p, 'w').write(diff)
    meta = json.load(open(os.path.join(d, 'meta.json')))
    meta['rebased'] = f'migration renumbered {old} -> {new} after /repo gained migration 124 (fix 6af50f162); original in patch.orig.diff'
    json.dump(meta, open(os.path.join(d, 'meta.json'), 'w'), indent=1)
    sh(f'git -C /repo worktree remove --force {wt}')
    print(name, old, '->', new, 'ok' if sh(f'git -C /repo apply --check {p}').returncode == 0 else 'STILL FAILS')
