#!/usr/bin/env python3
"""tools/run_seeded.py [ID ...]  — run the checks against the seeded breaking changes kept under /verif/seeded/.

For every /verif/seeded/<name>/ (patch.diff + meta.json with "property"): create a scratch git worktree of /repo,
apply the patch, run `VERIF_REPO=<worktree> ./check <property> --tier quick`, record exit status, the VIOLATION line
and the kind of replay, remove the worktree.  Results go to /verif/seeded/RESULTS.json (and a table on stdout).
The unchanged /repo is never touched.
"""
import json
import os
import subprocess
import sys
import threading
import time
from concurrent.futures import ThreadPoolExecutor

HERE = os.path.dirname(os.path.dirname(os.path.abspath(__file__)))
SEEDED = os.path.join(HERE, 'seeded')


def sh(cmd, **kw):
    return subprocess.run(cmd, shell=True, capture_output=True, text=True, **kw)


def main():
    want = set(sys.argv[1:])
    names = sorted(d for d in os.listdir(SEEDED) if os.path.isdir(os.path.join(SEEDED, d)))
    res_path = os.path.join(SEEDED, 'RESULTS.json')
    results = json.load(open(res_path)) if os.path.exists(res_path) else {}
    lock = threading.Lock()

    def one(name):
        if want and name not in want and name.split('-')[0] not in want:
            return
        d = os.path.join(SEEDED, name)
        meta = json.load(open(os.path.join(d, 'meta.json')))
        pid = meta['property']
        wt = f'/tmp/seedrun-{name}-{os.getpid()}'
        sh(f'git -C /repo worktree remove --force {wt}')
        r = sh(f'git -C /repo worktree add --detach {wt} HEAD')
        if r.returncode != 0:
            print(name, 'worktree failed', r.stderr[-300:])
            return
        try:
            r = sh(f'git -C {wt} apply {os.path.join(d, "patch.diff")}')
            if r.returncode != 0:
                results[name] = {'property': pid, 'applied': False, 'error': r.stderr[-500:]}
                print(f'{name:28s} {pid}  PATCH DOES NOT APPLY')
                return
            t0 = time.time()
            env = dict(os.environ, VERIF_REPO=wt, VERIF_NO_CACHE='0')
            r = subprocess.run(['timeout', '3000', './check', pid, '--tier', 'quick'], cwd=HERE, capture_output=True, text=True, env=env)
            lines = [l for l in r.stdout.split('\n') if l.startswith('VIOLATION')]
            kinds = []
            for l in lines:
                path = l.split('replay=')[1].split()[0]
                try:
                    doc = json.load(open(path))
                    kinds.append(doc.get('kind') + (':' + str(doc.get('name')) if doc.get('kind') == 'input' else ''))
                except Exception:  # noqa
                    kinds.append('?')
            results[name] = {'property': pid, 'applied': True, 'exit': r.returncode, 'violations': lines, 'replay_kinds': kinds,
                             'no_failing_input': any('no-failing-input-found' in l for l in lines), 'seconds': round(time.time() - t0),
                             'stderr_tail': r.stderr[-600:]}
            # the change may really break a neighbouring property (meta "also_check"): run that check too
            for other in meta.get('also_check', []):
                r2 = subprocess.run(['timeout', '3000', './check', other, '--tier', 'quick'], cwd=HERE, capture_output=True, text=True, env=env)
                l2 = [l for l in r2.stdout.split('\n') if l.startswith('VIOLATION')]
                results[name].setdefault('also', {})[other] = {'exit': r2.returncode, 'violations': l2,
                                                               'no_failing_input': any('no-failing-input-found' in l for l in l2)}
            verdict = 'CAUGHT' if r.returncode == 1 and lines else ('MISSED' if r.returncode == 0 else f'ERROR rc={r.returncode}')
            print(f'{name:28s} {pid}  {verdict:8s} {kinds}  {round(time.time() - t0)}s')
        finally:
            sh(f'git -C /repo worktree remove --force {wt}')
            import hashlib
            sh('rm -rf ' + os.path.join(HERE, '.work', 'scratch-coq', hashlib.sha1(os.path.realpath(wt).encode()).hexdigest()[:12]))
        with lock:
            json.dump(results, open(res_path, 'w'), indent=1)

    with ThreadPoolExecutor(int(os.environ.get('SEEDED_JOBS', '5'))) as ex:
        list(ex.map(one, names))


if __name__ == '__main__':
    main()
