(** C34 — property theorems only.  [Py.*] and [Scala.*] are the definitions GENERATED from the current Python and Scala
    sources (HailG.C34.Gen); [engine_pack]/[engine_unpack] add the two hand-modelled `match` dispatches of CallN.apply and
    Call.alleles.  [valid_call] is the engine's representable range: ploidy 0-2, alleles >= 0, unphased diploid calls
    normalised (a0 <= a1), allele representation < 2^29 (haploid: the allele; diploid: k(k+1)/2 + j, k = a0 + a1 if phased). *)
From HailV Require Import Common.Prelude CallPacking.Model CallPacking.Arith CallPacking.LemmasScala CallPacking.LemmasPy
  CallPacking.Lemmas.
From HailG Require Import C34.Gen.
Open Scope Z_scope.

(** The Python front end packs every representable call into exactly the 32-bit word the engine produces for it
    (a signed int32 whose bits are  phased | ploidy << 1 | repr << 3). *)
Theorem C34_py_eq_engine : forall c : pycall, valid_call c ->
  Py.convert_to_encoding c = engine_pack c /\
  exists w, engine_pack c = Some w /\ - 2 ^ 31 <= w < 2 ^ 31 /\
            w mod 2 ^ 32 = b2i (snd c) + 2 * py_len (fst c) + 8 * repr_of c.
Proof. exact thm_py_eq_engine. Qed.
Print Assumptions C34_py_eq_engine.

(** Python: unpack (pack c) = c. *)
Theorem C34_unpack_pack : forall c : pycall, valid_call c ->
  bind (Py.convert_to_encoding c) Py.convert_from_encoding = Some c.
Proof. exact thm_unpack_pack. Qed.
Print Assumptions C34_unpack_pack.

(** Engine: the word the engine (or Python) packs unpacks, on the engine side, to the same call; and the Python decoder
    reads the engine's word back as the same call. *)
Theorem C34_engine_unpack_pack : forall c : pycall, valid_call c ->
  bind (engine_pack c) engine_unpack = Some c /\
  bind (Py.convert_to_encoding c) engine_unpack = Some c /\
  bind (engine_pack c) Py.convert_from_encoding = Some c.
Proof. exact thm_engine_unpack_pack. Qed.
Print Assumptions C34_engine_unpack_pack.

(** Genotype index <-> allele pair is a bijection between { i | 0 <= i < 2^29 } and { (j, k) | 0 <= j <= k, k(k+1)/2 + j < 2^29 },
    on the engine side and in Python, and the index is the VCF ordering k(k+1)/2 + j. *)
Theorem C34_gt_index_bijection :
  (forall j k, 0 <= j <= k -> gt_index j k < 2 ^ 29 ->
     Scala.Genotype_diploidGtIndex j k = Some (k * (k + 1) / 2 + j) /\
     bind (Scala.Genotype_allelePair (gt_index j k))
          (fun p => bind (Scala.AllelePair_j p) (fun j' => bind (Scala.AllelePair_k p) (fun k' => Some (j', k')))) = Some (j, k) /\
     Py.unphased_diploid_gt_index ([j; k], false) = Some (k * (k + 1) / 2 + j) /\
     bind (Py.convert_to_encoding ([j; k], false)) Py.convert_from_encoding = Some ([j; k], false)) /\
  (forall i, 0 <= i < 2 ^ 29 ->
     exists j k, 0 <= j <= k /\ gt_index j k = i /\ Scala.Genotype_allelePair i = Some (j + k * 2 ^ 16) /\
                 Scala.Genotype_diploidGtIndex j k = Some i) /\
  (forall j k j' k', 0 <= j <= k -> 0 <= j' <= k' ->
     (gt_index j k = gt_index j' k' -> j = j' /\ k = k') /\
     (gt_index j k < gt_index j' k' <-> k < k' \/ (k = k' /\ j < j'))).
Proof. exact thm_gt_index_bijection. Qed.
Print Assumptions C34_gt_index_bijection.


(** Packing is injective: distinct representable calls never share a 32-bit word (Python vs Python, engine vs engine,
    Python vs engine). *)
Theorem C34_pack_injective : forall c1 c2 : pycall, valid_call c1 -> valid_call c2 ->
  (Py.convert_to_encoding c1 = Py.convert_to_encoding c2 -> c1 = c2) /\
  (engine_pack c1 = engine_pack c2 -> c1 = c2) /\
  (Py.convert_to_encoding c1 = engine_pack c2 -> c1 = c2).
Proof. exact thm_pack_injective. Qed.
Print Assumptions C34_pack_injective.
