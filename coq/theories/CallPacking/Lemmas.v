(** C34 — the engine-side dispatch (hand-modelled from the two `match` blocks CallN.apply and Call.alleles, which are
    outside the translated subset) over the GENERATED Scala functions, and the property-level lemmas. *)
From HailV Require Import Common.Prelude CallPacking.Model CallPacking.Arith CallPacking.LemmasScala CallPacking.LemmasPy.
From HailG Require Import C34.Gen.
Open Scope Z_scope.

(** CallN.apply(alleles, phased):  (ploidy: @switch) match { case 0 => Call0(phased); case 1 => Call1(alleles(0), phased);
    case 2 => Call2(alleles(0), alleles(1), phased); case _ => throw } *)
Definition engine_pack (c : pycall) : option Z :=
  match c with
  | ([], ph) => Scala.Call0_apply ph
  | ([a], ph) => Scala.Call1_apply a ph
  | ([a0; a1], ph) => Scala.Call2_apply a0 a1 ph
  | _ => None
  end.

(** (Call.alleles(c), Call.isPhased(c)):  ploidy 0 => ArraySeq(); 1 => ArraySeq(alleleByIndex(c, 0)) = alleleRepr(c);
    2 => AllelePair.alleleIndices(allelePair(c)) = (j(p), k(p)) *)
Definition engine_unpack (w : Z) : option pycall :=
  bind (Scala.Call_ploidy w) (fun pl =>
  bind (Scala.Call_isPhased w) (fun ph =>
    if pl =? 0 then Some ([], ph)
    else if pl =? 1 then bind (Scala.Call_alleleRepr w) (fun a => Some ([a], ph))
    else if pl =? 2 then
      bind (Scala.Call_allelePair w) (fun p =>
      bind (Scala.AllelePair_j p) (fun j => bind (Scala.AllelePair_k p) (fun k => Some ([j; k], ph))))
    else None)).

Lemma engine_pack_spec c : valid_call c -> engine_pack c = Some (spec_pack c).
Proof.
  intros Hv. destruct c as [[|a0 [|a1 [|a2 l]]] ph]; cbn [valid_call] in Hv; unfold max_repr in Hv; cbn [engine_pack].
  - apply s_Call0_apply.
  - apply s_Call1_apply. exact Hv.
  - destruct ph.
    + destruct Hv as [H0 [H1 Hlt]]. apply s_Call2_apply_phased; assumption.
    + destruct Hv as [H0 Hlt]. apply s_Call2_apply_unphased; assumption.
  - destruct ph; contradiction.
Qed.

Lemma engine_unpack_spec c : valid_call c -> engine_unpack (spec_pack c) = Some c.
Proof.
  intros Hv. pose proof (valid_repr c Hv) as [Hr Hp]. unfold engine_unpack, spec_pack, spec_word.
  rewrite (s_ploidy (snd c) (py_len (fst c)) (repr_of c) ltac:(lia) Hr). cbn [bind].
  rewrite (s_isPhased (snd c) (py_len (fst c)) (repr_of c) ltac:(lia) Hr). cbn [bind].
  destruct c as [[|a0 [|a1 [|a2 l]]] ph]; cbn [valid_call] in Hv; unfold max_repr in Hv;
    cbn [repr_of fst snd py_len length Z.of_nat Pos.of_succ_nat Pos.succ] in *.
  - reflexivity.
  - change (1 =? 0) with false. change (1 =? 1) with true. cbv iota.
    rewrite (s_alleleRepr ph 1 a0 ltac:(lia) Hr). reflexivity.
  - change (2 =? 0) with false. change (2 =? 1) with false. change (2 =? 2) with true. cbv iota. destruct ph.
    + destruct Hv as [H0 [H1 Hlt]]. pose proof (row_bound a0 (a0 + a1) ltac:(lia) Hlt) as Hk.
      rewrite s_allelePair_phased by assumption. cbn [bind].
      rewrite s_AllelePair_j, s_AllelePair_k by lia. reflexivity.
    + destruct Hv as [H0 Hlt]. pose proof (row_bound a0 a1 H0 Hlt) as Hk.
      rewrite s_allelePair_unphased by assumption. cbn [bind].
      rewrite s_AllelePair_j, s_AllelePair_k by lia. reflexivity.
  - destruct ph; contradiction.
Qed.

Lemma spec_pack_int32 c : valid_call c -> - 2 ^ 31 <= spec_pack c < 2 ^ 31.
Proof.
  intros Hv. pose proof (valid_repr c Hv) as [Hr Hp]. apply to_signed32_range. apply word_range; lia.
Qed.

(** layout of the packed word *)
Lemma spec_pack_layout c : valid_call c ->
  spec_pack c mod 2 ^ 32 = b2i (snd c) + 2 * py_len (fst c) + 8 * repr_of c.
Proof.
  intros Hv. pose proof (valid_repr c Hv) as [Hr Hp]. unfold spec_pack. rewrite to_signed32_mod by (apply word_range; lia).
  reflexivity.
Qed.

(** genotype index <-> allele pair on the engine side *)
Lemma engine_pair_of_index j k : 0 <= j <= k -> gt_index j k < 2 ^ 29 ->
  Scala.Genotype_diploidGtIndex j k = Some (gt_index j k) /\
  bind (Scala.Genotype_allelePair (gt_index j k))
       (fun p => bind (Scala.AllelePair_j p) (fun j' => bind (Scala.AllelePair_k p) (fun k' => Some (j', k')))) = Some (j, k).
Proof.
  intros H Hlt. pose proof (row_bound j k H Hlt) as Hk. split; [apply s_diploidGtIndex; lia|].
  rewrite s_allelePair by (pose proof (gt_index_nonneg j k); lia). rewrite pair_of_gt_index by exact H. cbn [bind].
  rewrite s_AllelePair_j, s_AllelePair_k by lia. reflexivity.
Qed.

Lemma engine_index_of_pair i : 0 <= i < 2 ^ 29 ->
  exists j k, 0 <= j <= k /\ gt_index j k = i /\ Scala.Genotype_allelePair i = Some (j + k * 2 ^ 16) /\
              Scala.Genotype_diploidGtIndex j k = Some i.
Proof.
  intros Hi. pose proof (pair_of_spec i ltac:(lia)) as Hs. pose proof (pair_of_bound i Hi) as Hb.
  pose proof (s_allelePair i Hi) as Ha. destruct (pair_of i) as [j k]. destruct Hs as [H1 H2]. destruct Hb as [_ Hk].
  exists j, k. split; [exact H1|]. split; [exact H2|]. split; [exact Ha|].
  rewrite s_diploidGtIndex by lia. rewrite H2. reflexivity.
Qed.

(* ---------------------------------------------------------------- the property statements *)
Lemma thm_py_eq_engine : forall c : pycall, valid_call c ->
  Py.convert_to_encoding c = engine_pack c /\
  exists w, engine_pack c = Some w /\ - 2 ^ 31 <= w < 2 ^ 31 /\
            w mod 2 ^ 32 = b2i (snd c) + 2 * py_len (fst c) + 8 * repr_of c.
Proof.
  intros c Hv. rewrite (p_encode c Hv), (engine_pack_spec c Hv). split; [reflexivity|].
  exists (spec_pack c). split; [reflexivity|]. split; [apply spec_pack_int32; exact Hv | apply spec_pack_layout; exact Hv].
Qed.

Lemma thm_unpack_pack : forall c : pycall, valid_call c ->
  bind (Py.convert_to_encoding c) Py.convert_from_encoding = Some c.
Proof. intros c Hv. rewrite (p_encode c Hv). cbn [bind]. apply p_decode. exact Hv. Qed.

Lemma thm_engine_unpack_pack : forall c : pycall, valid_call c ->
  bind (engine_pack c) engine_unpack = Some c /\
  bind (Py.convert_to_encoding c) engine_unpack = Some c /\
  bind (engine_pack c) Py.convert_from_encoding = Some c.
Proof.
  intros c Hv. rewrite (p_encode c Hv), (engine_pack_spec c Hv). cbn [bind].
  split; [apply engine_unpack_spec; exact Hv|]. split; [apply engine_unpack_spec; exact Hv | apply p_decode; exact Hv].
Qed.

Lemma thm_gt_index_bijection :
  (forall j k, 0 <= j <= k -> gt_index j k < 2 ^ 29 ->
     Scala.Genotype_diploidGtIndex j k = Some (k * (k + 1) / 2 + j) /\
     bind (Scala.Genotype_allelePair (gt_index j k))
          (fun p => bind (Scala.AllelePair_j p) (fun j' => bind (Scala.AllelePair_k p) (fun k' => Some (j', k')))) = Some (j, k) /\
     Py.unphased_diploid_gt_index ([j; k], false) = Some (k * (k + 1) / 2 + j) /\
     bind (Py.convert_to_encoding ([j; k], false)) Py.convert_from_encoding = Some ([j; k], false)) /\
  (forall i, 0 <= i < 2 ^ 29 ->
     exists j k, 0 <= j <= k /\ gt_index j k = i /\ Scala.Genotype_allelePair i = Some (j + k * 2 ^ 16) /\
                 Scala.Genotype_diploidGtIndex j k = Some i) /\
  (forall j k j' k', 0 <= j <= k -> 0 <= j' <= k' ->
     (gt_index j k = gt_index j' k' -> j = j' /\ k = k') /\
     (gt_index j k < gt_index j' k' <-> k < k' \/ (k = k' /\ j < j'))).
Proof.
  split; [|split].
  - intros j k H Hlt. destruct (engine_pair_of_index j k H Hlt) as [E1 E2].
    split; [exact E1|]. split; [exact E2|]. split; [apply p_unphased_diploid_gt_index; exact H|].
    assert (Hv : valid_call ([j; k], false)) by (cbn; unfold max_repr; auto).
    rewrite (p_encode _ Hv). cbn [bind]. apply p_decode. exact Hv.
  - exact engine_index_of_pair.
  - intros j k j' k' H H'. split; [apply gt_index_inj; assumption | apply gt_index_order; assumption].
Qed.

(** Packing is injective on the representable range: two distinct calls never share a 32-bit word, whether the word was
    produced by Python or by the engine (a corollary of the round trips; stated on its own because a decoder that
    normalises two words to one call would still satisfy unpack . pack = id only if the packer were injective). *)
Lemma thm_pack_injective : forall c1 c2 : pycall, valid_call c1 -> valid_call c2 ->
  (Py.convert_to_encoding c1 = Py.convert_to_encoding c2 -> c1 = c2) /\
  (engine_pack c1 = engine_pack c2 -> c1 = c2) /\
  (Py.convert_to_encoding c1 = engine_pack c2 -> c1 = c2).
Proof.
  intros c1 c2 H1 H2.
  pose proof (thm_unpack_pack c1 H1) as U1. pose proof (thm_unpack_pack c2 H2) as U2.
  destruct (thm_engine_unpack_pack c1 H1) as [E1 [_ _]]. destruct (thm_engine_unpack_pack c2 H2) as [E2 [_ X2]].
  split; [|split]; intros Heq.
  - rewrite Heq in U1. rewrite U1 in U2. congruence.
  - rewrite Heq in E1. rewrite E1 in E2. congruence.
  - rewrite Heq in U1. rewrite U1 in X2. congruence.
Qed.

Example valid_call_examples :
  valid_call ([], true) /\ valid_call ([536870911], false) /\ valid_call ([16383; 32767], false) /\
  valid_call ([0; 32767], true) /\ ~ valid_call ([16384; 32767], false) /\ ~ valid_call ([536870912], true).
Proof. vm_compute. repeat split; intros; try discriminate; try tauto; intuition discriminate. Qed.
