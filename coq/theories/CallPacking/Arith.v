(** C34 — arithmetic facts: 32-bit wrap-around, bit operations as arithmetic, triangular numbers and the
    integer square root. *)
From HailV Require Import Common.Prelude CallPacking.Model.
Open Scope Z_scope.

(* ---------------------------------------------------------------- wrap32 *)
Lemma wrap32_small x : - 2 ^ 31 <= x < 2 ^ 31 -> wrap32 x = x.
Proof. unfold wrap32. intros H. change (2 ^ 31) with 2147483648 in *. change (2 ^ 32) with 4294967296. lia. Qed.

Definition to_signed32 (w : Z) : Z := if w <? 2 ^ 31 then w else w - 2 ^ 32.

Lemma wrap32_unsigned w : 0 <= w < 2 ^ 32 -> wrap32 w = to_signed32 w.
Proof.
  unfold wrap32, to_signed32. intros H. change (2 ^ 31) with 2147483648 in *. change (2 ^ 32) with 4294967296 in *.
  destruct (w <? 2147483648) eqn:E; lia.
Qed.

Lemma to_signed32_range w : 0 <= w < 2 ^ 32 -> - 2 ^ 31 <= to_signed32 w < 2 ^ 31.
Proof.
  unfold to_signed32. intros H. change (2 ^ 31) with 2147483648 in *. change (2 ^ 32) with 4294967296 in *.
  destruct (w <? 2147483648) eqn:E; lia.
Qed.

Lemma to_signed32_mod w : 0 <= w < 2 ^ 32 -> (to_signed32 w) mod 2 ^ 32 = w.
Proof.
  unfold to_signed32. intros H. change (2 ^ 31) with 2147483648 in *. change (2 ^ 32) with 4294967296 in *.
  destruct (w <? 2147483648) eqn:E; lia.
Qed.

(* ---------------------------------------------------------------- bit operations as arithmetic *)
Lemma land_low_high a b n : 0 <= n -> 0 <= a < 2 ^ n -> Z.land a (b * 2 ^ n) = 0.
Proof.
  intros Hn Ha. apply Z.bits_inj'. intros m Hm. rewrite Z.land_spec, Z.bits_0.
  destruct (Z.lt_ge_cases m n) as [Hlt | Hge].
  - rewrite (Z.mul_pow2_bits_low b n m Hlt). apply andb_false_r.
  - assert (Z.testbit a m = false) as ->; [|reflexivity].
    destruct (Z.eq_dec a 0) as [-> | Hne]; [apply Z.bits_0|].
    apply Z.bits_above_log2; [lia|].
    assert (Z.log2 a < n); [|lia]. apply Z.log2_lt_pow2; lia.
Qed.

Lemma lor_disjoint a b n : 0 <= n -> 0 <= a < 2 ^ n -> Z.lor a (b * 2 ^ n) = a + b * 2 ^ n.
Proof.
  intros Hn Ha. pose proof (land_low_high a b n Hn Ha) as H.
  rewrite <- (Z.lxor_lor _ _ H). symmetry. apply Z.add_nocarry_lxor. exact H.
Qed.

Lemma lor_disjoint' a b n : 0 <= n -> 0 <= a < 2 ^ n -> Z.lor (b * 2 ^ n) a = a + b * 2 ^ n.
Proof. intros. rewrite Z.lor_comm. apply lor_disjoint; assumption. Qed.

Lemma land_mod a n : 0 <= n -> Z.land a (2 ^ n - 1) = a mod 2 ^ n.
Proof. intros Hn. rewrite <- Z.land_ones by exact Hn. rewrite Z.ones_equiv. reflexivity. Qed.

Lemma land_1 a : Z.land a 1 = a mod 2.
Proof. exact (land_mod a 1 ltac:(lia)). Qed.
Lemma land_3 a : Z.land a 3 = a mod 4.
Proof. exact (land_mod a 2 ltac:(lia)). Qed.
Lemma land_ffff a : Z.land a 65535 = a mod 65536.
Proof. exact (land_mod a 16 ltac:(lia)). Qed.

(* ---------------------------------------------------------------- triangular numbers *)
Definition tri (k : Z) : Z := k * (k + 1) / 2.

Lemma tri_double k : 2 * tri k = k * (k + 1).
Proof.
  unfold tri. assert (H : exists m, k * (k + 1) = 2 * m).
  { assert (Hk : k = 2 * (k / 2) \/ k = 2 * (k / 2) + 1) by lia. set (q := k / 2) in *. destruct Hk as [Hk | Hk].
    - exists (q * (k + 1)). rewrite Hk at 1. ring.
    - exists (k * (q + 1)). rewrite Hk at 2. ring. }
  destruct H as [m Hm]. rewrite Hm. lia.
Qed.

Lemma gt_index_tri j k : gt_index j k = tri k + j.
Proof. reflexivity. Qed.

Lemma tri_mono a b : 0 <= a -> a < b -> tri a + a < tri b.
Proof. intros Ha Hab. pose proof (tri_double a). pose proof (tri_double b). nia. Qed.

Lemma tri_nonneg k : 0 <= k -> 0 <= tri k.
Proof. intros H. pose proof (tri_double k). nia. Qed.

(** the integer-square-root step finds the row k of the triangle that contains i *)
Lemma fsqrt_k_spec i : 0 <= i -> let k := fsqrt_k i in 0 <= k /\ tri k <= i <= tri k + k.
Proof.
  intros Hi k. unfold fsqrt_k in k.
  pose proof (Z.sqrt_spec (8 * i + 1) ltac:(lia)) as [H1 H2].
  pose proof (Z.sqrt_nonneg (8 * i + 1)) as H0.
  set (r := Z.sqrt (8 * i + 1)) in *.
  assert (Hr1 : 1 <= r) by nia.
  assert (Hk : 2 * k + 1 <= r <= 2 * k + 2) by (unfold k; lia).
  pose proof (tri_double k) as Ht.
  split; [unfold k; lia|]. split; nia.
Qed.

Lemma fsqrt_k_unique j k : 0 <= j <= k -> fsqrt_k (gt_index j k) = k.
Proof.
  intros H. rewrite gt_index_tri.
  assert (Hi : 0 <= tri k + j) by (pose proof (tri_nonneg k); lia).
  pose proof (fsqrt_k_spec (tri k + j) Hi) as [Hk0 [Hlo Hhi]]. cbv zeta in *.
  set (k' := fsqrt_k (tri k + j)) in *.
  destruct (Z.lt_trichotomy k' k) as [Hlt | [Heq | Hgt]]; [|exact Heq|].
  - pose proof (tri_mono k' k Hk0 Hlt). lia.
  - pose proof (tri_mono k k' ltac:(lia) Hgt). lia.
Qed.

(** representations below 2^29 live in rows k <= 32767 *)
Lemma row_bound j k : 0 <= j <= k -> gt_index j k < 2 ^ 29 -> k <= 32767.
Proof.
  intros H Hlt. rewrite gt_index_tri in Hlt. pose proof (tri_double k). change (2 ^ 29) with 536870912 in Hlt. nia.
Qed.

Lemma tri_small k : 0 <= k <= 32767 -> 0 <= k * (k + 1) < 2 ^ 31.
Proof. intros H. change (2 ^ 31) with 2147483648. nia. Qed.

(** VCF ordering: gt_index enumerates the pairs j <= k row by row *)
Lemma gt_index_order j k j' k' : 0 <= j <= k -> 0 <= j' <= k' ->
  (gt_index j k < gt_index j' k' <-> k < k' \/ (k = k' /\ j < j')).
Proof.
  intros H H'. rewrite !gt_index_tri. split.
  - intros Hlt. destruct (Z.lt_trichotomy k k') as [L | [E | G]]; [left; exact L | right; subst; lia |].
    pose proof (tri_mono k' k ltac:(lia) G). lia.
  - intros [L | [-> L]]; [|lia]. pose proof (tri_mono k k' ltac:(lia) L). lia.
Qed.

Lemma gt_index_inj j k j' k' : 0 <= j <= k -> 0 <= j' <= k' -> gt_index j k = gt_index j' k' -> j = j' /\ k = k'.
Proof.
  intros H H' E.
  assert (K : k = k') by (rewrite <- (fsqrt_k_unique j k H), <- (fsqrt_k_unique j' k' H'), E; reflexivity).
  subst k'. rewrite !gt_index_tri in E. lia.
Qed.
