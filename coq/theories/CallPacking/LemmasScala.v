(** C34 — the GENERATED Scala definitions (HailG.C34.Gen.Scala) meet their arithmetic specification on the
    engine's representable range.  A semantic edit of Call.scala / Genotype.scala breaks these lemmas. *)
From HailV Require Import Common.Prelude CallPacking.Model CallPacking.Arith.
From HailG Require Import C34.Gen.
Open Scope Z_scope.

Ltac msimp := cbn [ret bind lift1 lift2 call1 call2 call3 call4 unpack2].
Ltac decide_cond c := first [ replace c with true by lia | replace c with false by lia ].
Ltac bsolve :=
  repeat (match goal with
          | |- context [if ?c then _ else _] => decide_cond c
          end; cbv iota).
Ltac consts :=
  change (2 ^ 16) with 65536 in *; change (2 ^ 29) with 536870912 in *; change (2 ^ 31) with 2147483648 in *;
  change (2 ^ 32) with 4294967296 in *; change (2 ^ 3) with 8 in *; change (2 ^ 1) with 2 in *.

(** the packed allele pair  j | k << 16  and the packed call word  phased | ploidy << 1 | repr << 3 *)
Definition ap_enc (j k : Z) : Z := j + k * 65536.
Definition word (phased : bool) (ploidy repr : Z) : Z := b2i phased + 2 * ploidy + 8 * repr.
Definition pair_of (i : Z) : Z * Z := (i - tri (fsqrt_k i), fsqrt_k i).

Lemma word_range ph pl ar : 0 <= pl <= 3 -> 0 <= ar < 2 ^ 29 -> 0 <= word ph pl ar < 2 ^ 32.
Proof. unfold word, b2i. consts. destruct ph; lia. Qed.

Lemma pair_of_spec i : 0 <= i -> let '(j, k) := pair_of i in 0 <= j <= k /\ gt_index j k = i.
Proof.
  intros Hi. unfold pair_of. pose proof (fsqrt_k_spec i Hi) as [H0 [H1 H2]]. cbv zeta in *.
  rewrite gt_index_tri. lia.
Qed.

Lemma pair_of_gt_index j k : 0 <= j <= k -> pair_of (gt_index j k) = (j, k).
Proof.
  intros H. unfold pair_of. rewrite (fsqrt_k_unique j k H). rewrite gt_index_tri. f_equal. lia.
Qed.

Lemma pair_of_bound i : 0 <= i < 2 ^ 29 -> let '(j, k) := pair_of i in 0 <= j <= k /\ k <= 32767.
Proof.
  intros Hi. pose proof (pair_of_spec i ltac:(lia)) as H. destruct (pair_of i) as [j k]. destruct H as [H1 H2].
  split; [exact H1|]. apply (row_bound j k H1). rewrite H2. lia.
Qed.

(* ---------------------------------------------------------------- AllelePair *)
Lemma s_AllelePair_apply j k : 0 <= j <= 65535 -> 0 <= k <= 32767 -> Scala.AllelePair_apply j k = Some (ap_enc j k).
Proof.
  intros Hj Hk. unfold Scala.AllelePair_apply. msimp. bsolve.
  unfold i_or, i_shl. change (16 mod 32) with 16. rewrite wrap32_small by (consts; lia).
  rewrite lor_disjoint by (consts; lia). reflexivity.
Qed.

Lemma s_AllelePair_j j k : 0 <= j <= 65535 -> 0 <= k <= 32767 -> Scala.AllelePair_j (ap_enc j k) = Some j.
Proof.
  intros Hj Hk. unfold Scala.AllelePair_j, ap_enc. msimp. unfold i_and. rewrite land_ffff. f_equal. lia.
Qed.

Lemma s_AllelePair_k j k : 0 <= j <= 65535 -> 0 <= k <= 32767 -> Scala.AllelePair_k (ap_enc j k) = Some k.
Proof.
  intros Hj Hk. unfold Scala.AllelePair_k, ap_enc. msimp. unfold i_and, i_shr. change (16 mod 32) with 16.
  rewrite land_ffff. consts. f_equal. lia.
Qed.

(* ---------------------------------------------------------------- Genotype *)
Lemma s_diploidGtIndex j k : 0 <= j <= k -> k <= 32767 -> Scala.Genotype_diploidGtIndex j k = Some (gt_index j k).
Proof.
  intros Hj Hk. unfold Scala.Genotype_diploidGtIndex. msimp. bsolve.
  pose proof (tri_small k ltac:(lia)) as Hs. pose proof (tri_double k) as Hd. consts.
  unfold i_div, i_mul, i_add. change (2 =? 0) with false. cbv iota. msimp.
  rewrite (wrap32_small (k + 1)) by (consts; lia). rewrite (wrap32_small (k * (k + 1))) by (consts; lia).
  rewrite Z.quot_div_nonneg by lia. fold (tri k).
  rewrite (wrap32_small (tri k)) by (consts; lia).
  unfold i_add. rewrite wrap32_small by (consts; lia). rewrite gt_index_tri. reflexivity.
Qed.

Lemma s_diploidGtIndexWithSwap i j : 0 <= i <= 32767 -> 0 <= j <= 32767 ->
  Scala.Genotype_diploidGtIndexWithSwap i j = Some (gt_index (Z.min i j) (Z.max i j)).
Proof.
  intros Hi Hj. unfold Scala.Genotype_diploidGtIndexWithSwap. msimp.
  destruct (j <? i) eqn:E; cbv iota; msimp.
  - rewrite s_diploidGtIndex by lia. rewrite Z.min_r, Z.max_l by lia. reflexivity.
  - rewrite s_diploidGtIndex by lia. rewrite Z.min_l, Z.max_r by lia. reflexivity.
Qed.

Lemma small_table_ok :
  Scala.Genotype_smallAllelePair_opt = map Some Scala.Genotype_smallAllelePair /\
  length Scala.Genotype_smallAllelePair = 36%nat /\
  Scala.Genotype_smallAllelePair = map (fun n => let '(j, k) := pair_of (Z.of_nat n) in ap_enc j k) (seq 0 36).
Proof. vm_compute. repeat split. Qed.

Lemma s_allelePairSqrt i : 0 <= i < 2 ^ 29 ->
  Scala.Genotype_allelePairSqrt i = Some (let '(j, k) := pair_of i in ap_enc j k).
Proof.
  intros Hi. pose proof (pair_of_bound i Hi) as Hb. pose proof (pair_of_spec i ltac:(lia)) as Hs.
  unfold pair_of in *. set (k := fsqrt_k i) in *. destruct Hb as [Hjk Hk]. destruct Hs as [_ Hgt].
  unfold Scala.Genotype_allelePairSqrt. msimp. fold k.
  pose proof (tri_small k ltac:(lia)) as Hsm. pose proof (tri_double k) as Hd. consts.
  assert (Htri : i_div (i_mul k (i_add k 1)) 2 = Some (tri k)).
  { unfold i_div, i_mul, i_add. change (2 =? 0) with false. cbv iota.
    rewrite (wrap32_small (k + 1)) by (consts; lia). rewrite (wrap32_small (k * (k + 1))) by (consts; lia).
    rewrite Z.quot_div_nonneg by lia. fold (tri k). rewrite wrap32_small by (consts; lia). reflexivity. }
  rewrite Htri. msimp. bsolve.
  unfold i_sub. rewrite wrap32_small by (consts; lia).
  rewrite s_diploidGtIndex by lia. msimp. rewrite Hgt. rewrite Z.eqb_refl. cbv iota.
  apply s_AllelePair_apply; lia.
Qed.

Lemma s_allelePair i : 0 <= i < 2 ^ 29 ->
  Scala.Genotype_allelePair i = Some (let '(j, k) := pair_of i in ap_enc j k).
Proof.
  intros Hi. unfold Scala.Genotype_allelePair. msimp.
  destruct small_table_ok as [_ [Hlen Htab]]. rewrite Hlen. change (Z.of_nat 36) with 36.
  destruct (i <? 36) eqn:E; cbv iota; msimp.
  - unfold arr_get. bsolve. rewrite Htab.
    rewrite nth_error_map. rewrite nth_error_nth' with (d := 0%nat) by (rewrite seq_length; lia).
    rewrite seq_nth by lia. cbn [option_map Nat.add]. rewrite Z2Nat.id by lia. reflexivity.
  - apply s_allelePairSqrt. exact Hi.
Qed.

(* ---------------------------------------------------------------- Call: packing *)
Lemma pack_lo_hi lo ar : 0 <= lo < 8 -> 0 <= ar < 2 ^ 29 ->
  Z.lor lo (to_signed32 (ar * 8)) = to_signed32 (lo + 8 * ar).
Proof.
  intros Hlo Har. unfold to_signed32. change (2 ^ 29) with 536870912 in *. change (2 ^ 31) with 2147483648. change (2 ^ 32) with 4294967296.
  destruct (ar * 8 <? 2147483648) eqn:E.
  - replace (ar * 8) with (ar * 2 ^ 3) by (change (2 ^ 3) with 8; lia).
    rewrite lor_disjoint by (change (2 ^ 3) with 8; lia). change (2 ^ 3) with 8.
    destruct (lo + 8 * ar <? 2147483648) eqn:E2; lia.
  - replace (ar * 8 - 4294967296) with ((ar - 536870912) * 2 ^ 3) by (change (2 ^ 3) with 8; lia).
    rewrite lor_disjoint by (change (2 ^ 3) with 8; lia). change (2 ^ 3) with 8.
    destruct (lo + 8 * ar <? 2147483648) eqn:E2; lia.
Qed.

Lemma s_Call_apply ar ph pl e : 0 <= ar < 2 ^ 29 -> 0 <= pl <= 2 ->
  Scala.Call_apply ar ph pl e = Some (to_signed32 (word ph pl ar)).
Proof.
  intros Har Hpl. unfold Scala.Call_apply. msimp. bsolve. msimp. bsolve.
  assert (Hu : neqb (i_ushr ar 29) 0 = false).
  { unfold neqb, i_ushr. change (29 mod 32) with 29. consts.
    replace (ar mod 4294967296 / 536870912) with 0 by lia. reflexivity. }
  rewrite Hu. cbv iota. unfold ret.
  unfold i_or, i_shl. change (1 mod 32) with 1. change (3 mod 32) with 3. rewrite Z.lor_0_l.
  rewrite (wrap32_small (pl * 2 ^ 1)) by (consts; lia).
  rewrite (lor_disjoint (b2i ph) pl 1) by (unfold b2i; destruct ph; consts; lia).
  rewrite wrap32_unsigned by (consts; lia).
  change (2 ^ 3) with 8.
  rewrite pack_lo_hi by (try (unfold b2i; destruct ph); consts; lia).
  unfold word. consts. f_equal. f_equal. lia.
Qed.

Lemma s_Call0_apply ph : Scala.Call0_apply ph = Some (to_signed32 (word ph 0 0)).
Proof. unfold Scala.Call0_apply. msimp. apply s_Call_apply; consts; lia. Qed.

Lemma s_Call1_apply a ph : 0 <= a < 2 ^ 29 -> Scala.Call1_apply a ph = Some (to_signed32 (word ph 1 a)).
Proof. intros Ha. unfold Scala.Call1_apply. msimp. bsolve. msimp. apply s_Call_apply; consts; lia. Qed.

Lemma s_fromUnphasedDiploidGtIndex gt : 0 <= gt < 2 ^ 29 ->
  Scala.Call2_fromUnphasedDiploidGtIndex gt = Some (to_signed32 (word false 2 gt)).
Proof.
  intros Hgt. unfold Scala.Call2_fromUnphasedDiploidGtIndex. msimp. bsolve.
  assert (Hu : neqb (i_ushr gt 29) 0 = false).
  { unfold neqb, i_ushr. change (29 mod 32) with 29. consts. rewrite wrap32_small by (consts; lia).
    replace (gt mod 4294967296 / 536870912) with 0 by lia. reflexivity. }
  rewrite Hu. cbv iota. msimp.
  unfold i_or, i_shl. change (1 mod 32) with 1. change (3 mod 32) with 3. change (wrap32 (2 * 2 ^ 1)) with 4.
  rewrite wrap32_unsigned by (consts; lia). change (2 ^ 3) with 8.
  rewrite pack_lo_hi by (consts; lia).
  reflexivity.
Qed.

Lemma s_Call2_apply_unphased a0 a1 : 0 <= a0 <= a1 -> gt_index a0 a1 < 2 ^ 29 ->
  Scala.Call2_apply a0 a1 false = Some (to_signed32 (word false 2 (gt_index a0 a1))).
Proof.
  intros H Hlt. pose proof (row_bound a0 a1 H Hlt) as Hk.
  unfold Scala.Call2_apply. msimp. bsolve. msimp.
  rewrite s_diploidGtIndexWithSwap by lia. rewrite Z.min_l, Z.max_r by lia. msimp.
  apply s_fromUnphasedDiploidGtIndex. pose proof (tri_nonneg a1 ltac:(lia)). rewrite gt_index_tri in *. lia.
Qed.

Lemma s_Call2_apply_phased a0 a1 : 0 <= a0 -> 0 <= a1 -> gt_index a0 (a0 + a1) < 2 ^ 29 ->
  Scala.Call2_apply a0 a1 true = Some (to_signed32 (word true 2 (gt_index a0 (a0 + a1)))).
Proof.
  intros H0 H1 Hlt. pose proof (row_bound a0 (a0 + a1) ltac:(lia) Hlt) as Hk.
  unfold Scala.Call2_apply. msimp. bsolve. msimp.
  unfold i_add. rewrite wrap32_small by (consts; lia).
  rewrite s_diploidGtIndex by lia. msimp.
  apply s_Call_apply; [|lia]. pose proof (tri_nonneg (a0 + a1) ltac:(lia)). rewrite gt_index_tri in *. lia.
Qed.

(* ---------------------------------------------------------------- Call: unpacking *)
Section Unpack.
  Variables (ph : bool) (pl ar : Z).
  Hypothesis Hpl : 0 <= pl <= 3.
  Hypothesis Har : 0 <= ar < 2 ^ 29.
  Let c := to_signed32 (word ph pl ar).

  Lemma c_mod : c mod 2 ^ 32 = word ph pl ar.
  Proof. apply to_signed32_mod. apply word_range; assumption. Qed.

  Lemma s_isPhased : Scala.Call_isPhased c = Some ph.
  Proof.
    unfold Scala.Call_isPhased. msimp. unfold i_and. rewrite land_1.
    pose proof c_mod as Hm. pose proof (word_range ph pl ar Hpl Har) as Hr. unfold word, b2i in *. consts.
    f_equal. destruct ph; lia.
  Qed.

  Lemma s_ploidy : Scala.Call_ploidy c = Some pl.
  Proof.
    unfold Scala.Call_ploidy. msimp. unfold i_and, i_ushr. change (1 mod 32) with 1. rewrite land_3.
    rewrite c_mod. pose proof (word_range ph pl ar Hpl Har) as Hr. consts.
    rewrite wrap32_small by (consts; lia). unfold word, b2i in *. f_equal. destruct ph; lia.
  Qed.

  Lemma s_alleleRepr : Scala.Call_alleleRepr c = Some ar.
  Proof.
    unfold Scala.Call_alleleRepr. msimp. unfold i_ushr. change (3 mod 32) with 3.
    rewrite c_mod. pose proof (word_range ph pl ar Hpl Har) as Hr. consts.
    rewrite wrap32_small by (consts; lia). unfold word, b2i in *. f_equal. destruct ph; lia.
  Qed.

  Lemma s_isDiploid : Scala.Call_isDiploid c = Some (pl =? 2).
  Proof. unfold Scala.Call_isDiploid. msimp. rewrite s_ploidy. msimp. reflexivity. Qed.
End Unpack.

Lemma s_allelePair_unphased j k : 0 <= j <= k -> gt_index j k < 2 ^ 29 ->
  Scala.Call_allelePair (to_signed32 (word false 2 (gt_index j k))) = Some (ap_enc j k).
Proof.
  intros H Hlt. assert (Hr : 0 <= gt_index j k < 2 ^ 29).
  { pose proof (tri_nonneg k ltac:(lia)). rewrite gt_index_tri in *. lia. }
  unfold Scala.Call_allelePair. msimp. rewrite (s_isDiploid false 2 _ ltac:(lia) Hr). msimp. cbn [Z.eqb Pos.eqb negb]. cbv iota. msimp.
  unfold Scala.Call_allelePairUnchecked. msimp. rewrite (s_isPhased false 2 _ ltac:(lia) Hr). cbv iota. msimp.
  rewrite (s_alleleRepr false 2 _ ltac:(lia) Hr). msimp.
  rewrite s_allelePair by exact Hr. rewrite pair_of_gt_index by exact H. reflexivity.
Qed.

Lemma s_allelePair_phased a0 a1 : 0 <= a0 -> 0 <= a1 -> gt_index a0 (a0 + a1) < 2 ^ 29 ->
  Scala.Call_allelePair (to_signed32 (word true 2 (gt_index a0 (a0 + a1)))) = Some (ap_enc a0 a1).
Proof.
  intros H0 H1 Hlt. pose proof (row_bound a0 (a0 + a1) ltac:(lia) Hlt) as Hk.
  assert (Hr : 0 <= gt_index a0 (a0 + a1) < 2 ^ 29).
  { pose proof (tri_nonneg (a0 + a1) ltac:(lia)). rewrite gt_index_tri in *. lia. }
  unfold Scala.Call_allelePair. msimp. rewrite (s_isDiploid true 2 _ ltac:(lia) Hr). msimp. cbn [Z.eqb Pos.eqb negb]. cbv iota. msimp.
  unfold Scala.Call_allelePairUnchecked. msimp. rewrite (s_isPhased true 2 _ ltac:(lia) Hr). cbv iota. msimp.
  rewrite (s_alleleRepr true 2 _ ltac:(lia) Hr). msimp.
  rewrite s_allelePair by exact Hr. rewrite pair_of_gt_index by lia. msimp.
  rewrite s_AllelePair_j by lia. msimp. rewrite s_AllelePair_k by lia. msimp.
  unfold i_sub. rewrite wrap32_small by (consts; lia). replace (a0 + a1 - a0) with a1 by lia.
  apply s_AllelePair_apply; lia.
Qed.

Lemma s_unphasedDiploidGtIndex_unphased j k : 0 <= j <= k -> gt_index j k < 2 ^ 29 ->
  Scala.Call_unphasedDiploidGtIndex (to_signed32 (word false 2 (gt_index j k))) = Some (gt_index j k).
Proof.
  intros H Hlt. assert (Hr : 0 <= gt_index j k < 2 ^ 29).
  { pose proof (tri_nonneg k ltac:(lia)). rewrite gt_index_tri in *. lia. }
  unfold Scala.Call_unphasedDiploidGtIndex. msimp. rewrite (s_isDiploid false 2 _ ltac:(lia) Hr). msimp. cbn [Z.eqb Pos.eqb negb]. cbv iota. msimp.
  rewrite (s_isPhased false 2 _ ltac:(lia) Hr). cbv iota. apply (s_alleleRepr false 2 _ ltac:(lia) Hr).
Qed.

(** Outside the stated bound the engine's own Int arithmetic wraps silently (model of the source text; not executed). *)
Example engine_overflow_outside_bound : Scala.Call2_apply 0 65536 false = Some 262148.
Proof. vm_compute. reflexivity. Qed.
