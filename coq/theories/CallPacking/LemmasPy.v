(** C34 — the GENERATED Python definitions (HailG.C34.Gen.Py: types.py _tcall, allele_pair*, call.py) meet the same
    arithmetic specification as the Scala ones.  A semantic edit of those Python functions breaks these lemmas. *)
From HailV Require Import Common.Prelude CallPacking.Model CallPacking.Arith CallPacking.LemmasScala.
From HailG Require Import C34.Gen.
Open Scope Z_scope.

Ltac psimp := cbn [ret bind lift1 lift2 call1 call2 call3 call4 unpack2 call_ploidy call_phased call_alleles fst snd
                   py_len length Z.of_nat Pos.of_succ_nat Pos.succ].

Lemma p_shl_ok a b : 0 <= b -> p_shl a b = Some (a * 2 ^ b).
Proof. intros H. unfold p_shl. replace (b <? 0) with false by lia. rewrite Z.shiftl_mul_pow2 by lia. reflexivity. Qed.
Lemma p_shr_ok a b : 0 <= b -> p_shr a b = Some (a / 2 ^ b).
Proof. intros H. unfold p_shr. replace (b <? 0) with false by lia. rewrite Z.shiftr_div_pow2 by lia. reflexivity. Qed.
Lemma p_pow_ok a b : 0 <= b -> p_pow a b = Some (a ^ b).
Proof. intros H. unfold p_pow. replace (b <? 0) with false by lia. reflexivity. Qed.
Lemma p_floordiv_ok a b : b <> 0 -> p_floordiv a b = Some (a / b).
Proof. intros H. unfold p_floordiv. replace (b =? 0) with false by lia. reflexivity. Qed.

Lemma py_get1_0 {T} (a : T) : py_get [a] 0 = Some a. Proof. reflexivity. Qed.
Lemma py_get2_0 {T} (a b : T) : py_get [a; b] 0 = Some a. Proof. reflexivity. Qed.
Lemma py_get2_1 {T} (a b : T) : py_get [a; b] 1 = Some b. Proof. reflexivity. Qed.

Ltac pnorm :=
  psimp;
  repeat (first [ rewrite p_shl_ok by lia | rewrite p_shr_ok by lia | rewrite p_pow_ok by lia | rewrite p_floordiv_ok by lia
                | rewrite py_get1_0 | rewrite py_get2_0 | rewrite py_get2_1 ]; psimp).

(* ---------------------------------------------------------------- allele pairs *)
Lemma p_allele_pair j k : 0 <= j <= 65535 -> 0 <= k <= 65535 -> Py.allele_pair j k = Some (ap_enc j k).
Proof.
  intros Hj Hk. unfold Py.allele_pair. pnorm. bsolve.
  rewrite lor_disjoint by (consts; lia). reflexivity.
Qed.

Lemma p_allele_pair_sqrt i : 0 <= i < 2 ^ 29 ->
  Py.allele_pair_sqrt i = Some (let '(j, k) := pair_of i in ap_enc j k).
Proof.
  intros Hi. pose proof (pair_of_bound i Hi) as Hb. pose proof (pair_of_spec i ltac:(lia)) as Hs.
  unfold pair_of in *. set (k := fsqrt_k i) in *. destruct Hb as [Hjk Hk]. destruct Hs as [_ Hgt].
  unfold Py.allele_pair_sqrt. pnorm. fold k. fold (tri k). bsolve.
  apply p_allele_pair; lia.
Qed.

Lemma p_small_table :
  Py.small_allele_pair_opt = map Some Py.small_allele_pair /\ Py.small_allele_pair = Scala.Genotype_smallAllelePair.
Proof. vm_compute. split; reflexivity. Qed.

Lemma p_gt_allele_pair i : 0 <= i < 2 ^ 29 ->
  (if i <? py_len Py.small_allele_pair then py_get Py.small_allele_pair i else Py.allele_pair_sqrt i)
  = Some (let '(j, k) := pair_of i in ap_enc j k).
Proof.
  intros Hi. destruct p_small_table as [_ ->]. destruct small_table_ok as [_ [Hlen Htab]].
  unfold py_len. rewrite Hlen. change (Z.of_nat 36) with 36.
  destruct (i <? 36) eqn:E.
  - unfold py_get. rewrite Hlen. change (Z.of_nat 36) with 36. bsolve. rewrite Htab.
    rewrite nth_error_map. rewrite nth_error_nth' with (d := 0%nat) by (rewrite seq_length; lia).
    rewrite seq_nth by lia. cbn [option_map Nat.add]. rewrite Z2Nat.id by lia. reflexivity.
  - apply p_allele_pair_sqrt. exact Hi.
Qed.

(* ---------------------------------------------------------------- hail.genetics.Call *)
Lemma p_Call_init_valid c : valid_call c -> Py.Call_init (fst c) (snd c) = Some c.
Proof.
  destruct c as [[|a0 [|a1 [|a2 l]]] ph]; cbn [valid_call fst snd]; intros H; unfold Py.Call_init; pnorm.
  - destruct ph; reflexivity.
  - destruct ph; reflexivity.
  - destruct ph; cbv iota; pnorm; [reflexivity|].
    cbn. destruct H as [H _]. replace (a1 <? a0) with false by lia. reflexivity.
  - destruct ph; contradiction.
Qed.

Lemma p_unphased_diploid_gt_index a0 a1 : 0 <= a0 <= a1 ->
  Py.unphased_diploid_gt_index ([a0; a1], false) = Some (gt_index a0 a1).
Proof.
  intros H. unfold Py.unphased_diploid_gt_index. pnorm.
  unfold neqb. cbn -[Z.mul Z.add Z.leb p_truediv_exact]. bsolve. unfold p_truediv_exact. change (2 =? 0) with false. cbv iota.
  pose proof (tri_double a1) as Hd. fold (tri a1).
  replace (a1 * (a1 + 1) mod 2 =? 0) with true by (unfold tri in Hd; lia). psimp. rewrite gt_index_tri. reflexivity.
Qed.

(* ---------------------------------------------------------------- _tcall._convert_to_encoding *)
Definition repr_of (c : pycall) : Z :=
  match c with
  | ([a], _) => a
  | ([a0; a1], false) => gt_index a0 a1
  | ([a0; a1], true) => gt_index a0 (a0 + a1)
  | _ => 0
  end.
Definition spec_word (c : pycall) : Z := word (snd c) (py_len (fst c)) (repr_of c).
Definition spec_pack (c : pycall) : Z := to_signed32 (spec_word c).

Lemma gt_index_nonneg j k : 0 <= j -> 0 <= k -> 0 <= gt_index j k.
Proof. intros. rewrite gt_index_tri. pose proof (tri_nonneg k). lia. Qed.

Lemma valid_repr c : valid_call c -> 0 <= repr_of c < 2 ^ 29 /\ 0 <= py_len (fst c) <= 2.
Proof.
  destruct c as [[|a0 [|a1 [|a2 l]]] ph]; cbn [valid_call repr_of fst py_len length]; unfold max_repr; intros H.
  - split; [consts; lia | cbn; lia].
  - split; [exact H | cbn; lia].
  - destruct ph; (split; [|cbn; lia]).
    + pose proof (gt_index_nonneg a0 (a0 + a1)). lia.
    + pose proof (gt_index_nonneg a0 a1). lia.
  - destruct ph; contradiction.
Qed.

(** the signed conversion  `x if 0 <= x < 2**31 - 1 else x - 2**32`  followed by struct.pack('=i') *)
Lemma py_to_signed x : 0 <= x < 2 ^ 32 -> x mod 8 <> 7 ->
  bind (match (if 0 <=? x then Some (x <? 2 ^ 31 - 1) else Some false) with
        | Some true => ret x
        | Some false => Some (x - 2 ^ 32)
        | None => None
        end) (fun v => write_int32 v) = Some (to_signed32 x).
Proof.
  intros Hx H7. unfold to_signed32, write_int32, ret. consts.
  replace (0 <=? x) with true by lia.
  destruct (x <? 2147483648 - 1) eqn:E1; destruct (x <? 2147483648) eqn:E2; cbn [bind]; try lia.
  - match goal with |- context [if ?c then _ else _] => replace c with true by lia end. reflexivity.
  - match goal with |- context [if ?c then _ else _] => replace c with true by lia end. reflexivity.
Qed.

Lemma word_mod8 ph pl ar : 0 <= pl <= 2 -> word ph pl ar mod 8 <> 7.
Proof. intros H. unfold word, b2i. destruct ph; lia. Qed.

Ltac lor_arith :=
  rewrite ?Z.lor_0_l;
  repeat first [ rewrite (lor_disjoint' 1 _ 1) by (consts; lia)
               | rewrite (lor_disjoint _ _ 3) by (consts; lia) ].

Ltac finish_encode :=
  etransitivity; [apply py_to_signed; [consts; lia | consts; lia] |];
  unfold spec_pack, spec_word, word, b2i; cbn [fst snd py_len length Z.of_nat Pos.of_succ_nat Pos.succ repr_of];
  f_equal; f_equal; consts; lia.

Lemma p_encode c : valid_call c -> Py.convert_to_encoding c = Some (spec_pack c).
Proof.
  intros Hv. pose proof (valid_repr c Hv) as [Hr Hp].
  destruct c as [[|a0 [|a1 [|a2 l]]] ph]; cbn [valid_call] in Hv; unfold max_repr in Hv; cbn [repr_of] in Hr;
    unfold Py.convert_to_encoding; cbv zeta; pnorm.
  - destruct ph; vm_compute; reflexivity.
  - destruct ph; cbv iota; pnorm; bsolve; pnorm; lor_arith; finish_encode.
  - destruct ph; cbv iota; pnorm; bsolve; pnorm.
    + replace (a0 <=? a0 + a1) with true by lia. cbv iota. pnorm. fold (tri (a0 + a1)). rewrite <- gt_index_tri.
      lor_arith. finish_encode.
    + replace (a0 <=? a1) with true by lia. cbv iota. pnorm. fold (tri a1). rewrite <- gt_index_tri.
      lor_arith. finish_encode.
  - destruct ph; contradiction.
Qed.

(* ---------------------------------------------------------------- _tcall._convert_from_encoding *)
Lemma py_unsigned w : 0 <= w < 2 ^ 32 ->
  (if to_signed32 w >=? 0 then ret (to_signed32 w) else Some (to_signed32 w + 2 ^ 32)) = Some w.
Proof.
  intros H. unfold to_signed32, ret. consts. destruct (w <? 2147483648) eqn:E.
  - replace (w >=? 0) with true by lia. reflexivity.
  - replace (w - 4294967296 >=? 0) with false by lia. f_equal. lia.
Qed.

Lemma word_fields ph pl ar : 0 <= pl <= 3 ->
  Z.land (word ph pl ar / 2 ^ 1) 3 = pl /\ (Z.land (word ph pl ar) 1 =? 1) = ph /\ word ph pl ar / 2 ^ 3 = ar.
Proof.
  intros H. rewrite land_3, land_1. unfold word, b2i. consts. destruct ph; (split; [lia | split; [|lia]]).
  - replace ((1 + 2 * pl + 8 * ar) mod 2) with 1 by lia. reflexivity.
  - replace ((0 + 2 * pl + 8 * ar) mod 2) with 0 by lia. reflexivity.
Qed.

Lemma ap_enc_fields j k : 0 <= j <= 65535 -> 0 <= k <= 65535 ->
  Z.land (ap_enc j k) 65535 = j /\ Z.land (ap_enc j k / 2 ^ 16) 65535 = k.
Proof. intros Hj Hk. rewrite !land_ffff. unfold ap_enc. consts. lia. Qed.

Lemma p_decode c : valid_call c -> Py.convert_from_encoding (spec_pack c) = Some c.
Proof.
  intros Hv. pose proof (valid_repr c Hv) as [Hr Hp].
  pose proof (p_Call_init_valid c Hv) as Hinit.
  unfold Py.convert_from_encoding. cbv zeta. pnorm.
  unfold spec_pack. rewrite py_unsigned by (apply word_range; lia). pnorm.
  destruct (word_fields (snd c) (py_len (fst c)) (repr_of c) ltac:(lia)) as [F1 [F2 F3]].
  unfold spec_word. rewrite F1, F2, F3.
  destruct c as [[|a0 [|a1 [|a2 l]]] ph]; cbn [valid_call] in Hv; unfold max_repr in Hv; cbn [repr_of fst snd py_len length Z.of_nat Pos.of_succ_nat Pos.succ] in *.
  - exact Hinit.
  - bsolve. pnorm. exact Hinit.
  - bsolve. pnorm. destruct ph; cbv iota.
    + destruct Hv as [H0 [H1 Hlt]]. pose proof (row_bound a0 (a0 + a1) ltac:(lia) Hlt) as Hk.
      rewrite p_gt_allele_pair by exact Hr. rewrite pair_of_gt_index by lia. pnorm.
      destruct (ap_enc_fields a0 (a0 + a1) ltac:(lia) ltac:(lia)) as [Ej Ek]. rewrite Ej, Ek.
      replace (a0 + a1 - a0) with a1 by lia. rewrite p_allele_pair by lia. pnorm.
      destruct (ap_enc_fields a0 a1 ltac:(lia) ltac:(lia)) as [Ej' Ek']. rewrite Ej', Ek'. exact Hinit.
    + destruct Hv as [H0 Hlt]. pose proof (row_bound a0 a1 H0 Hlt) as Hk.
      rewrite p_gt_allele_pair by exact Hr. rewrite pair_of_gt_index by lia. pnorm.
      destruct (ap_enc_fields a0 a1 ltac:(lia) ltac:(lia)) as [Ej Ek]. rewrite Ej, Ek. exact Hinit.
  - destruct ph; contradiction.
Qed.

(** Beyond the engine's bound the Python encoder does not fail: it silently produces the encoding of ANOTHER call
    (replayable on the real code; outside the quantifier of the property, reported as an observation). *)
Example py_silent_wrap_outside_bound :
  Py.convert_to_encoding ([2 ^ 29], false) = Py.convert_to_encoding ([0], false).
Proof. vm_compute. reflexivity. Qed.
