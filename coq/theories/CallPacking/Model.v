(** C34 — vocabulary for the translated code (definitions only).

    The Scala one-liners of is/hail/variant/{Call,Genotype}.scala and the Python functions of
    hail/expr/types.py (_tcall), hail/genetics/call.py are REGENERATED into HailG.C34.Gen using the
    combinators and primitive operations below:
      - an exception (fatal / throw / require / assert / raise / struct.error) is [None];
      - Scala [Int] operations wrap to 32 bits explicitly ([wrap32]); Python ints are unbounded [Z];
      - the one floating-point step of both implementations, (sqrt(8*i + 1) / 2 - 0.5) truncated to an
        integer, is [fsqrt_k] (exact integer square root; validated against the floats by the harness). *)
From HailV Require Import Common.Prelude.
Open Scope Z_scope.

(* ---------------------------------------------------------------- exception monad *)
Definition ret {T} (x : T) : option T := Some x.
Definition bind {T U} (m : option T) (f : T -> option U) : option U :=
  match m with Some x => f x | None => None end.
Definition lift1 {A B} (f : A -> B) (a : option A) : option B := bind a (fun x => Some (f x)).
Definition lift2 {A B C} (f : A -> B -> C) (a : option A) (b : option B) : option C :=
  bind a (fun x => bind b (fun y => Some (f x y))).
(** Branching combinators are abbreviations (not functions) so that the untaken branch is never evaluated by vm_compute. *)
Notation ite c a b := (match c with Some true => a | Some false => b | None => None end) (only parsing).
Notation fail_if c rest := (match c with Some true => None | Some false => rest | None => None end) (only parsing).
Notation require_ c rest := (match c with Some true => rest | Some false => None | None => None end) (only parsing).
Notation and_sc a b := (match a with Some true => b | Some false => Some false | None => None end) (only parsing).
Notation or_sc a b := (match a with Some true => Some true | Some false => b | None => None end) (only parsing).
Definition call1 {A T} (f : A -> option T) (a : option A) : option T := bind a f.
Definition call2 {A B T} (f : A -> B -> option T) (a : option A) (b : option B) : option T :=
  bind a (fun x => bind b (fun y => f x y)).
Definition call3 {A B C T} (f : A -> B -> C -> option T) (a : option A) (b : option B) (c : option C) : option T :=
  bind a (fun x => bind b (fun y => bind c (fun z => f x y z))).
Definition call4 {A B C D T} (f : A -> B -> C -> D -> option T)
    (a : option A) (b : option B) (c : option C) (d : option D) : option T :=
  bind a (fun x => bind b (fun y => bind c (fun z => bind d (fun w => f x y z w)))).

Fixpoint somes {T} (l : list (option T)) : list T :=
  match l with [] => [] | Some x :: r => x :: somes r | None :: r => somes r end.

(* ---------------------------------------------------------------- Scala Int (32-bit two's complement) *)
Definition wrap32 (x : Z) : Z := (x + 2 ^ 31) mod 2 ^ 32 - 2 ^ 31.
Definition i_add (a b : Z) : Z := wrap32 (a + b).
Definition i_sub (a b : Z) : Z := wrap32 (a - b).
Definition i_mul (a b : Z) : Z := wrap32 (a * b).
Definition i_neg (a : Z) : Z := wrap32 (- a).
Definition i_div (a b : Z) : option Z := if b =? 0 then None else Some (wrap32 (Z.quot a b)).   (* ArithmeticException *)
Definition i_rem (a b : Z) : option Z := if b =? 0 then None else Some (Z.rem a b).                    (* %  sign of the dividend *)
Definition i_shl (a b : Z) : Z := wrap32 (a * 2 ^ (b mod 32)).
Definition i_shr (a b : Z) : Z := a / 2 ^ (b mod 32).                               (* >>  arithmetic *)
Definition i_ushr (a b : Z) : Z := wrap32 ((a mod 2 ^ 32) / 2 ^ (b mod 32)).       (* >>> logical *)
Definition i_and (a b : Z) : Z := Z.land a b.
Definition i_or (a b : Z) : Z := Z.lor a b.
Definition i_xor (a b : Z) : Z := Z.lxor a b.
Definition b2i (b : bool) : Z := if b then 1 else 0.
Definition neqb (a b : Z) : bool := negb (a =? b).

(** Array apply: negative or too large index throws. *)
Definition arr_get {T} (l : list T) (i : Z) : option T :=
  if i <? 0 then None else nth_error l (Z.to_nat i).

(* ---------------------------------------------------------------- Python ints and lists *)
Definition p_floordiv (a b : Z) : option Z := if b =? 0 then None else Some (a / b).
(** true division [/] whose result the callers use as a number: exact when b divides a (else the model fails closed) *)
Definition p_truediv_exact (a b : Z) : option Z :=
  if b =? 0 then None else if a mod b =? 0 then Some (a / b) else None.
Definition p_shl (a b : Z) : option Z := if b <? 0 then None else Some (Z.shiftl a b).
Definition p_shr (a b : Z) : option Z := if b <? 0 then None else Some (Z.shiftr a b).
Definition p_pow (a b : Z) : option Z := if b <? 0 then None else Some (a ^ b).
Definition py_get {T} (l : list T) (i : Z) : option T :=
  let n := Z.of_nat (length l) in
  let i' := if i <? 0 then i + n else i in
  if (i' <? 0) || (i' >=? n) then None else nth_error l (Z.to_nat i').
Definition py_len {T} (l : list T) : Z := Z.of_nat (length l).
Definition unpack2 {T U} (l : option (list T)) (f : T -> T -> option U) : option U :=
  bind l (fun l => match l with [a; b] => f a b | _ => None end).
(** struct.pack('=i', v) / struct.unpack('=i', ..): the value must fit a signed 32-bit integer *)
Definition write_int32 (v : Z) : option Z :=
  if (- 2 ^ 31 <=? v) && (v <? 2 ^ 31) then Some v else None.

(** hail.genetics.Call as a value: (alleles, phased) *)
Definition pycall : Type := (list Z * bool)%type.
Definition call_alleles (c : pycall) : list Z := fst c.
Definition call_phased (c : pycall) : bool := snd c.
Definition call_ploidy (c : pycall) : Z := py_len (fst c).

(* ---------------------------------------------------------------- the floating-point step *)
(** int(math.sqrt(8 * float(i) + 1) / 2 - 0.5)   and   (Math.sqrt(8 * i.toDouble + 1) / 2 - 0.5).toInt *)
Definition fsqrt_k (i : Z) : Z := (Z.sqrt (8 * i + 1) - 1) / 2.

(* ---------------------------------------------------------------- specification vocabulary *)
(** VCF genotype ordering: the index of the unordered pair j <= k *)
Definition gt_index (j k : Z) : Z := k * (k + 1) / 2 + j.
Definition max_repr : Z := 2 ^ 29.           (* the engine rejects allele representations >= 2^29 *)

(** The calls the engine can represent (and the Python front end can hold): ploidy 0-2, alleles >= 0,
    unphased diploid calls normalised (a0 <= a1) as hail.genetics.Call does, representation < 2^29. *)
Definition valid_call (c : pycall) : Prop :=
  match c with
  | ([], _) => True
  | ([a], _) => 0 <= a < max_repr
  | ([a0; a1], false) => 0 <= a0 <= a1 /\ gt_index a0 a1 < max_repr
  | ([a0; a1], true) => 0 <= a0 /\ 0 <= a1 /\ gt_index a0 (a0 + a1) < max_repr
  | _ => False
  end.
