(** C12 — property theorems only.  [C12.Gen.*] are the translations of the current Python helpers (floats read as exact
    rationals); [select] is the hand model of InstanceCollectionConfigs.select_inst_coll over pools whose conversion is the
    generated PoolConfig.convert_requests_to_resources ([gen_convert_pool]).  All integers, all pool lists. *)
From HailV Require Import Common.Prelude Resources.Arith Resources.Model Resources.Lemmas Resources.GenLemmas.
From HailG Require C12.Gen.
Open Scope Z_scope.

Definition pools_ok (pools : list pool) : Prop := forall p, In p pools -> 0 < p_mpc p.

(** adjust_cores_for_packability returns the LEAST packable core count (250 mcpu * 2^k) covering the request: never less than
    asked, never more than any packable count that would do. *)
Theorem C12_packability_least : forall c,
  packable (C12.Gen.adjust_cores_for_packability c) /\ Z.max 1 c <= C12.Gen.adjust_cores_for_packability c /\
  (forall g, packable g -> Z.max 1 c <= g -> C12.Gen.adjust_cores_for_packability c <= g).
Proof. intros c. rewrite gen_pack. apply pack_spec. Qed.
Print Assumptions C12_packability_least.

(** round_storage_bytes_to_gib (regenerated from source) grants the LEAST whole number of GiB covering the byte count: never
    fewer bytes than asked, and one GiB less would not do.  All byte counts >= 0. *)
Theorem C12_storage_rounding_least : forall b, 0 <= b ->
  b <= C12.Gen.round_storage_bytes_to_gib b * gib /\
  (forall g, b <= g * gib -> C12.Gen.round_storage_bytes_to_gib b <= g) /\
  (0 < b -> (C12.Gen.round_storage_bytes_to_gib b - 1) * gib < b).
Proof.
  intros b Hb. rewrite gen_round_storage. destruct (round_storage_least b Hb) as (_ & H1 & H2 & H3). repeat split; assumption.
Qed.
Print Assumptions C12_storage_rounding_least.

(** requested_storage_bytes_to_actual_storage_gib (regenerated, both clouds): the granted GiB cover the requested bytes, respect
    the clouds' 10 GiB minimum disk (nothing only for an allowed request for nothing), do not exceed the cloud's largest disk,
    and are the LEAST such whole number of GiB; a storage request is refused only above the cloud's largest disk. *)
Theorem C12_storage_grant_least : forall gcp s allow,
  0 <= s ->
  match gen_storage gcp s allow with
  | Some g => storage_grant_ok s allow g /\ g <= max_gib_of C12.Gen.max_storage_gib_gcp C12.Gen.max_storage_gib_azure gcp /\
              (forall g', storage_grant_ok s allow g' -> g <= g')
  | None => max_gib_of C12.Gen.max_storage_gib_gcp C12.Gen.max_storage_gib_azure gcp * gib < s
  end.
Proof.
  intros gcp s allow Hs. rewrite gen_storage_eq.
  destruct (storage_gib _ s allow) as [g|] eqn:E.
  - exact (storage_gib_least _ _ _ _ Hs (max_storage_ok gcp) E).
  - exact (storage_gib_complete _ _ _ E).
Qed.
Print Assumptions C12_storage_grant_least.

(** What a pool grants is at least what was asked (cores, memory, storage) and fits on one of its workers. *)
Theorem C12_pool_grant_sound : forall (p : pool) c m s gc gm gs,
  0 < p_mpc p -> 0 <= s -> gen_convert_pool p c m s = Some (gc, gm, gs) ->
  c <= gc /\ m <= gm /\ s <= gs * gib /\
  gc <= p_cores p * 1000 /\ gm <= p_cores p * (p_mpc p * mib) /\
  packable gc /\ 1000 * gm = gc * (p_mpc p * mib).
Proof.
  intros p c m s gc gm gs Hm Hs H. rewrite gen_convert_pool_eq in H. unfold convert_pool in H.
  pose proof (convert_sound _ _ _ _ _ _ _ _ _ Hm Hs (max_storage_ok (p_gcp p)) H) as (H1 & H2 & H3 & H4 & H5 & _ & H7 & H8).
  repeat split; assumption.
Qed.
Print Assumptions C12_pool_grant_sound.

(** A pool refuses a request only if the disk exceeds the cloud's maximum or NO packable grant that covers the requested
    cores and memory fits on its workers. *)
Theorem C12_pool_refuses_only_if_impossible : forall (p : pool) c m s,
  0 < p_mpc p -> gen_convert_pool p c m s = None ->
  max_gib_of C12.Gen.max_storage_gib_gcp C12.Gen.max_storage_gib_azure (p_gcp p) * gib < s \/
  (forall g, packable g -> c <= g -> m * 1000 <= g * (p_mpc p * mib) -> g <= p_cores p * 1000 -> False).
Proof.
  intros p c m s Hm H. rewrite gen_convert_pool_eq in H. apply (convert_complete _ _ _ _ _ _ Hm H).
Qed.
Print Assumptions C12_pool_refuses_only_if_impossible.

(** Placement: whatever select_inst_coll returns is a configured collection that matches the request's cloud, preemptibility
    and label (and the named worker type), grants at least the request and fits on one worker; for a machine-type request it is
    the job-private collection of the same cloud with exactly that machine's cores and memory and at least the storage. *)
Theorem C12_granted_ge_request : forall pools jpim_name jpim_gcp gcp label pre rq s name gc gm gs,
  pools_ok pools -> 0 <= s ->
  select pools jpim_name jpim_gcp gcp label pre rq s = Some (name, gc, gm, gs) ->
  match rq with
  | ByWorkerType wt c m =>
      exists p, In p pools /\ p_name p = name /\ matches gcp label pre p = true /\ p_worker_type p = wt /\
                c <= gc /\ m <= gm /\ s <= gs * gib /\ gc <= p_cores p * 1000 /\ gm <= p_cores p * (p_mpc p * mib)
  | Cheapest c m =>
      exists p, In p pools /\ p_name p = name /\ matches gcp label pre p = true /\
                c <= gc /\ m <= gm /\ s <= gs * gib /\ gc <= p_cores p * 1000 /\ gm <= p_cores p * (p_mpc p * mib)
  | ByMachineType cores memory =>
      name = jpim_name /\ jpim_gcp = gcp /\ gc = cores * 1000 /\ gm = memory /\ s <= gs * gib /\ 10 <= gs
  end.
Proof.
  intros pools jn jg gcp label pre rq s name gc gm gs Hok Hs H. unfold select, select_inst_coll in H.
  destruct rq as [wt c m|c m|cores memory].
  - destruct (from_worker_type_sound _ _ _ _ _ _ _ _ _ _ _ _ _ _ H) as (p & Hin & Hn & Hm & Hw & Hc).
    rewrite <- gen_convert_pool_eq in Hc.
    pose proof (C12_pool_grant_sound p c m s gc gm gs (Hok p Hin) Hs Hc) as (H1 & H2 & H3 & H4 & H5 & _).
    exists p. repeat split; assumption.
  - unfold select_cheapest_price_pool in H.
    destruct (cheapest _ _ pools gcp label c m s pre None) as [[bp br]|] eqn:E; [|discriminate].
    cbn [option_map snd] in H. inversion H; subst br.
    pose proof (cheapest_sound G.max_storage_gib_gcp G.max_storage_gib_azure pools pools gcp label c m s pre None (fun p Hp => Hp) I) as Hb.
    rewrite E in Hb. cbn [best_ok] in Hb. destruct Hb as (p & Hin & Hn & Hm & Hc).
    rewrite <- gen_convert_pool_eq in Hc.
    pose proof (C12_pool_grant_sound p c m s gc gm gs (Hok p Hin) Hs Hc) as (H1 & H2 & H3 & H4 & H5 & _).
    exists p. repeat split; assumption.
  - unfold select_job_private in H. destruct (Bool.eqb jg gcp) eqn:Eb; cbn [negb] in H; [|discriminate].
    apply Bool.eqb_prop in Eb.
    destruct (storage_gib _ s false) as [g|] eqn:Eg; [|discriminate]. inversion H; subst.
    destruct (storage_gib_sound _ _ _ _ Hs Eg) as (S1 & _ & S3 & _).
    repeat split; try reflexivity; [exact S1 | apply S3; reflexivity].
Qed.
Print Assumptions C12_granted_ge_request.

(** Rejection: select_inst_coll answers "unsatisfiable" only if NO configured collection matching the request's cloud,
    preemptibility, label (and named worker type / machine type) could satisfy it. *)
Theorem C12_reject_only_if_no_candidate : forall pools jpim_name jpim_gcp gcp label pre rq s,
  pools_ok pools ->
  select pools jpim_name jpim_gcp gcp label pre rq s = None ->
  match rq with
  | ByWorkerType wt c m =>
      forall p, In p pools -> matches gcp label pre p = true -> p_worker_type p = wt ->
        max_gib_of C12.Gen.max_storage_gib_gcp C12.Gen.max_storage_gib_azure (p_gcp p) * gib < s \/
        (forall g, packable g -> c <= g -> m * 1000 <= g * (p_mpc p * mib) -> g <= p_cores p * 1000 -> False)
  | Cheapest c m =>
      forall p, In p pools -> matches gcp label pre p = true ->
        max_gib_of C12.Gen.max_storage_gib_gcp C12.Gen.max_storage_gib_azure (p_gcp p) * gib < s \/
        (forall g, packable g -> c <= g -> m * 1000 <= g * (p_mpc p * mib) -> g <= p_cores p * 1000 -> False)
  | ByMachineType _ _ =>
      jpim_gcp <> gcp \/ max_gib_of C12.Gen.max_storage_gib_gcp C12.Gen.max_storage_gib_azure jpim_gcp * gib < s
  end.
Proof.
  intros pools jn jg gcp label pre rq s Hok H. unfold select, select_inst_coll in H.
  destruct rq as [wt c m|c m|cores memory].
  - intros p Hin Hm Hw.
    pose proof (from_worker_type_complete _ _ _ _ _ _ _ _ _ _ H p Hin Hm Hw) as Hc.
    rewrite <- gen_convert_pool_eq in Hc. apply C12_pool_refuses_only_if_impossible; [apply Hok; exact Hin | exact Hc].
  - intros p Hin Hm. unfold select_cheapest_price_pool in H.
    destruct (cheapest _ _ pools gcp label c m s pre None) as [x|] eqn:E; [discriminate|].
    destruct (cheapest_complete _ _ _ _ _ _ _ _ _ _ E) as [_ Hall].
    pose proof (Hall p Hin Hm) as Hc. rewrite <- gen_convert_pool_eq in Hc.
    apply C12_pool_refuses_only_if_impossible; [apply Hok; exact Hin | exact Hc].
  - unfold select_job_private in H. destruct (Bool.eqb jg gcp) eqn:Eb; cbn [negb] in H.
    + right. destruct (storage_gib _ s false) eqn:Eg; [discriminate|]. apply (storage_gib_complete _ _ _ Eg).
    + left. intros ->. rewrite Bool.eqb_reflx in Eb. discriminate.
Qed.
Print Assumptions C12_reject_only_if_no_candidate.

(** Among the candidates, the pool chosen for a request without a named worker type is a cheapest one. *)
Theorem C12_cheapest_is_minimal : forall pools gcp label pre c m s bp br,
  cheapest C12.Gen.max_storage_gib_gcp C12.Gen.max_storage_gib_azure pools gcp label c m s pre None = Some (bp, br) ->
  forall p, In p pools -> matches gcp label pre p = true -> gen_convert_pool p c m s <> None -> bp <= p_price p.
Proof.
  intros pools gcp label pre c m s bp br H p Hin Hm Hc. rewrite gen_convert_pool_eq in Hc.
  exact (proj1 (cheapest_minimal _ _ _ _ _ _ _ _ _ _ _ _ H) p Hin Hm Hc).
Qed.
Print Assumptions C12_cheapest_is_minimal.

(** Satisfiability of the hypotheses, on concrete data: a standard 16-core gcp pool grants (250 mcpu, 1 GiB, 5 GiB) -> (500 mcpu,
    1920 MiB, 10 GiB); a 17-core request is refused; 10.5 GiB of storage are granted as 11 GiB, 20 GB (decimal) as 19 GiB. *)
Theorem C12_examples :
  let p := mkPool 1 true 0 16 true 0 3840 0 in
  gen_convert_pool p 250 1073741824 5368709120 = Some (500, 2013265920, 10) /\
  gen_convert_pool p 17000 0 0 = None /\
  C12.Gen.round_storage_bytes_to_gib 11274289152 = 11 /\
  gen_storage true 20000000000 true = Some 19 /\ gen_storage false 0 true = Some 0 /\ gen_storage false 0 false = Some 10 /\
  select [p] 9 true true 0 true (Cheapest 250 1073741824) 5368709120 = Some (1, 500, 2013265920, 10).
Proof. vm_compute. repeat split; reflexivity. Qed.
Print Assumptions C12_examples.
