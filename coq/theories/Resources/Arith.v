(** C12: exact integer meanings of the float idioms of resource_utils.py (used by the generated translation). *)
From HailV Require Import Common.Prelude.
Open Scope Z_scope.

(** math.ceil(n / d) for d > 0 *)
Definition cdiv (n d : Z) : Z := (n + d - 1) / d.

(** math.ceil(math.log2(n / d)) for n, d > 0: the least integer p (possibly negative) with 2^p >= n/d *)
Definition clog2 (n d : Z) : Z :=
  if n <=? d then - Z.log2 (d / n) else Z.log2_up (cdiv n d).

Lemma cdiv_spec n d : 0 < d -> d * (cdiv n d - 1) < n <= d * cdiv n d.
Proof. intros Hd. unfold cdiv. pose proof (Z.div_mod (n + d - 1) d ltac:(lia)). pose proof (Z.mod_pos_bound (n + d - 1) d Hd). nia. Qed.

Lemma cdiv_least n d k : 0 < d -> n <= d * k -> cdiv n d <= k.
Proof. intros Hd H. pose proof (cdiv_spec n d Hd). nia. Qed.
