(** C12: hand model.  [convert] is PoolConfig.convert_requests_to_resources with the cloud's maximal disk size as a
    parameter (the generated, per-cloud translations are proved equal to it in Lemmas.v); the [select_*] functions are a
    hand model of InstanceCollectionConfigs.select_inst_coll and its three helpers (tied by differential execution). *)
From HailV Require Import Common.Prelude Resources.Arith.
Open Scope Z_scope.

Definition gib : Z := 1073741824.
Definition mib : Z := 1048576.

(** the least packable core count (250 mcpu * 2^k) that is >= max 1 c:  adjust_cores_for_packability *)
Definition pack (c : Z) : Z :=
  let c := Z.max 1 c in
  let power := Z.max (-2) (clog2 c 1000) in
  Z.quot (2 ^ (Z.max 0 power) * 1000) (2 ^ (Z.max 0 (- power))).

Definition packable (c : Z) : Prop := exists k, 0 <= k /\ c = 250 * 2 ^ k.

(** round_storage_bytes_to_gib: the number of whole GiB granted for a byte count (math.ceil(bytes / 1024 / 1024 / 1024)) *)
Definition round_storage (b : Z) : Z := cdiv b gib.

(** what a storage request may be granted at the least: a whole number of GiB covering it, never below the clouds' 10 GiB
    minimum disk, except that a request for nothing may get nothing where that is allowed (pools: allow_zero = true) *)
Definition storage_grant_ok (s : Z) (allow_zero : bool) (g : Z) : Prop :=
  s <= g * gib /\ (10 <= g \/ (allow_zero = true /\ s = 0 /\ g = 0)).

(** requested_storage_bytes_to_actual_storage_gib *)
Definition storage_gib (max_gib s : Z) (allow_zero : bool) : option Z :=
  if s >? max_gib * gib then None
  else if allow_zero && (s =? 0) then Some (cdiv s gib)
  else Some (cdiv (Z.max (10 * gib) s) gib).

(** PoolConfig.convert_requests_to_resources: (cores_mcpu, memory_bytes, storage_bytes) -> granted (cores_mcpu, memory_bytes, storage_gib) *)
Definition convert (max_gib mpc_mib worker_cores c m s : Z) : option (Z * Z * Z) :=
  match storage_gib max_gib s true with
  | None => None
  | Some g =>
      let c1 := Z.max c (cdiv (m * 1000) (mpc_mib * mib)) in
      let c2 := pack c1 in
      let mem := Z.quot (c2 * (mpc_mib * mib)) 1000 in
      if c2 <=? worker_cores * 1000 then Some (c2, mem, g) else None
  end.

(** ** instance collections *)
Record pool : Type := mkPool {
  p_name : Z; p_gcp : bool; p_worker_type : Z; p_cores : Z; p_preemptible : bool; p_label : Z;
  p_mpc : Z;         (* memory per core (MiB) of its (cloud, worker type) *)
  p_price : Z        (* rank of max-over-regions price_per_hour of the converted request (only compared with <) *)
}.

Definition max_gib_of (max_gcp max_azure : Z) (gcp : bool) : Z := if gcp then max_gcp else max_azure.

Section Select.
  Variables max_gcp max_azure : Z.

  Definition convert_pool (p : pool) (c m s : Z) : option (Z * Z * Z) :=
    convert (max_gib_of max_gcp max_azure (p_gcp p)) (p_mpc p) (p_cores p) c m s.

  Definition result : Type := (Z * Z * Z * Z)%type.     (* (collection name, cores_mcpu, memory_bytes, storage_gib) *)
  Definition mk_result (name : Z) (r : Z * Z * Z) : result := (name, fst (fst r), snd (fst r), snd r).

  Definition matches (gcp : bool) (label : Z) (pre : bool) (p : pool) : bool :=
    Bool.eqb (p_gcp p) gcp && Bool.eqb (p_preemptible p) pre && (p_label p =? label).

  (** select_pool_from_worker_type: the first matching pool (dict order) of that worker type that can take the request *)
  Fixpoint select_pool_from_worker_type (pools : list pool) (gcp : bool) (label wt c m s : Z) (pre : bool) : option result :=
    match pools with
    | [] => None
    | p :: r =>
        if matches gcp label pre p && (p_worker_type p =? wt) then
          match convert_pool p c m s with
          | Some res => Some (mk_result (p_name p) res)
          | None => select_pool_from_worker_type r gcp label wt c m s pre
          end
        else select_pool_from_worker_type r gcp label wt c m s pre
    end.

  (** select_cheapest_price_pool: fold keeping the strictly cheaper candidate *)
  Fixpoint cheapest (pools : list pool) (gcp : bool) (label c m s : Z) (pre : bool) (best : option (Z * result)) : option (Z * result) :=
    match pools with
    | [] => best
    | p :: r =>
        let best' :=
          if matches gcp label pre p then
            match convert_pool p c m s with
            | Some res =>
                match best with
                | None => Some (p_price p, mk_result (p_name p) res)
                | Some (bp, _) => if p_price p <? bp then Some (p_price p, mk_result (p_name p) res) else best
                end
            | None => best
            end
          else best in
        cheapest r gcp label c m s pre best'
    end.

  Definition select_cheapest_price_pool pools gcp label c m s pre : option result :=
    option_map snd (cheapest pools gcp label c m s pre None).

  (** select_job_private + JobPrivateInstanceManagerConfig.convert_requests_to_resources *)
  Definition select_job_private (jpim_name : Z) (jpim_gcp gcp : bool) (mt_cores mt_memory s : Z) : option result :=
    if negb (Bool.eqb jpim_gcp gcp) then None
    else match storage_gib (max_gib_of max_gcp max_azure jpim_gcp) s false with
         | None => None
         | Some g => Some (jpim_name, mt_cores * 1000, mt_memory, g)
         end.

  Inductive request : Type :=
  | ByWorkerType (wt c m : Z)          (* memory given as lowmem / standard / highmem *)
  | Cheapest (c m : Z)                 (* memory given in bytes *)
  | ByMachineType (cores memory : Z).  (* a valid machine type, resolved through machine_type_to_cores_and_memory_bytes *)

  Definition select_inst_coll (pools : list pool) (jpim_name : Z) (jpim_gcp : bool)
      (gcp : bool) (label : Z) (pre : bool) (rq : request) (s : Z) : option result :=
    match rq with
    | ByWorkerType wt c m => select_pool_from_worker_type pools gcp label wt c m s pre
    | Cheapest c m => select_cheapest_price_pool pools gcp label c m s pre
    | ByMachineType cores memory => select_job_private jpim_name jpim_gcp gcp cores memory s
    end.
End Select.
