(** C12: the translation of the current Python source (HailG.C12.Gen) equals the hand model; table facts. *)
From HailV Require Import Common.Prelude Resources.Arith Resources.Model Resources.Lemmas.
From Coq Require Import String.
From HailG Require C12.Gen.
Open Scope Z_scope.

Module G := C12.Gen.

Lemma gen_pack c : G.adjust_cores_for_packability c = pack c.
Proof. reflexivity. Qed.

Lemma gen_round_storage b : G.round_storage_bytes_to_gib b = round_storage b.
Proof. reflexivity. Qed.

Lemma gen_storage_gcp s allow : G.requested_storage_bytes_to_actual_storage_gib_gcp s allow = storage_gib G.max_storage_gib_gcp s allow.
Proof.
  unfold G.requested_storage_bytes_to_actual_storage_gib_gcp, G.gcp_requested_to_actual_storage_bytes, storage_gib, G.round_storage_bytes_to_gib.
  change (G.max_storage_gib_gcp * gib) with (65536 * 1073741824).
  destruct (s >? 65536 * 1073741824); [reflexivity|]. destruct (allow && (s =? 0)); reflexivity.
Qed.

Lemma gen_storage_azure s allow : G.requested_storage_bytes_to_actual_storage_gib_azure s allow = storage_gib G.max_storage_gib_azure s allow.
Proof.
  unfold G.requested_storage_bytes_to_actual_storage_gib_azure, G.azure_requested_to_actual_storage_bytes, storage_gib, G.round_storage_bytes_to_gib.
  change (G.max_storage_gib_azure * gib) with (32768 * 1073741824).
  destruct (s >? 32768 * 1073741824); [reflexivity|]. destruct (allow && (s =? 0)); reflexivity.
Qed.

Lemma gen_convert_gcp mpc wc c m s : G.pool_convert_gcp mpc wc c m s = convert G.max_storage_gib_gcp mpc wc c m s.
Proof.
  unfold G.pool_convert_gcp, convert. rewrite gen_storage_gcp.
  destruct (storage_gib G.max_storage_gib_gcp s true); reflexivity.
Qed.

Lemma gen_convert_azure mpc wc c m s : G.pool_convert_azure mpc wc c m s = convert G.max_storage_gib_azure mpc wc c m s.
Proof.
  unfold G.pool_convert_azure, convert. rewrite gen_storage_azure.
  destruct (storage_gib G.max_storage_gib_azure s true); reflexivity.
Qed.

(** what a pool does with a request, through the GENERATED per-cloud conversion *)
Definition gen_convert_pool (p : pool) (c m s : Z) : option (Z * Z * Z) :=
  if p_gcp p then G.pool_convert_gcp (p_mpc p) (p_cores p) c m s else G.pool_convert_azure (p_mpc p) (p_cores p) c m s.

Lemma gen_convert_pool_eq p c m s :
  gen_convert_pool p c m s = convert_pool G.max_storage_gib_gcp G.max_storage_gib_azure p c m s.
Proof.
  unfold gen_convert_pool, convert_pool, max_gib_of. destruct (p_gcp p); [apply gen_convert_gcp | apply gen_convert_azure].
Qed.

Definition gen_storage (gcp : bool) (s : Z) (allow : bool) : option Z :=
  if gcp then G.requested_storage_bytes_to_actual_storage_gib_gcp s allow else G.requested_storage_bytes_to_actual_storage_gib_azure s allow.

Lemma gen_storage_eq gcp s allow :
  gen_storage gcp s allow = storage_gib (max_gib_of G.max_storage_gib_gcp G.max_storage_gib_azure gcp) s allow.
Proof. destruct gcp; [apply gen_storage_gcp | apply gen_storage_azure]. Qed.

Lemma max_storage_ok gcp : 10 <= max_gib_of G.max_storage_gib_gcp G.max_storage_gib_azure gcp.
Proof. destruct gcp; vm_compute; discriminate. Qed.

(** every memory-per-core entry of the real tables is positive *)
Lemma mpc_table_pos : forallb (fun e : string * string * Z => 0 <? snd e) G.mpc_table = true.
Proof. vm_compute. reflexivity. Qed.

(** the selection functions of the hand model, instantiated with the clouds' maximal disk sizes of the current source *)
Definition select := select_inst_coll G.max_storage_gib_gcp G.max_storage_gib_azure.
