(** C12: proofs about the arithmetic helpers. *)
From HailV Require Import Common.Prelude Resources.Arith Resources.Model.
Open Scope Z_scope.

Lemma pow2_pos k : 0 <= k -> 0 < 2 ^ k.
Proof. intros; apply Z.pow_pos_nonneg; lia. Qed.

Lemma packable_ge_250 g : packable g -> 250 <= g.
Proof. intros (k & Hk & ->). pose proof (pow2_pos k Hk). lia. Qed.

(** [pack] on small arguments *)
Lemma pack_small c : 1 <= c <= 1000 ->
  pack c = if c <=? 250 then 250 else if c <=? 500 then 500 else 1000.
Proof.
  intros Hc. unfold pack. rewrite (Z.max_r 1 c) by lia. unfold clog2.
  destruct (c <=? 1000) eqn:E; [|lia].
  assert (Hq : 1 <= 1000 / c) by (apply Z.div_le_lower_bound; lia).
  destruct (c <=? 250) eqn:E1.
  - assert (4 <= 1000 / c) by (apply Z.div_le_lower_bound; lia).
    assert (2 <= Z.log2 (1000 / c)) by (change 2 with (Z.log2 4); apply Z.log2_le_mono; lia).
    rewrite (Z.max_l (-2)) by lia. reflexivity.
  - destruct (c <=? 500) eqn:E2.
    + assert (Hr : 2 <= 1000 / c < 4).
      { split; [apply Z.div_le_lower_bound; lia | apply Z.div_lt_upper_bound; lia]. }
      assert (Z.log2 (1000 / c) = 1) by (apply Z.log2_unique; [lia | cbn; lia]).
      rewrite H. reflexivity.
    + assert (Hr : 1 <= 1000 / c < 2).
      { split; [lia | apply Z.div_lt_upper_bound; lia]. }
      assert (Z.log2 (1000 / c) = 0) by (apply Z.log2_unique; [lia | cbn; lia]).
      rewrite H. reflexivity.
Qed.

Lemma pack_large c : 1000 < c -> pack c = 1000 * 2 ^ Z.log2_up (cdiv c 1000) /\ 1 <= Z.log2_up (cdiv c 1000).
Proof.
  intros Hc. unfold pack. rewrite (Z.max_r 1 c) by lia. unfold clog2.
  destruct (c <=? 1000) eqn:E; [lia|].
  pose proof (cdiv_spec c 1000 ltac:(lia)) as Hs.
  assert (Hm : 2 <= cdiv c 1000) by lia.
  assert (Hp : 1 <= Z.log2_up (cdiv c 1000)).
  { change 1 with (Z.log2_up 2). apply Z.log2_up_le_mono. exact Hm. }
  rewrite (Z.max_r (-2)) by lia. rewrite (Z.max_r 0 (Z.log2_up _)) by lia. rewrite (Z.max_l 0 (- _)) by lia.
  change (2 ^ 0) with 1. rewrite Z.quot_1_r. split; [lia | exact Hp].
Qed.

(** adjust_cores_for_packability returns the LEAST packable core count that covers the request *)
Theorem pack_spec c :
  packable (pack c) /\ Z.max 1 c <= pack c /\ (forall g, packable g -> Z.max 1 c <= g -> pack c <= g).
Proof.
  assert (Hp : pack c = pack (Z.max 1 c)).
  { unfold pack. rewrite Z.max_r with (n := 1) (m := Z.max 1 c) by lia. reflexivity. }
  rewrite Hp. set (c' := Z.max 1 c). assert (Hc' : 1 <= c') by lia. clearbody c'. clear Hp c.
  destruct (Z_le_gt_dec c' 1000) as [Hs|Hl].
  - rewrite (pack_small c' ltac:(lia)).
    destruct (c' <=? 250) eqn:E1; [|destruct (c' <=? 500) eqn:E2].
    + split; [exists 0; cbn; lia|]. split; [lia|]. intros g Hg _. apply packable_ge_250; exact Hg.
    + split; [exists 1; cbn; lia|]. split; [lia|]. intros g (k & Hk & ->) Hge.
      destruct (Z.eq_dec k 0) as [->|]; [cbn in Hge; lia|].
      assert (2 ^ 1 <= 2 ^ k) by (apply Z.pow_le_mono_r; lia). cbn in H. lia.
    + split; [exists 2; cbn; lia|]. split; [lia|]. intros g (k & Hk & ->) Hge.
      destruct (Z_lt_le_dec k 2) as [Hk2|Hk2].
      * assert (2 ^ k <= 2 ^ 1) by (apply Z.pow_le_mono_r; lia). cbn in H. lia.
      * assert (2 ^ 2 <= 2 ^ k) by (apply Z.pow_le_mono_r; lia). cbn in H. lia.
  - destruct (pack_large c' ltac:(lia)) as [-> Hp].
    set (p := Z.log2_up (cdiv c' 1000)) in *.
    pose proof (cdiv_spec c' 1000 ltac:(lia)) as Hs.
    assert (Hm : 2 <= cdiv c' 1000) by lia.
    split.
    + exists (p + 2). split; [lia|]. rewrite Z.pow_add_r by lia. change (2 ^ 2) with 4. lia.
    + split.
      * pose proof (Z.log2_up_spec (cdiv c' 1000) ltac:(lia)) as [_ Hu]. fold p in Hu. lia.
      * intros g (k & Hk & ->) Hge.
        assert (Hk3 : 3 <= k).
        { destruct (Z_lt_le_dec k 3) as [Hlt|]; [|assumption].
          assert (2 ^ k <= 2 ^ 2) by (apply Z.pow_le_mono_r; lia). cbn in H. lia. }
        assert (E : 250 * 2 ^ k = 1000 * 2 ^ (k - 2)).
        { replace k with ((k - 2) + 2) at 1 by lia. rewrite Z.pow_add_r by lia. change (2 ^ 2) with 4. lia. }
        rewrite E in *.
        assert (cdiv c' 1000 <= 2 ^ (k - 2)) by (apply cdiv_least; lia).
        assert (p <= k - 2) by (apply Z.log2_up_le_pow2; lia).
        assert (2 ^ p <= 2 ^ (k - 2)) by (apply Z.pow_le_mono_r; lia). lia.
Qed.

Lemma packable_memory_exact g mpc : packable g -> exists q, g * (mpc * mib) = 1000 * q.
Proof.
  intros (k & Hk & ->). exists (2 ^ k * mpc * 262144). unfold mib. lia.
Qed.

(** ** storage *)
Lemma storage_gib_sound max_gib s allow g : 0 <= s -> storage_gib max_gib s allow = Some g ->
  s <= g * gib /\ (g * gib < s + gib \/ g = 10) /\ (allow = false -> 10 <= g) /\ (0 < s -> 10 <= g) /\ s <= max_gib * gib.
Proof.
  unfold storage_gib, gib. intros Hs H.
  destruct (s >? max_gib * 1073741824) eqn:E1; [discriminate|].
  destruct (allow && (s =? 0)) eqn:E2.
  - inversion H; subst. apply andb_true_iff in E2. destruct E2 as [-> E2]. apply Z.eqb_eq in E2. subst s.
    assert (cdiv 0 1073741824 = 0) as -> by reflexivity. repeat split; try lia; intros; try discriminate; lia.
  - inversion H; subst. pose proof (cdiv_spec (Z.max 10737418240 s) 1073741824 ltac:(lia)) as Hc.
    assert (10 <= cdiv (Z.max 10737418240 s) 1073741824).
    { destruct (Z_lt_le_dec (cdiv (Z.max 10737418240 s) 1073741824) 10); [|assumption]. nia. }
    repeat split; lia.
Qed.

Lemma storage_gib_complete max_gib s allow : storage_gib max_gib s allow = None -> max_gib * gib < s.
Proof.
  unfold storage_gib. destruct (s >? max_gib * gib) eqn:E; [lia|].
  destruct (allow && (s =? 0)); discriminate.
Qed.

(** round_storage_bytes_to_gib grants the LEAST whole number of GiB that covers the byte count *)
Theorem round_storage_least b : 0 <= b ->
  0 <= round_storage b /\ b <= round_storage b * gib /\
  (forall g, b <= g * gib -> round_storage b <= g) /\ (0 < b -> (round_storage b - 1) * gib < b).
Proof.
  intros Hb. unfold round_storage, gib.
  pose proof (cdiv_spec b 1073741824 ltac:(lia)) as Hc.
  repeat split.
  - destruct (Z_lt_le_dec (cdiv b 1073741824) 0); [nia | assumption].
  - lia.
  - intros g Hg. apply cdiv_least; lia.
  - intros _. lia.
Qed.

(** the storage grant is the least admissible one: it covers the request, respects the 10 GiB minimum (zero only for an
    allowed zero request), never exceeds the cloud maximum, and no admissible whole-GiB grant is smaller *)
Theorem storage_gib_least max_gib s allow g : 0 <= s -> 10 <= max_gib -> storage_gib max_gib s allow = Some g ->
  storage_grant_ok s allow g /\ g <= max_gib /\ (forall g', storage_grant_ok s allow g' -> g <= g').
Proof.
  unfold storage_gib, storage_grant_ok. intros Hs Hmax H.
  destruct (s >? max_gib * gib) eqn:E1; [discriminate|].
  assert (Hle : s <= max_gib * gib) by lia.
  destruct (allow && (s =? 0)) eqn:E2.
  - inversion H; subst g. apply andb_true_iff in E2. destruct E2 as [-> E2]. apply Z.eqb_eq in E2. subst s.
    assert (cdiv 0 gib = 0) as -> by reflexivity.
    split; [split; [unfold gib; lia | right; repeat split] |].
    split; [lia|]. intros g' [Hg' _]. unfold gib in Hg'. lia.
  - assert (Hg : g = round_storage (Z.max (10 * gib) s)) by (injection H as <-; reflexivity).
    clear H. subst g.
    pose proof (round_storage_least (Z.max (10 * gib) s) ltac:(unfold gib; lia)) as (_ & R2 & R3 & _).
    set (r := round_storage (Z.max (10 * gib) s)) in *.
    assert (R10 : 10 <= r).
    { destruct (Z_lt_le_dec r 10); [|assumption]. unfold gib in *. nia. }
    split; [split; [unfold gib in *; lia | left; exact R10] |].
    split.
    + apply R3. unfold gib in *. nia.
    + intros g' [Hc [H10 | (Ha & Hz & _)]].
      * apply R3. unfold gib in *. nia.
      * subst allow s. cbn in E2. discriminate.
Qed.

(** ** PoolConfig.convert_requests_to_resources *)
Theorem convert_sound max_gib mpc wc c m s gc gm gs :
  0 < mpc -> 0 <= s -> 10 <= max_gib -> convert max_gib mpc wc c m s = Some (gc, gm, gs) ->
  (* granted >= requested *)   c <= gc /\ m <= gm /\ s <= gs * gib /\
  (* fits on one worker *)     gc <= wc * 1000 /\ gm <= wc * (mpc * mib) /\ gs <= max_gib /\
  (* shape of the grant *)     packable gc /\ 1000 * gm = gc * (mpc * mib).
Proof.
  intros Hmpc Hs Hmax H. unfold convert in H.
  destruct (storage_gib max_gib s true) as [g|] eqn:Eg; [|discriminate].
  set (c1 := Z.max c (cdiv (m * 1000) (mpc * mib))) in H.
  destruct (pack c1 <=? wc * 1000) eqn:Efit; [|discriminate].
  inversion H; subst gc gm gs. clear H.
  destruct (pack_spec c1) as (Hpk & Hge & _).
  assert (HB : 0 < mpc * mib) by (unfold mib; lia).
  pose proof (cdiv_spec (m * 1000) (mpc * mib) HB) as Hcd.
  destruct (packable_memory_exact (pack c1) mpc Hpk) as (q & Hq).
  pose proof (packable_ge_250 _ Hpk) as H250.
  assert (Hquot : Z.quot (pack c1 * (mpc * mib)) 1000 = q).
  { rewrite Hq. rewrite Z.quot_div_nonneg by nia. rewrite Z.mul_comm. apply Z.div_mul. lia. }
  rewrite Hquot.
  destruct (storage_gib_sound max_gib s true g Hs Eg) as (Hs1 & _ & _ & _ & Hs5).
  assert (g <= max_gib).
  { unfold storage_gib in Eg. destruct (s >? max_gib * gib) eqn:E1; [discriminate|].
    destruct (true && (s =? 0)) eqn:E2; inversion Eg; subst.
    - cbn in E2. apply Z.eqb_eq in E2. subst s. unfold gib. assert (cdiv 0 1073741824 = 0) as -> by reflexivity. lia.
    - apply cdiv_least; [unfold gib; lia|]. unfold gib in *.
      destruct (Z_le_gt_dec s 10737418240); [rewrite Z.max_l by lia | rewrite Z.max_r by lia]; lia. }
  repeat split; try lia; try assumption.
  - nia.
  - nia.
Qed.

(** a request is refused by a pool only if NO packable grant could serve it on that pool (or the disk is beyond the cloud's maximum) *)
Theorem convert_complete max_gib mpc wc c m s :
  0 < mpc -> convert max_gib mpc wc c m s = None ->
  max_gib * gib < s \/
  (forall g, packable g -> c <= g -> m * 1000 <= g * (mpc * mib) -> g <= wc * 1000 -> False).
Proof.
  intros Hmpc H. unfold convert in H.
  destruct (storage_gib max_gib s true) as [g0|] eqn:Eg; [|left; apply (storage_gib_complete _ _ _ Eg)].
  right. intros g Hg Hc Hm Hfit.
  set (c1 := Z.max c (cdiv (m * 1000) (mpc * mib))) in H.
  destruct (pack c1 <=? wc * 1000) eqn:E; [discriminate|].
  destruct (pack_spec c1) as (_ & _ & Hleast).
  assert (HB : 0 < mpc * mib) by (unfold mib; lia).
  assert (cdiv (m * 1000) (mpc * mib) <= g) by (apply cdiv_least; [exact HB | lia]).
  pose proof (packable_ge_250 g Hg).
  specialize (Hleast g Hg ltac:(lia)). lia.
Qed.

(** ** selection *)
Section SelectProofs.
  Variables max_gcp max_azure : Z.
  Notation convert_pool := (convert_pool max_gcp max_azure).

  Lemma from_worker_type_sound pools gcp label wt c m s pre name gc gm gs :
    select_pool_from_worker_type max_gcp max_azure pools gcp label wt c m s pre = Some (name, gc, gm, gs) ->
    exists p, In p pools /\ p_name p = name /\ matches gcp label pre p = true /\ p_worker_type p = wt /\
              convert_pool p c m s = Some (gc, gm, gs).
  Proof.
    induction pools as [|p r IH]; cbn [select_pool_from_worker_type]; [discriminate|].
    destruct (matches gcp label pre p && (p_worker_type p =? wt)) eqn:Em.
    - destruct (convert_pool p c m s) as [[[a b] d]|] eqn:Ec.
      + intros H. unfold mk_result in H. cbn [fst snd] in H. inversion H; subst.
        apply andb_true_iff in Em. destruct Em as [E1 E2]. apply Z.eqb_eq in E2.
        exists p. repeat split; try assumption; [left; reflexivity].
      + intros H. destruct (IH H) as (q & Hq & Hrest). exists q. split; [right; exact Hq | exact Hrest].
    - intros H. destruct (IH H) as (q & Hq & Hrest). exists q. split; [right; exact Hq | exact Hrest].
  Qed.

  Lemma from_worker_type_complete pools gcp label wt c m s pre :
    select_pool_from_worker_type max_gcp max_azure pools gcp label wt c m s pre = None ->
    forall p, In p pools -> matches gcp label pre p = true -> p_worker_type p = wt -> convert_pool p c m s = None.
  Proof.
    induction pools as [|p r IH]; cbn [select_pool_from_worker_type]; intros H q Hq Hm Hwt; [destruct Hq|].
    destruct Hq as [->|Hq].
    - rewrite Hm in H. rewrite <- Hwt in H. rewrite Z.eqb_refl in H. cbn [andb] in H.
      destruct (convert_pool q c m s); [discriminate | reflexivity].
    - apply IH; try assumption.
      destruct (matches gcp label pre p && (p_worker_type p =? wt)); [|exact H].
      destruct (convert_pool p c m s); [discriminate | exact H].
  Qed.

  Definition best_ok (pools : list pool) gcp label pre c m s (best : option (Z * result)) : Prop :=
    match best with
    | None => True
    | Some (_, (name, gc, gm, gs)) =>
        exists p, In p pools /\ p_name p = name /\ matches gcp label pre p = true /\ convert_pool p c m s = Some (gc, gm, gs)
    end.

  Lemma cheapest_sound all pools gcp label c m s pre : forall best,
    (forall p, In p pools -> In p all) -> best_ok all gcp label pre c m s best ->
    best_ok all gcp label pre c m s (cheapest max_gcp max_azure pools gcp label c m s pre best).
  Proof.
    induction pools as [|p r IH]; intros best Hsub Hb; cbn [cheapest]; [exact Hb|].
    apply IH; [intros q Hq; apply Hsub; right; exact Hq|].
    destruct (matches gcp label pre p) eqn:Em; [|exact Hb].
    destruct (convert_pool p c m s) as [[[a b] d]|] eqn:Ec; [|exact Hb].
    assert (Hnew : best_ok all gcp label pre c m s (Some (p_price p, mk_result (p_name p) (a, b, d)))).
    { unfold best_ok, mk_result. cbn [fst snd]. exists p. repeat split; try assumption. apply Hsub; left; reflexivity. }
    destruct best as [[bp br]|]; [|exact Hnew].
    destruct (p_price p <? bp); [exact Hnew | exact Hb].
  Qed.

  Lemma cheapest_complete pools gcp label c m s pre : forall best,
    cheapest max_gcp max_azure pools gcp label c m s pre best = None ->
    best = None /\ forall p, In p pools -> matches gcp label pre p = true -> convert_pool p c m s = None.
  Proof.
    induction pools as [|p r IH]; intros best H; cbn [cheapest] in H.
    - split; [exact H | intros p []].
    - destruct (IH _ H) as [Hb Hr].
      destruct (matches gcp label pre p) eqn:Em.
      + destruct (convert_pool p c m s) as [res|] eqn:Ec.
        * destruct best as [[bp br]|]; [destruct (p_price p <? bp)|]; discriminate.
        * split; [exact Hb|]. intros q [->|Hq] Hm; [exact Ec | apply Hr; assumption].
      + split; [exact Hb|]. intros q [->|Hq] Hm; [rewrite Hm in Em; discriminate | apply Hr; assumption].
  Qed.

  (** the cheapest-pool search returns one of the cheapest candidates (no candidate is strictly cheaper) *)
  Lemma cheapest_minimal pools gcp label c m s pre : forall best bp br,
    cheapest max_gcp max_azure pools gcp label c m s pre best = Some (bp, br) ->
    (forall p, In p pools -> matches gcp label pre p = true -> convert_pool p c m s <> None -> bp <= p_price p) /\
    (forall b0 r0, best = Some (b0, r0) -> bp <= b0).
  Proof.
    induction pools as [|p r IH]; intros best bp br H; cbn [cheapest] in H.
    - subst best. split; [intros p [] | intros b0 r0 E; inversion E; lia].
    - destruct (IH _ _ _ H) as [Hr Hb]. clear IH.
      destruct (matches gcp label pre p) eqn:Em.
      + destruct (convert_pool p c m s) as [res|] eqn:Ec.
        * destruct best as [[b0 r0]|].
          -- destruct (p_price p <? b0) eqn:El.
             ++ specialize (Hb _ _ eq_refl). split.
                ** intros q [->|Hq] Hm Hc; [lia | apply Hr; assumption].
                ** intros b1 r1 E; inversion E; subst. lia.
             ++ specialize (Hb _ _ eq_refl). split.
                ** intros q [->|Hq] Hm Hc; [lia | apply Hr; assumption].
                ** intros b1 r1 E; inversion E; subst. lia.
          -- specialize (Hb _ _ eq_refl). split.
             ++ intros q [->|Hq] Hm Hc; [lia | apply Hr; assumption].
             ++ intros b1 r1 E; discriminate.
        * split; [|exact Hb]. intros q [->|Hq] Hm Hc; [contradiction | apply Hr; assumption].
      + split; [|exact Hb]. intros q [->|Hq] Hm Hc; [rewrite Hm in Em; discriminate | apply Hr; assumption].
  Qed.
End SelectProofs.
