(** C21: the generated translation equals the hand model; proofs about the delay arithmetic and the retry loop. *)
From HailV Require Import Common.Prelude Retry.Model Retry.Inst.
From HailG Require C21.Gen.
Open Scope Z_scope.

(* ------------------------------------------------------------------------------------------------ *)
(** * The translation of the current Python source computes the hand model *)

Lemma gen_cap_nonneg : 0 <= C21.Gen.LOG_2_MAX_MULTIPLIER.
Proof. vm_compute; discriminate. Qed.

Lemma gen_base_nonneg : 0 <= C21.Gen.loop_base_delay_ms.
Proof. vm_compute; discriminate. Qed.

Lemma gen_delay_eq (rr : Z -> Z) tries base max :
  0 <= tries ->
  C21.Gen.delay_ms_for_try rr tries base max =
  delay_ms C21.Gen.LOG_2_MAX_MULTIPLIER tries base max
           (rr (ceiling_ms C21.Gen.LOG_2_MAX_MULTIPLIER tries base / 2 + 1)).
Proof.
  intros Ht. pose proof gen_cap_nonneg as Hc.
  unfold C21.Gen.delay_ms_for_try, delay_ms, ceiling_ms.
  rewrite Z.shiftl_mul_pow2 by lia. rewrite Z.mul_1_l. reflexivity.
Qed.

Lemma gen_decision_eq tries l r t :
  C21.Gen.retry_decision tries l r t = retry_decision tries l r t.
Proof.
  unfold C21.Gen.retry_decision, retry_decision.
  destruct (tries <=? 5), l, r, t; reflexivity.
Qed.

(* ------------------------------------------------------------------------------------------------ *)
(** * Delay arithmetic *)

Lemma ceiling_nonneg cap tries base : 0 <= base -> 0 <= ceiling_ms cap tries base.
Proof.
  intros Hb. unfold ceiling_ms. apply Z.mul_nonneg_nonneg; [exact Hb|].
  destruct (Z_le_gt_dec 0 (Z.min tries cap)) as [H|H].
  - apply Z.pow_nonneg; lia.
  - rewrite Z.pow_neg_r by lia. lia.
Qed.

Lemma ceiling_doubles cap tries base :
  0 <= tries < cap -> ceiling_ms cap (tries + 1) base = 2 * ceiling_ms cap tries base.
Proof.
  intros H. unfold ceiling_ms.
  replace (Z.min (tries + 1) cap) with (Z.succ (Z.min tries cap)) by lia.
  rewrite Z.pow_succ_r by lia. ring.
Qed.

Lemma ceiling_capped cap tries base :
  cap <= tries -> ceiling_ms cap tries base = base * 2 ^ cap.
Proof. intros H. unfold ceiling_ms. rewrite Z.min_r by lia. reflexivity. Qed.

(** for every value r that randrange(ceiling // 2 + 1) can return *)
Lemma delay_ms_bounds cap tries base max r :
  0 <= base ->
  0 <= r < ceiling_ms cap tries base / 2 + 1 ->
  Z.min (ceiling_ms cap tries base / 2) max <= delay_ms cap tries base max r <= Z.min (ceiling_ms cap tries base) max
  /\ delay_ms cap tries base max r <= max.
Proof.
  intros Hb Hr. pose proof (ceiling_nonneg cap tries base Hb) as Hc.
  unfold delay_ms. set (c := ceiling_ms cap tries base) in *. clearbody c. lia.
Qed.

Definition in_range (rr : Z -> Z) : Prop := forall n, 0 < n -> 0 <= rr n < n.

Lemma gen_delay_bounds (rr : Z -> Z) tries base max :
  in_range rr -> 0 <= tries -> 0 <= base ->
  let c := ceiling_ms C21.Gen.LOG_2_MAX_MULTIPLIER tries base in
  let d := C21.Gen.delay_ms_for_try rr tries base max in
  Z.min (c / 2) max <= d <= Z.min c max /\ d <= max.
Proof.
  intros Hrr Ht Hb c d. subst d. rewrite gen_delay_eq by exact Ht.
  apply delay_ms_bounds; [exact Hb|].
  pose proof (ceiling_nonneg C21.Gen.LOG_2_MAX_MULTIPLIER tries base Hb) as Hc.
  fold c in Hc |- *. apply Hrr. lia.
Qed.

(* ------------------------------------------------------------------------------------------------ *)
(** * The loop, for an arbitrary decision and delay function *)

Section LoopGeneric.
  Context {E : Type}.
  Variable decide : Z -> E -> bool.
  Variable delay_of : Z -> Z.

  Definition run_spec (tries : nat) (evs : list (@event E)) (o : outcome) (c : nat) (s : list Z) : Prop :=
    (1 <= c)%nat /\
    length s = (c - 1)%nat /\
    (forall k, (k < c - 1)%nat ->
       exists e, nth_error evs k = Some (Exc e) /\ decide (Z.of_nat (tries + k + 1)) e = true) /\
    (forall k, (k < c - 1)%nat -> nth_error s k = Some (delay_of (Z.of_nat (tries + k + 1)))) /\
    match o with
    | Returned => length evs = (c - 1)%nat
    | Raised p =>
        p = (tries + c - 1)%nat /\
        (nth_error evs (c - 1) = Some BaseExc \/
         exists e, nth_error evs (c - 1) = Some (Exc e) /\ decide (Z.of_nat (tries + c)) e = false)
    end.

  Lemma run_char : forall evs tries o c s,
    run decide delay_of tries evs = (o, c, s) -> run_spec tries evs o c s.
  Proof.
    induction evs as [|ev rest IH]; intros tries o c s Hrun; cbn [run] in Hrun.
    - inversion Hrun; subst. unfold run_spec. cbn.
      repeat split; try lia; intros k Hk; lia.
    - destruct ev as [e|].
      + destruct (decide (Z.of_nat (S tries)) e) eqn:Hd.
        * destruct (run decide delay_of (S tries) rest) as [[o' c'] s'] eqn:Hr.
          inversion Hrun; subst o c s; clear Hrun.
          specialize (IH _ _ _ _ Hr). destruct IH as (Hc1 & Hlen & Hret & Hsl & Hout).
          unfold run_spec. split; [lia|]. split; [cbn [length]; lia|].
          split; [|split].
          -- intros k Hk. destruct k as [|k].
             ++ exists e. split; [reflexivity|].
                replace (tries + 0 + 1)%nat with (S tries) by lia. exact Hd.
             ++ destruct (Hret k ltac:(lia)) as (e' & Hn & Hde). exists e'. split; [exact Hn|].
                replace (tries + S k + 1)%nat with (S tries + k + 1)%nat by lia. exact Hde.
          -- intros k Hk. destruct k as [|k].
             ++ cbn [nth_error]. replace (tries + 0 + 1)%nat with (S tries) by lia. reflexivity.
             ++ cbn [nth_error]. rewrite (Hsl k ltac:(lia)).
                replace (tries + S k + 1)%nat with (S tries + k + 1)%nat by lia. reflexivity.
          -- destruct o' as [|p].
             ++ cbn [length]. lia.
             ++ destruct Hout as (Hp & Hev). split; [lia|].
                replace (S c' - 1)%nat with (S (c' - 1)) by lia. cbn [nth_error].
                replace (tries + S c')%nat with (S tries + c')%nat by lia. exact Hev.
        * inversion Hrun; subst o c s; clear Hrun. unfold run_spec. cbn.
          repeat split; try lia; try (intros k Hk; lia).
          right. exists e. split; [reflexivity|].
          replace (tries + 1)%nat with (S tries) by lia. exact Hd.
      + inversion Hrun; subst o c s; clear Hrun. unfold run_spec. cbn.
        repeat split; try lia; try (intros k Hk; lia). left; reflexivity.
  Qed.

  (** the event with index k was consumed by the run (call number k+1 failed with it) *)
  Lemma nth_lt_length {A} (l : list A) k x : nth_error l k = Some x -> (k < length l)%nat.
  Proof. intros H. apply nth_error_Some. rewrite H. discriminate. Qed.

  (** a consumed failure on which the decision says "retry" is followed by another call *)
  Lemma retried_if_decided evs o c s k e :
    run decide delay_of 0 evs = (o, c, s) ->
    nth_error evs k = Some (Exc e) -> (k < c)%nat ->
    decide (Z.of_nat (k + 1)) e = true -> (k + 1 < c)%nat.
  Proof.
    intros Hrun Hk Hkc Hd. apply run_char in Hrun. destruct Hrun as (Hc1 & _ & _ & _ & Hout).
    destruct (Nat.eq_dec k (c - 1)) as [Heq|Hne]; [|lia]. exfalso.
    destruct o as [|p].
    - apply nth_lt_length in Hk. lia.
    - destruct Hout as (_ & [Hb | (e' & Hn & Hd')]).
      + rewrite <- Heq in Hb. congruence.
      + rewrite <- Heq in Hn. rewrite Hk in Hn. inversion Hn; subst e'.
        replace (0 + c)%nat with (k + 1)%nat in Hd' by lia. congruence.
  Qed.

  (** a consumed failure on which the decision says "raise" ends the run there *)
  Lemma raised_if_decided evs o c s k e :
    run decide delay_of 0 evs = (o, c, s) ->
    nth_error evs k = Some (Exc e) -> (k < c)%nat ->
    decide (Z.of_nat (k + 1)) e = false -> o = Raised k /\ c = S k.
  Proof.
    intros Hrun Hk Hkc Hd. apply run_char in Hrun. destruct Hrun as (Hc1 & _ & Hret & _ & Hout).
    destruct (Nat.eq_dec k (c - 1)) as [Heq|Hne].
    - destruct o as [|p].
      + apply nth_lt_length in Hk. lia.
      + destruct Hout as (Hp & _). split; [f_equal; lia | lia].
    - exfalso. destruct (Hret k ltac:(lia)) as (e' & Hn & Hd').
      rewrite Hk in Hn. inversion Hn; subst e'.
      replace (0 + k + 1)%nat with (k + 1)%nat in Hd' by lia. congruence.
  Qed.

  Lemma raised_if_base evs o c s k :
    run decide delay_of 0 evs = (o, c, s) ->
    nth_error evs k = Some BaseExc -> (k < c)%nat -> o = Raised k /\ c = S k.
  Proof.
    intros Hrun Hk Hkc. apply run_char in Hrun. destruct Hrun as (Hc1 & _ & Hret & _ & Hout).
    destruct (Nat.eq_dec k (c - 1)) as [Heq|Hne].
    - destruct o as [|p].
      + apply nth_lt_length in Hk. lia.
      + destruct Hout as (Hp & _). split; [f_equal; lia | lia].
    - exfalso. destruct (Hret k ltac:(lia)) as (e' & Hn & _). congruence.
  Qed.

  Lemma outcome_calls evs o c s :
    run decide delay_of 0 evs = (o, c, s) ->
    length s = (c - 1)%nat /\
    match o with
    | Returned => c = S (length evs)
    | Raised p => c = S p /\ (p < length evs)%nat
    end.
  Proof.
    intros Hrun. apply run_char in Hrun. destruct Hrun as (Hc1 & Hlen & _ & _ & Hout).
    split; [exact Hlen|]. destruct o as [|p].
    - lia.
    - destruct Hout as (Hp & Hev). split; [lia|].
      destruct Hev as [Hb | (e & Hn & _)]; [apply nth_lt_length in Hb | apply nth_lt_length in Hn]; lia.
  Qed.

  Lemma sleeps_are_delays evs o c s k d :
    run decide delay_of 0 evs = (o, c, s) ->
    nth_error s k = Some d -> d = delay_of (Z.of_nat (k + 1)).
  Proof.
    intros Hrun Hk. apply run_char in Hrun. destruct Hrun as (_ & Hlen & _ & Hsl & _).
    pose proof (nth_lt_length _ _ _ Hk) as Hlt. rewrite Hlen in Hlt.
    rewrite (Hsl k Hlt) in Hk. inversion Hk. f_equal.
  Qed.

  (** if every event is an Exception on which the decision is "retry" whatever the try number, the run returns *)
  Lemma all_retriable_returns : forall evs tries,
    (forall ev, In ev evs -> exists e, ev = Exc e /\ forall t, decide t e = true) ->
    run decide delay_of tries evs =
      (Returned, S (length evs), map (fun k => delay_of (Z.of_nat (tries + k + 1))) (seq 0 (length evs))).
  Proof.
    induction evs as [|ev rest IH]; intros tries Hall; cbn [run length seq map].
    - reflexivity.
    - destruct (Hall ev (or_introl eq_refl)) as (e & -> & Hd). rewrite Hd.
      rewrite IH by (intros ev' Hin; apply Hall; right; exact Hin).
      f_equal. f_equal.
      + f_equal. f_equal. lia.
      + rewrite <- seq_shift, map_map. apply map_ext. intros k. f_equal. f_equal. lia.
  Qed.
End LoopGeneric.

(* ------------------------------------------------------------------------------------------------ *)
(** * The loop with the generated decision chain and delay *)

Section LoopGen.
  Context {E : Type}.
  Variables lim rate trans : E -> bool.
  Variable draw : Z -> Z -> Z.

  Notation loop := (retry_loop lim rate trans draw).
  Notation dec := (gdecide lim rate trans).

  Definition permanent (e : E) : Prop := lim e = false /\ rate e = false /\ trans e = false.
  Definition limited_only (e : E) : Prop := lim e = true /\ rate e = false /\ trans e = false.

  Definition limited_onlyb (ev : @event E) : bool :=
    match ev with Exc e => lim e && negb (rate e) && negb (trans e) | BaseExc => false end.

  Lemma dec_retriable t e : rate e || trans e = true -> dec t e = true.
  Proof.
    intros H. unfold gdecide. rewrite gen_decision_eq. unfold retry_decision.
    destruct (t <=? 5), (lim e), (rate e), (trans e); cbn in *; congruence.
  Qed.

  Lemma dec_permanent t e : permanent e -> dec t e = false.
  Proof.
    intros (Hl & Hr & Ht). unfold gdecide. rewrite gen_decision_eq. unfold retry_decision.
    rewrite Hl, Hr, Ht. destruct (t <=? 5); reflexivity.
  Qed.

  Lemma dec_limited_only t e : limited_only e -> dec t e = (t <=? 5).
  Proof.
    intros (Hl & Hr & Ht). unfold gdecide. rewrite gen_decision_eq. unfold retry_decision.
    rewrite Hl, Hr, Ht. destruct (t <=? 5); reflexivity.
  Qed.

  Lemma loop_retries_transient evs o c s k e :
    loop evs = (o, c, s) -> nth_error evs k = Some (Exc e) -> (k < c)%nat ->
    rate e || trans e = true -> (k + 1 < c)%nat.
  Proof.
    intros Hrun Hk Hkc H. eapply retried_if_decided; eauto. apply dec_retriable; exact H.
  Qed.

  Lemma loop_all_transient_returns evs :
    (forall ev, In ev evs -> exists e, ev = Exc e /\ rate e || trans e = true) ->
    exists s, loop evs = (Returned, S (length evs), s) /\ length s = length evs.
  Proof.
    intros Hall. unfold retry_loop. rewrite all_retriable_returns.
    - eexists; split; [reflexivity|]. rewrite map_length, seq_length. reflexivity.
    - intros ev Hin. destruct (Hall ev Hin) as (e & -> & H). exists e. split; [reflexivity|].
      intros t. apply dec_retriable; exact H.
  Qed.

  Lemma loop_limited_iff evs o c s k e :
    loop evs = (o, c, s) -> nth_error evs k = Some (Exc e) -> (k < c)%nat ->
    limited_only e -> ((k + 1 < c)%nat <-> (k < 5)%nat).
  Proof.
    intros Hrun Hk Hkc Hlo. pose proof (dec_limited_only (Z.of_nat (k + 1)) e Hlo) as Hd.
    destruct (Z.of_nat (k + 1) <=? 5) eqn:Hcmp.
    - split; [lia|]. intros _. eapply retried_if_decided; eauto.
    - destruct (raised_if_decided _ _ _ _ _ _ _ _ Hrun Hk Hkc Hd) as (_ & Hc). lia.
  Qed.

  Lemma loop_limited_raised_sixth evs o c s k e :
    loop evs = (o, c, s) -> nth_error evs k = Some (Exc e) -> (k < c)%nat ->
    limited_only e -> (5 <= k)%nat -> o = Raised k /\ c = S k.
  Proof.
    intros Hrun Hk Hkc Hlo H5. eapply raised_if_decided; eauto.
    rewrite dec_limited_only by exact Hlo. lia.
  Qed.

  (** at most five limited-only failures are ever retried *)
  Lemma count_limited_retried : forall evs tries o c s,
    run dec (gdelay draw) tries evs = (o, c, s) ->
    (length (filter limited_onlyb (firstn (c - 1) evs)) + Nat.min tries 5 <= 5)%nat.
  Proof.
    induction evs as [|ev rest IH]; intros tries o c s Hrun; cbn [run] in Hrun.
    - inversion Hrun; subst. cbn. lia.
    - destruct ev as [e|].
      + destruct (dec (Z.of_nat (S tries)) e) eqn:Hd.
        * destruct (run dec (gdelay draw) (S tries) rest) as [[o' c'] s'] eqn:Hr.
          inversion Hrun; subst o c s; clear Hrun.
          pose proof (run_char _ _ _ _ _ _ _ Hr) as (Hc1 & _).
          specialize (IH _ _ _ _ Hr).
          replace (S c' - 1)%nat with (S (c' - 1)) by lia. cbn [firstn filter limited_onlyb].
          destruct (lim e && negb (rate e) && negb (trans e)) eqn:Hlo.
          -- assert (Hlo' : limited_only e).
             { unfold limited_only. destruct (lim e), (rate e), (trans e); cbn in Hlo; try discriminate; auto. }
             rewrite (dec_limited_only _ _ Hlo') in Hd. cbn [length]. lia.
          -- lia.
        * inversion Hrun; subst o c s; clear Hrun. cbn. lia.
      + inversion Hrun; subst o c s; clear Hrun. cbn. lia.
  Qed.

  Lemma loop_at_most_five_limited evs o c s :
    loop evs = (o, c, s) -> (length (filter limited_onlyb (firstn (c - 1) evs)) <= 5)%nat.
  Proof. intros Hrun. pose proof (count_limited_retried _ _ _ _ _ Hrun). lia. Qed.

  Lemma loop_permanent_immediate evs o c s k e :
    loop evs = (o, c, s) -> nth_error evs k = Some (Exc e) -> (k < c)%nat ->
    permanent e -> o = Raised k /\ c = S k /\ length s = k.
  Proof.
    intros Hrun Hk Hkc Hp.
    destruct (raised_if_decided _ _ _ _ _ _ _ _ Hrun Hk Hkc (dec_permanent _ _ Hp)) as (Ho & Hc).
    destruct (outcome_calls _ _ _ _ _ _ Hrun) as (Hlen & _). repeat split; try assumption. lia.
  Qed.

  Lemma loop_base_immediate evs o c s k :
    loop evs = (o, c, s) -> nth_error evs k = Some BaseExc -> (k < c)%nat ->
    o = Raised k /\ c = S k /\ length s = k.
  Proof.
    intros Hrun Hk Hkc.
    destruct (raised_if_base _ _ _ _ _ _ _ Hrun Hk Hkc) as (Ho & Hc).
    destruct (outcome_calls _ _ _ _ _ _ Hrun) as (Hlen & _). repeat split; try assumption. lia.
  Qed.

  Lemma loop_outcome_calls evs o c s :
    loop evs = (o, c, s) ->
    length s = (c - 1)%nat /\
    match o with
    | Returned => c = S (length evs)
    | Raised p => c = S p /\ (p < length evs)%nat
    end.
  Proof. apply outcome_calls. Qed.

  Lemma loop_delay_bounds evs o c s k d :
    (forall t, in_range (draw t)) ->
    loop evs = (o, c, s) -> nth_error s k = Some d ->
    let ceil := loop_ceiling (Z.of_nat (k + 1)) in
    let mx := C21.Gen.loop_max_delay_ms in
    Z.min (ceil / 2) mx <= d <= Z.min ceil mx /\ d <= mx.
  Proof.
    intros Hrr Hrun Hk ceil mx.
    rewrite (sleeps_are_delays _ _ _ _ _ _ _ _ Hrun Hk).
    unfold gdelay, C21.Gen.loop_delay_ms.
    apply gen_delay_bounds; [apply Hrr | lia | apply gen_base_nonneg].
  Qed.
End LoopGen.

(* ------------------------------------------------------------------------------------------------ *)
(** * The hypotheses are satisfiable; concrete runs *)

Definition L : @event ecls := Exc (true, false, false).   (* limited-retry only *)
Definition T : @event ecls := Exc (false, false, true).   (* transient *)
Definition RL : @event ecls := Exc (false, true, false).  (* rate-limit only *)
Definition P : @event ecls := Exc (false, false, false).  (* permanent *)

Example ex_five_limited_then_success :
  retry_loop_cls [] [L; L; L; L; L] = (Returned, 6%nat, [1000; 2000; 4000; 8000; 16000]).
Proof. vm_compute. reflexivity. Qed.

Example ex_sixth_limited_raised :
  retry_loop_cls [] [L; L; L; L; L; L; T] = (Raised 5, 6%nat, [1000; 2000; 4000; 8000; 16000]).
Proof. vm_compute. reflexivity. Qed.

Example ex_limited_after_five_transient_raised_at_once :
  retry_loop_cls [] [T; T; RL; T; T; L] = (Raised 5, 6%nat, [1000; 2000; 4000; 8000; 16000]).
Proof. vm_compute. reflexivity. Qed.

Example ex_permanent_immediate :
  retry_loop_cls [] [T; P; T] = (Raised 1, 2%nat, [1000]).
Proof. vm_compute. reflexivity. Qed.

Example ex_max_jitter_capped :
  retry_loop_cls [1000; 2000; 4000; 8000; 16000; 32000; 64000] [T; T; T; T; T; T; T]
  = (Returned, 8%nat, [2000; 4000; 8000; 16000; 32000; 60000; 60000]).
Proof. vm_compute. reflexivity. Qed.

Example ex_scripted_draw_in_range script : forall t, in_range (scripted_draw script t).
Proof. intros t n Hn. unfold scripted_draw. apply Z.mod_pos_bound. exact Hn. Qed.
