(** C21 — the loop model instantiated with the definitions GENERATED from the current source
    (decision chain, delay_ms_for_try and the loop's call of it).  Definitions only: this is the object that the
    correspondence run evaluates against the real coroutine and that the property theorems are about. *)
From HailV Require Import Common.Prelude Retry.Model.
From HailG Require C21.Gen.
Open Scope Z_scope.

Section Inst.
  Context {E : Type}.
  Variables lim rate trans : E -> bool.    (* is_limited_retries_error / is_rate_limit_error / is_transient_error *)
  Variable draw : Z -> Z -> Z.             (* draw t n = value returned by the t-th call, random.randrange(n) *)

  Definition gdecide (t : Z) (e : E) : bool := C21.Gen.retry_decision t (lim e) (rate e) (trans e).
  Definition gdelay (t : Z) : Z := C21.Gen.loop_delay_ms (draw t) t.

  Definition retry_loop (evs : list (@event E)) : outcome * nat * list Z := run gdecide gdelay 0 evs.
End Inst.

(** ceiling used by the loop for try number t *)
Definition loop_ceiling (t : Z) : Z :=
  ceiling_ms C21.Gen.LOG_2_MAX_MULTIPLIER t C21.Gen.loop_base_delay_ms.

(** instance used by the correspondence: exceptions are class vectors, random draws are scripted *)
Definition retry_loop_cls (script : list Z) (evs : list (@event ecls)) : outcome * nat * list Z :=
  retry_loop c_limited c_rate c_transient (scripted_draw script) evs.
