(** C21: the chain-following tails regenerated from the source are the ones of the hand model; the classifiers (and hence
    the whole retry loop) depend on an exception object only through the kinds along its [__cause__] chain. *)
From HailV Require Import Common.Prelude Retry.Model Retry.Inst Retry.Chain Retry.Lemmas.
From HailG Require C21.Gen.
Open Scope Z_scope.

(** * The generated tails *)
Lemma gen_limited_tail_eq {K} (own : K -> option bool) (e : exn K) :
  classify own e =
  match own (kind_of e) with
  | Some b => b
  | None => C21.Gen.is_limited_retries_error_tail cause_of context_of (classify own) e
  end.
Proof. destruct e as [k [c|] x s]; cbn; destruct (own k); reflexivity. Qed.

Lemma gen_transient_tail_eq {K} (own : K -> option bool) (e : exn K) :
  classify own e =
  match own (kind_of e) with
  | Some b => b
  | None => C21.Gen.is_transient_error_tail cause_of context_of (classify own) e
  end.
Proof. destruct e as [k [c|] x s]; cbn; destruct (own k); reflexivity. Qed.

(** * Only the cause chain matters *)
Lemma classify_is_chain {K} (own : K -> option bool) : forall e : exn K, classify own e = classify_chain own (cause_chain e).
Proof.
  fix IH 1. intros [k c x s]. cbn [classify cause_chain classify_chain].
  destruct (own k); [reflexivity|]. destruct c as [c'|]; [apply IH | reflexivity].
Qed.

Lemma classify_same_chain {K} (own : K -> option bool) (e e' : exn K) :
  cause_chain e = cause_chain e' -> classify own e = classify own e'.
Proof. intros H. now rewrite !classify_is_chain, H. Qed.

Lemma cause_chain_strip {K} : forall e : exn K, cause_chain (strip_context e) = cause_chain e.
Proof.
  fix IH 1. intros [k c x s]. cbn [strip_context cause_chain]. f_equal.
  destruct c as [c'|]; [apply IH | reflexivity].
Qed.

Lemma classify_strip {K} (own : K -> option bool) (e : exn K) : classify own (strip_context e) = classify own e.
Proof. apply classify_same_chain, cause_chain_strip. Qed.

Lemma kind_is_chain_head {K} (e e' : exn K) : cause_chain e = cause_chain e' -> kind_of e = kind_of e'.
Proof. destruct e as [k c x s], e' as [k' c' x' s']. cbn. intros H. now inversion H. Qed.

Lemma same_causes_strip {K} (ev : @event (exn K)) :
  same_causes ev (match ev with Exc e => Exc (strip_context e) | BaseExc => BaseExc end).
Proof. destruct ev as [e|]; cbn; [now rewrite cause_chain_strip | exact I]. Qed.

(** * The loop *)
Section ChainLoop.
  Context {K : Type}.
  Variables ownL ownT : K -> option bool.     (* the tests of is_limited_retries_error / is_transient_error on the object itself *)
  Variable rateK : K -> bool.                 (* is_rate_limit_error: looks at the object itself only *)
  Variable draw : Z -> Z -> Z.

  Definition lim_x (e : exn K) : bool := classify ownL e.
  Definition rate_x (e : exn K) : bool := rateK (kind_of e).
  Definition trans_x (e : exn K) : bool := classify ownT e.
  Definition loop_x (evs : list (@event (exn K))) : outcome * nat * list Z := retry_loop lim_x rate_x trans_x draw evs.

  Lemma run_same_causes : forall evs evs' t,
    Forall2 same_causes evs evs' ->
    run (gdecide lim_x rate_x trans_x) (gdelay draw) t evs = run (gdecide lim_x rate_x trans_x) (gdelay draw) t evs'.
  Proof.
    induction evs as [|a r IH]; intros evs' t H; inversion H as [|? b ? r' Hab Hr]; subst; [reflexivity|].
    destruct a as [e|], b as [e'|]; cbn [same_causes] in Hab; try contradiction; cbn [run]; [|reflexivity].
    assert (Hd : gdecide lim_x rate_x trans_x (Z.of_nat (S t)) e = gdecide lim_x rate_x trans_x (Z.of_nat (S t)) e').
    { unfold gdecide, lim_x, rate_x, trans_x.
      now rewrite (classify_same_chain ownL e e' Hab), (classify_same_chain ownT e e' Hab), (kind_is_chain_head e e' Hab). }
    rewrite Hd. destruct (gdecide lim_x rate_x trans_x (Z.of_nat (S t)) e'); [|reflexivity].
    now rewrite (IH r' (S t) Hr).
  Qed.

  Lemma loop_same_causes evs evs' : Forall2 same_causes evs evs' -> loop_x evs = loop_x evs'.
  Proof. intros H. unfold loop_x, retry_loop. now apply run_same_causes. Qed.

  Lemma loop_strip evs :
    loop_x evs = loop_x (map (fun ev => match ev with Exc e => Exc (strip_context e) | BaseExc => BaseExc end) evs).
  Proof.
    apply loop_same_causes. induction evs as [|a r IH]; cbn [map]; constructor; [apply same_causes_strip | exact IH].
  Qed.

  (** An error that is nothing in itself and wraps nothing ([__cause__] is None) is permanent whatever was being handled
      when it was raised. *)
  Lemma uncaused_permanent k x s :
    ownL k <> Some true -> ownT k <> Some true -> rateK k = false ->
    permanent lim_x rate_x trans_x (Exn k None x s).
  Proof.
    intros HL HT HR. unfold permanent, lim_x, rate_x, trans_x. cbn [classify kind_of].
    destruct (ownL k) as [[|]|], (ownT k) as [[|]|]; try congruence; auto.
  Qed.

  Lemma loop_uncaused_immediate evs o c s p k x sup :
    loop_x evs = (o, c, s) -> nth_error evs p = Some (Exc (Exn k None x sup)) -> (p < c)%nat ->
    ownL k <> Some true -> ownT k <> Some true -> rateK k = false ->
    o = Raised p /\ c = S p /\ length s = p.
  Proof.
    intros Hrun Hp Hpc HL HT HR.
    apply (loop_permanent_immediate lim_x rate_x trans_x draw evs o c s p (Exn k None x sup) Hrun Hp Hpc).
    now apply uncaused_permanent.
  Qed.
End ChainLoop.

(** Not vacuous: a permanent error raised while a connection reset (limited-retry in itself, kind 1) was being handled,
    implicitly and with [from None], is raised at the first call; wrapped with [from] it is retried. *)
Example ex_context :
  let ownL := own_table [None; Some true; None] in
  let ownT := own_table [None; None; Some true] in
  let reset := Exn 1%nat None None false in
  classify ownL (Exn 0%nat None (Some reset) false) = false /\
  classify ownL (Exn 0%nat None (Some reset) true) = false /\
  classify ownL (Exn 0%nat (Some reset) (Some reset) true) = true /\
  classify ownT (Exn 0%nat (Some (Exn 0%nat None (Some (Exn 2%nat None None false)) false)) None true) = false.
Proof. vm_compute. repeat split. Qed.
