(** C21 — exception objects with their chain links, and the chain-following part of the classifiers
    is_limited_retries_error / is_transient_error of hailtop/utils/utils.py.  Executable definitions only.

    A Python exception object carries, besides what makes it the error it is (its class and fields: [kind]),
      __cause__             set only by an explicit [raise X from Y] (a deliberate wrapper around Y);
      __context__           set by the interpreter for ANY exception raised while another one is being handled
                            (clean-up code, [except A: raise B], and also [raise B from None] / [raise B from C]);
      __suppress_context__  set by [raise ... from ...] (incl. [from None]); display only.
    Both classifiers have the shape
        <tests on e itself: some return True, some (DockerError, hailtop.httpx.ClientResponseError) return a
         definite True/False, otherwise fall through>
        if e.__cause__ is not None: return <the same classifier>(e.__cause__)
        return False
    [own k = Some b]: an object of kind k is decided by the tests on itself; [own k = None]: it falls through to the
    chain-following tail.  The tail is regenerated from the source (HailG.C21.Gen.*_tail) and proved equal to the one
    used here in LemmasChain.v.

    Exception objects are finite trees: a [__cause__] chain that loops back (only possible through two explicit
    [raise .. from ..] in opposite directions or by assigning the attribute) is outside the model — the real
    classifiers do not terminate on it (RecursionError). *)
From HailV Require Import Common.Prelude Retry.Model.

Inductive exn (K : Type) : Type :=
| Exn (kind : K) (cause : option (exn K)) (context : option (exn K)) (suppress_context : bool).
Arguments Exn {K} kind cause context suppress_context.

Definition kind_of {K} (e : exn K) : K := match e with Exn k _ _ _ => k end.
Definition cause_of {K} (e : exn K) : option (exn K) := match e with Exn _ c _ _ => c end.
Definition context_of {K} (e : exn K) : option (exn K) := match e with Exn _ _ x _ => x end.

(** A classifier that follows [__cause__]: is_limited_retries_error / is_transient_error. *)
Fixpoint classify {K} (own : K -> option bool) (e : exn K) : bool :=
  match e with
  | Exn k c _ _ =>
      match own k with
      | Some b => b
      | None => match c with Some c' => classify own c' | None => false end
      end
  end.

(** The kinds along the [__cause__] chain, outermost first: all that a classifier can depend on. *)
Fixpoint cause_chain {K} (e : exn K) : list K :=
  match e with
  | Exn k c _ _ => k :: match c with Some c' => cause_chain c' | None => [] end
  end.

Fixpoint classify_chain {K} (own : K -> option bool) (ks : list K) : bool :=
  match ks with
  | [] => false
  | k :: r => match own k with Some b => b | None => classify_chain own r end
  end.

(** The same object with every [__context__] link (and the display flag) erased, along the whole cause chain. *)
Fixpoint strip_context {K} (e : exn K) : exn K :=
  match e with
  | Exn k c _ _ => Exn k (match c with Some c' => Some (strip_context c') | None => None end) None false
  end.

(** Two failure scripts that differ only in what hangs off the [__context__] links. *)
Definition same_causes {K} (a b : @event (exn K)) : Prop :=
  match a, b with
  | Exc e, Exc e' => cause_chain e = cause_chain e'
  | BaseExc, BaseExc => True
  | _, _ => False
  end.

(** Correspondence only: kinds are numbers, [own] is a table measured on the real classifiers (bare instances). *)
Definition own_table (tbl : list (option bool)) (k : nat) : option bool := nth k tbl None.
