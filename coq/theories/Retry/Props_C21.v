(** C21 — property theorems only.

    [retry_loop lim rate trans draw evs] (Retry/Inst.v) is the loop of retry_transient_errors_with_debug_string run on the
    failure script [evs] (the operation succeeds once the script is exhausted), with the decision chain and the delay
    arithmetic GENERATED from the current Python source; it returns (outcome, number of calls, sleeps in ms).
    Everything is quantified over all exception types [E], all classifier functions [lim], [rate], [trans]
    (is_limited_retries_error / is_rate_limit_error / is_transient_error), all scripts and all random sources. *)
From HailV Require Import Common.Prelude Retry.Model Retry.Inst Retry.Chain Retry.Lemmas Retry.LemmasChain.
From HailG Require C21.Gen.
Open Scope Z_scope.

(** A failure that occurs (the k-th call, k < calls, raised e) and is transient or rate-limit is always followed by
    another call — whatever the position, the other classes of e and the earlier failures. *)
Theorem C21_retries_transient :
  forall (E : Type) (lim rate trans : E -> bool) (draw : Z -> Z -> Z) (evs : list (@event E)) o c s k e,
  retry_loop lim rate trans draw evs = (o, c, s) ->
  nth_error evs k = Some (Exc e) -> (k < c)%nat ->
  rate e || trans e = true -> (k + 1 < c)%nat.
Proof. exact @loop_retries_transient. Qed.
Print Assumptions C21_retries_transient.

(** ... until it succeeds: a script of transient / rate-limit failures only ends with the operation's value returned
    after exactly len+1 calls and len sleeps. *)
Theorem C21_retries_until_success :
  forall (E : Type) (lim rate trans : E -> bool) (draw : Z -> Z -> Z) (evs : list (@event E)),
  (forall ev, In ev evs -> exists e, ev = Exc e /\ rate e || trans e = true) ->
  exists s, retry_loop lim rate trans draw evs = (Returned, S (length evs), s) /\ length s = length evs.
Proof. exact @loop_all_transient_returns. Qed.
Print Assumptions C21_retries_until_success.

(** A limited-retry error that is neither transient nor rate-limit is retried iff it is among the first five
    failures of the call (tries <= 5) ... *)
Theorem C21_limited_retried_iff_first_five :
  forall (E : Type) (lim rate trans : E -> bool) (draw : Z -> Z -> Z) (evs : list (@event E)) o c s k e,
  retry_loop lim rate trans draw evs = (o, c, s) ->
  nth_error evs k = Some (Exc e) -> (k < c)%nat ->
  limited_only lim rate trans e -> ((k + 1 < c)%nat <-> (k < 5)%nat).
Proof. exact @loop_limited_iff. Qed.
Print Assumptions C21_limited_retried_iff_first_five.

(** ... hence at most five such errors are ever retried in one call, for every script ... *)
Theorem C21_limited_at_most_five :
  forall (E : Type) (lim rate trans : E -> bool) (draw : Z -> Z -> Z) (evs : list (@event E)) o c s,
  retry_loop lim rate trans draw evs = (o, c, s) ->
  (length (filter (limited_onlyb lim rate trans) (firstn (c - 1) evs)) <= 5)%nat.
Proof. exact @loop_at_most_five_limited. Qed.
Print Assumptions C21_limited_at_most_five.

(** ... and from the sixth failure on such an error is raised at once. *)
Theorem C21_limited_raised_after_five :
  forall (E : Type) (lim rate trans : E -> bool) (draw : Z -> Z -> Z) (evs : list (@event E)) o c s k e,
  retry_loop lim rate trans draw evs = (o, c, s) ->
  nth_error evs k = Some (Exc e) -> (k < c)%nat ->
  limited_only lim rate trans e -> (5 <= k)%nat -> o = Raised k /\ c = S k.
Proof. exact @loop_limited_raised_sixth. Qed.
Print Assumptions C21_limited_raised_after_five.

(** Any other error (not limited, not rate-limit, not transient) is raised immediately: it is the error that
    propagates, the operation was called exactly position+1 times and nothing was slept after it. *)
Theorem C21_permanent_immediate :
  forall (E : Type) (lim rate trans : E -> bool) (draw : Z -> Z -> Z) (evs : list (@event E)) o c s k e,
  retry_loop lim rate trans draw evs = (o, c, s) ->
  nth_error evs k = Some (Exc e) -> (k < c)%nat ->
  permanent lim rate trans e -> o = Raised k /\ c = S k /\ length s = k.
Proof. exact @loop_permanent_immediate. Qed.
Print Assumptions C21_permanent_immediate.

(** The same for a BaseException that is not an Exception (KeyboardInterrupt, CancelledError). *)
Theorem C21_base_exception_immediate :
  forall (E : Type) (lim rate trans : E -> bool) (draw : Z -> Z -> Z) (evs : list (@event E)) o c s k,
  retry_loop lim rate trans draw evs = (o, c, s) ->
  nth_error evs k = Some BaseExc -> (k < c)%nat ->
  o = Raised k /\ c = S k /\ length s = k.
Proof. exact @loop_base_immediate. Qed.
Print Assumptions C21_base_exception_immediate.

(** Book-keeping: one sleep between consecutive calls; success means every scripted failure was consumed; a raise
    at position p means exactly p+1 calls. *)
Theorem C21_outcome_calls :
  forall (E : Type) (lim rate trans : E -> bool) (draw : Z -> Z -> Z) (evs : list (@event E)) o c s,
  retry_loop lim rate trans draw evs = (o, c, s) ->
  length s = (c - 1)%nat /\
  match o with
  | Returned => c = S (length evs)
  | Raised p => c = S p /\ (p < length evs)%nat
  end.
Proof. exact @loop_outcome_calls. Qed.
Print Assumptions C21_outcome_calls.

(** The sleep after the t-th failure (t = k+1) lies within the jittered exponential bounds
    [min(max, c_t div 2), min(max, c_t)], c_t = base * 2^min(t, LOG_2_MAX_MULTIPLIER), and never exceeds the maximum —
    for every value random.randrange can return. *)
Theorem C21_delay_bounds :
  forall (E : Type) (lim rate trans : E -> bool) (draw : Z -> Z -> Z) (evs : list (@event E)) o c s k d,
  (forall t, in_range (draw t)) ->
  retry_loop lim rate trans draw evs = (o, c, s) -> nth_error s k = Some d ->
  let ceil := loop_ceiling (Z.of_nat (k + 1)) in
  let mx := C21.Gen.loop_max_delay_ms in
  Z.min (ceil / 2) mx <= d <= Z.min ceil mx /\ d <= mx.
Proof. exact @loop_delay_bounds. Qed.
Print Assumptions C21_delay_bounds.

(** delay_ms_for_try itself (generated), for all tries >= 0, base >= 0, every maximum and every random source. *)
Theorem C21_delay_ms_for_try_bounds :
  forall (rr : Z -> Z) (tries base max : Z),
  in_range rr -> 0 <= tries -> 0 <= base ->
  let c := ceiling_ms C21.Gen.LOG_2_MAX_MULTIPLIER tries base in
  let d := C21.Gen.delay_ms_for_try rr tries base max in
  Z.min (c / 2) max <= d <= Z.min c max /\ d <= max.
Proof. exact gen_delay_bounds. Qed.
Print Assumptions C21_delay_ms_for_try_bounds.

(** The ceiling doubles with every try until the cap. *)
Theorem C21_ceiling_exponential :
  forall cap tries base, 0 <= tries < cap ->
  ceiling_ms cap (tries + 1) base = 2 * ceiling_ms cap tries base.
Proof. exact ceiling_doubles. Qed.
Print Assumptions C21_ceiling_exponential.

(** * Chained exceptions: [__cause__] versus [__context__]  (Retry/Chain.v)

    An exception object is [Exn kind cause context suppress_context]; is_limited_retries_error and is_transient_error are
    [classify own]: the tests on the object itself ([own kind = Some b]: decided; [None]: fall through) followed by the
    chain-following tail, which is REGENERATED from the current source. *)

(** The tail of both classifiers in the current source follows [__cause__] and nothing else. *)
Theorem C21_classifier_tails_follow_cause_only :
  forall (K : Type) (own : K -> option bool) (e : exn K),
  classify own e = match own (kind_of e) with Some b => b
                   | None => C21.Gen.is_limited_retries_error_tail cause_of context_of (classify own) e end
  /\
  classify own e = match own (kind_of e) with Some b => b
                   | None => C21.Gen.is_transient_error_tail cause_of context_of (classify own) e end.
Proof. intros K own e. split; [apply gen_limited_tail_eq | apply gen_transient_tail_eq]. Qed.
Print Assumptions C21_classifier_tails_follow_cause_only.

(** Hence a classifier depends on an exception only through the kinds along its [__cause__] chain: whatever hangs off a
    [__context__] link — the error that was being handled when this one was raised, implicitly, with [from None] or with
    [from X] — and the suppress flag never matter, at any depth. *)
Theorem C21_classification_ignores_context :
  forall (K : Type) (own : K -> option bool) (e e' : exn K),
  cause_chain e = cause_chain e' -> classify own e = classify own e'.
Proof. exact @classify_same_chain. Qed.
Print Assumptions C21_classification_ignores_context.

(** ... and so does the whole retry loop: for every script of chained exceptions, every [own] tests, every random source,
    the outcome, the number of calls and every sleep are those of the script with all [__context__] links erased. *)
Theorem C21_loop_ignores_context :
  forall (K : Type) (ownL ownT : K -> option bool) (rateK : K -> bool) (draw : Z -> Z -> Z) (evs evs' : list (@event (exn K))),
  Forall2 same_causes evs evs' ->
  loop_x ownL ownT rateK draw evs = loop_x ownL ownT rateK draw evs'.
Proof. exact @loop_same_causes. Qed.
Print Assumptions C21_loop_ignores_context.

(** An error that is nothing in itself (not limited, not transient, not rate-limit by the tests on the object) and wraps
    nothing ([__cause__] is None) is raised immediately — whatever error, limited-retry or transient, was being handled
    when it was raised. *)
Theorem C21_permanent_raised_while_handling_immediate :
  forall (K : Type) (ownL ownT : K -> option bool) (rateK : K -> bool) (draw : Z -> Z -> Z) (evs : list (@event (exn K)))
         o c s p k (ctx : option (exn K)) (suppress : bool),
  loop_x ownL ownT rateK draw evs = (o, c, s) ->
  nth_error evs p = Some (Exc (Exn k None ctx suppress)) -> (p < c)%nat ->
  ownL k <> Some true -> ownT k <> Some true -> rateK k = false ->
  o = Raised p /\ c = S p /\ length s = p.
Proof. exact @loop_uncaused_immediate. Qed.
Print Assumptions C21_permanent_raised_while_handling_immediate.
