(** C21 — hand model of the retry helpers of hailtop/utils/utils.py.  Executable definitions only.

    * [delay_ms]        : delay_ms_for_try with the value drawn by random.randrange made explicit;
    * [retry_decision]  : the if/elif chain of the `except Exception as e` handler of
                          retry_transient_errors_with_debug_string (true = sleep and call again, false = re-raise);
    * [run]             : the loop  tries = 0; while True: try: return await f() except ...; await sleep(delay)
                          driven by a script of failures (the operation succeeds once the script is exhausted).

    The generated translation of the current source (HailG.C21.Gen) is proved equal to [delay_ms] /
    [retry_decision] in Lemmas.v; [run] is generic in the decision and delay functions and is instantiated with
    the GENERATED ones in Props_C21.v and in the correspondence run against the real coroutine. *)
From HailV Require Import Common.Prelude.
Open Scope Z_scope.

(** ceiling of the jittered exponential back-off: base * 2^min(tries, cap) *)
Definition ceiling_ms (cap tries base : Z) : Z := base * 2 ^ (Z.min tries cap).

(** [r] is the value returned by random.randrange(ceiling // 2 + 1) *)
Definition delay_ms (cap tries base max r : Z) : Z :=
  Z.min (ceiling_ms cap tries base / 2 + r) max.

(** true = retry (fall through to the sleep), false = `raise` *)
Definition retry_decision (tries : Z) (limited rate_limit transient : bool) : bool :=
  if (tries <=? 5) && limited then true
  else if rate_limit then true
  else if negb transient then false
  else true.

Inductive outcome : Type :=
| Returned                 (* the operation finally succeeded and its value was returned *)
| Raised (pos : nat).      (* the failure with this 0-based index in the script propagated to the caller *)

Section Loop.
  Context {E : Type}.

  (** One scripted failure of the operation: an [Exception] instance, or a BaseException that is not an
      Exception (KeyboardInterrupt, CancelledError, SystemExit), which no handler of the loop retries. *)
  Inductive event : Type :=
  | Exc (e : E)
  | BaseExc.

  Variable decide : Z -> E -> bool.     (* tries (already incremented) -> exception -> retry? *)
  Variable delay_of : Z -> Z.           (* tries -> delay in ms computed for that try *)

  (** [run tries evs] = (outcome, number of calls of the operation made from here on, delays slept in ms).
      [tries] is the loop variable = number of failures so far = index of the next event in the whole script. *)
  Fixpoint run (tries : nat) (evs : list event) : outcome * nat * list Z :=
    match evs with
    | [] => (Returned, 1%nat, [])
    | BaseExc :: _ => (Raised tries, 1%nat, [])
    | Exc e :: rest =>
        let t := S tries in
        if decide (Z.of_nat t) e
        then let '(o, c, s) := run t rest in (o, S c, delay_of (Z.of_nat t) :: s)
        else (Raised tries, 1%nat, [])
    end.
End Loop.

Arguments Exc {E} e.
Arguments BaseExc {E}.

(** Exception classes as seen by the three classifiers: (limited, rate_limit, transient). *)
Definition ecls : Type := (bool * bool * bool)%type.
Definition c_limited (c : ecls) : bool := fst (fst c).
Definition c_rate (c : ecls) : bool := snd (fst c).
Definition c_transient (c : ecls) : bool := snd c.

(** scripted random source used by the correspondence: the t-th call (t = tries, from 1) of randrange(n)
    returns script[t-1] mod n *)
Definition scripted_draw (script : list Z) (t n : Z) : Z :=
  nth (Z.to_nat (t - 1)) script 0 mod n.
