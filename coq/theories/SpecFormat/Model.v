(** C15 — stored job specs (batch/batch/batch_format_version.py) and region bitsets (batch/batch/utils.py).
    Executable definitions only.

    Part 1: a JSON value type and the dynamic Python operations the translated methods use, in the option monad
            ([None] = the Python operation raises, or leaves the modelled fragment).
    Part 2: integer/bit operations and association-list dictionaries for the two region functions.
    Part 3: typed job specs (what the validator + front end produce), their JSON form, and the views the property
            says must be recovered. *)
From HailV Require Import Common.Prelude.
Open Scope Z_scope.

(** * 1. JSON values and dynamic operations *)
Inductive jv : Type :=
| JNull
| JBool (b : bool)
| JInt (z : Z)
| JStr (s : list N)
| JList (l : list jv)
| JDict (kvs : list (list N * jv)).

Definition bind {A B} (o : option A) (f : A -> option B) : option B :=
  match o with Some a => f a | None => None end.
Notation "'do' x <- e ; k" := (bind e (fun x => k)) (at level 200, x pattern, e at level 100, k at level 200, right associativity).

Fixpoint str_eqb (a b : list N) : bool :=
  match a, b with
  | [], [] => true
  | x :: a', y :: b' => (x =? y)%N && str_eqb a' b'
  | _, _ => false
  end.

Fixpoint lookup (k : list N) (kvs : list (list N * jv)) : option jv :=
  match kvs with
  | [] => None
  | (k', v) :: t => if str_eqb k k' then Some v else lookup k t
  end.

Definition py_get (d : jv) (k : list N) : option jv :=                (* d.get(k) *)
  match d with
  | JDict kvs => Some (match lookup k kvs with Some v => v | None => JNull end)
  | _ => None
  end.

Definition py_get_default (d : jv) (k : list N) (dflt : jv) : option jv :=   (* d.get(k, dflt) *)
  match d with
  | JDict kvs => Some (match lookup k kvs with Some v => v | None => dflt end)
  | _ => None
  end.

Definition py_item (d : jv) (k : list N) : option jv :=               (* d[k] with a str key: KeyError -> None *)
  match d with JDict kvs => lookup k kvs | _ => None end.

Definition py_index (l : jv) (n : nat) : option jv :=                 (* l[n] with a literal index n >= 0: IndexError -> None *)
  match l with JList xs => nth_error xs n | _ => None end.

Definition py_truth (v : jv) : bool :=
  match v with
  | JNull => false
  | JBool b => b
  | JInt z => negb (z =? 0)
  | JStr s => negb (is_nil s)
  | JList l => negb (is_nil l)
  | JDict kvs => negb (is_nil kvs)
  end.

Definition py_int (v : jv) : option Z :=                              (* int(v) for bool / int *)
  match v with JBool b => Some (if b then 1 else 0) | JInt z => Some z | _ => None end.

Definition py_len (v : jv) : option Z :=
  match v with
  | JStr s => Some (Z.of_nat (length s))
  | JList l => Some (Z.of_nat (length l))
  | JDict kvs => Some (Z.of_nat (length kvs))
  | _ => None
  end.

Fixpoint mapM {A B} (f : A -> option B) (l : list A) : option (list B) :=
  match l with
  | [] => Some []
  | x :: r => do y <- f x; do ys <- mapM f r; Some (y :: ys)
  end.

Definition py_list_comp (f : jv -> option jv) (v : jv) : option jv :=    (* [f(x) for x in v], v a list *)
  match v with JList l => do ys <- mapM f l; Some (JList ys) | _ => None end.

Definition bool_int (b : bool) : Z := if b then 1 else 0.               (* int(True) = 1 *)

(** * 2. integers, bits, association-list dictionaries (region functions) *)
Fixpoint foldM {A S} (f : S -> A -> option S) (l : list A) (s : S) : option S :=
  match l with
  | [] => Some s
  | x :: r => do s' <- f s x; foldM f r s'
  end.

Definition py_lshift (a b : Z) : option Z := if b <? 0 then None else Some (Z.shiftl a b).   (* negative shift count: ValueError *)
Definition py_rshift (a b : Z) : option Z := if b <? 0 then None else Some (Z.shiftr a b).

Fixpoint map_lookup (k : list N) (m : list (list N * Z)) : option Z :=     (* m[k]: KeyError -> None *)
  match m with
  | [] => None
  | (k', v) :: t => if str_eqb k k' then Some v else map_lookup k t
  end.

Definition py_assert (c : bool) : option unit := if c then Some tt else None.

(** * 3. typed specs and the views to be recovered *)
Record secret : Type := { s_namespace : list N; s_name : list N; s_mount_path : list N; s_mount_in_copy : option bool }.
Record account : Type := { a_namespace : list N; a_name : list N }.
Record machine : Type := { m_type : list N; m_preemptible : bool; m_storage_gib : Z }.

Definition k_secrets : list N := [115; 101; 99; 114; 101; 116; 115]%N.
Definition k_service_account : list N := [115; 101; 114; 118; 105; 99; 101; 95; 97; 99; 99; 111; 117; 110; 116]%N.
Definition k_resources : list N := [114; 101; 115; 111; 117; 114; 99; 101; 115]%N.
Definition k_input_files : list N := [105; 110; 112; 117; 116; 95; 102; 105; 108; 101; 115]%N.
Definition k_output_files : list N := [111; 117; 116; 112; 117; 116; 95; 102; 105; 108; 101; 115]%N.
Definition k_namespace : list N := [110; 97; 109; 101; 115; 112; 97; 99; 101]%N.
Definition k_name : list N := [110; 97; 109; 101]%N.
Definition k_mount_path : list N := [109; 111; 117; 110; 116; 95; 112; 97; 116; 104]%N.
Definition k_mount_in_copy : list N := [109; 111; 117; 110; 116; 95; 105; 110; 95; 99; 111; 112; 121]%N.
Definition k_machine_type : list N := [109; 97; 99; 104; 105; 110; 101; 95; 116; 121; 112; 101]%N.
Definition k_preemptible : list N := [112; 114; 101; 101; 109; 112; 116; 105; 98; 108; 101]%N.
Definition k_storage_gib : list N := [115; 116; 111; 114; 97; 103; 101; 95; 103; 105; 98]%N.

(** JSON form of a secret as it appears in a job spec: 'mount_in_copy' may be absent (validator) or a bool (front end). *)
Definition secret_jv (s : secret) : jv :=
  JDict ([(k_namespace, JStr (s_namespace s)); (k_name, JStr (s_name s)); (k_mount_path, JStr (s_mount_path s))]
         ++ match s_mount_in_copy s with Some b => [(k_mount_in_copy, JBool b)] | None => [] end).

(** what the getters must give back *)
Definition secret_view (s : secret) : jv :=
  JDict [(k_namespace, JStr (s_namespace s)); (k_name, JStr (s_name s)); (k_mount_path, JStr (s_mount_path s));
         (k_mount_in_copy, JBool (match s_mount_in_copy s with Some b => b | None => false end))].

Definition secrets_view (l : list secret) : jv :=
  match l with [] => JNull | _ => JList (map secret_view l) end.

Definition account_jv (a : account) : jv := JDict [(k_namespace, JStr (a_namespace a)); (k_name, JStr (a_name a))].
Definition account_view (o : option account) : jv := match o with Some a => account_jv a | None => JNull end.

Definition machine_view (o : option machine) : jv :=
  match o with
  | Some m => JDict [(k_machine_type, JStr (m_type m)); (k_preemptible, JBool (m_preemptible m)); (k_storage_gib, JInt (m_storage_gib m))]
  | None => JNull
  end.

(** A job spec as the validator (batch/front_end/validate.py) and the front end leave it, restricted to what the
    stored compact form is about.  Everything else in the spec dict is unconstrained. *)
Record jobspec : Type := {
  js_secrets : option (list secret);      (* None: 'secrets' absent or null *)
  js_account : option account;            (* None: 'service_account' absent or null *)
  js_machine : option machine;            (* Some: resources.machine_type is a non-empty string, with preemptible and storage_gib *)
  js_inputs : option (list jv);           (* 'input_files': absent, or a list *)
  js_outputs : option (list jv) }.

Definition opt_field (found : option jv) (want : option jv) : Prop :=
  match want with Some v => found = Some v | None => found = None \/ found = Some JNull end.

(** [spec_of kvs js]: the dict [JDict kvs] is a spec whose relevant fields are those of [js]. *)
Definition spec_of (kvs : list (list N * jv)) (js : jobspec) : Prop :=
  opt_field (lookup k_secrets kvs) (option_map (fun l => JList (map secret_jv l)) (js_secrets js)) /\
  opt_field (lookup k_service_account kvs) (option_map account_jv (js_account js)) /\
  (exists rkvs, lookup k_resources kvs = Some (JDict rkvs) /\
     match js_machine js with
     | Some m => m_type m <> [] /\ lookup k_machine_type rkvs = Some (JStr (m_type m)) /\
                 lookup k_preemptible rkvs = Some (JBool (m_preemptible m)) /\
                 lookup k_storage_gib rkvs = Some (JInt (m_storage_gib m))
     | None => lookup k_machine_type rkvs = None \/ lookup k_machine_type rkvs = Some JNull
     end) /\
  lookup k_input_files kvs = option_map JList (js_inputs js) /\
  lookup k_output_files kvs = option_map JList (js_outputs js).

(** hand model of the compact (format version >= 2) encoding *)
Definition mic (s : secret) : bool := match s_mount_in_copy s with Some b => b | None => false end.
Definition enc_secret (s : secret) : jv :=
  JList [JStr (s_namespace s); JStr (s_name s); JStr (s_mount_path s); JInt (bool_int (mic s))].
Definition enc_secrets (o : option (list secret)) : jv :=
  match o with Some l => JList (map enc_secret l) | None => JNull end.
Definition enc_account (o : option account) : jv :=
  match o with Some a => JList [JStr (a_namespace a); JStr (a_name a)] | None => JNull end.
Definition enc_machine (o : option machine) : jv :=
  match o with Some m => JList [JStr (m_type m); JInt (bool_int (m_preemptible m)); JInt (m_storage_gib m)] | None => JNull end.
Definition has_files (o : option (list jv)) : bool := match o with Some (_ :: _) => true | _ => false end.

Definition enc_spec (v : Z) (js : jobspec) : jv :=
  JList ([enc_secrets (js_secrets js); enc_account (js_account js);
          JInt (bool_int (has_files (js_inputs js))); JInt (bool_int (has_files (js_outputs js)))]
         ++ if v <? 5 then [] else [enc_machine (js_machine js)]).

(** the raw values a format-version-1 row gives back (the whole spec is stored) *)
Definition raw_secrets (js : jobspec) : jv := match js_secrets js with Some l => JList (map secret_jv l) | None => JNull end.
Definition raw_account (js : jobspec) : jv := match js_account js with Some a => account_jv a | None => JNull end.

Definition all_secrets (js : jobspec) : list secret := match js_secrets js with Some l => l | None => [] end.

(** * region tables *)
Definition region_selected (sel : list (list N)) (r : list N) : bool := existsb (str_eqb r) sel.
