(** C15 — region bitsets: proofs about the GENERATED [regions_to_bits_rep] / [regions_bits_rep_to_regions]. *)
From HailV Require Import Common.Prelude SpecFormat.Model.
From HailG Require C15.Gen.
Open Scope Z_scope.

Lemma str_eqb_eq a : forall b, str_eqb a b = true <-> a = b.
Proof.
  induction a as [|x a IH]; intros [|y b]; cbn [str_eqb]; try (split; [discriminate | congruence]).
  - split; reflexivity.
  - rewrite andb_true_iff, N.eqb_eq, IH. split; [intros [-> ->]; reflexivity | intros H; injection H; auto].
Qed.

Lemma str_eqb_refl a : str_eqb a a = true.
Proof. apply str_eqb_eq; reflexivity. Qed.

(** region table: a Python dict  name -> id  (distinct names), ids distinct and in 1..63 *)
Definition table_ok (m : list (list N * Z)) : Prop :=
  NoDup (map fst m) /\ NoDup (map snd m) /\ Forall (fun p => 1 <= snd p <= 63) m.

Lemma map_lookup_in r m i : map_lookup r m = Some i -> In (r, i) m.
Proof.
  induction m as [|[k v] m IH]; cbn [map_lookup]; [discriminate|].
  destruct (str_eqb r k) eqn:E.
  - intros H. injection H as ->. apply str_eqb_eq in E. subst. left; reflexivity.
  - intros H. right. apply IH; exact H.
Qed.

Lemma in_map_lookup r i m : NoDup (map fst m) -> In (r, i) m -> map_lookup r m = Some i.
Proof.
  induction m as [|[k v] m IH]; cbn [map fst In map_lookup]; [contradiction|].
  intros Hnd [H | H].
  - injection H as -> ->. rewrite str_eqb_refl. reflexivity.
  - inversion Hnd as [|? ? Hk Hnd']; subst. destruct (str_eqb r k) eqn:E.
    + apply str_eqb_eq in E. subst. exfalso. apply Hk. change k with (fst (k, i)). apply in_map; exact H.
    + apply IH; assumption.
Qed.

(** ** encoding *)
Definition bit_of (i : Z) : Z := Z.shiftl 1 (i - 1).

Definition enc_step (m : list (list N * Z)) (acc : Z) (r : list N) : option Z :=
  match map_lookup r m with
  | Some i => if i <? 64 then (if i - 1 <? 0 then None else Some (Z.lor acc (bit_of i))) else None
  | None => None
  end.

Lemma generated_encode_eq sel m :
  C15.Gen.regions_to_bits_rep sel m = foldM (enc_step m) sel 0.
Proof.
  unfold C15.Gen.regions_to_bits_rep.
  assert (H : forall acc,
    (do result <- foldM (fun result region =>
        do t1 <- map_lookup region m; do _ <- py_assert (t1 <? 64); do t2 <- py_lshift 1 (t1 - 1); Some (Z.lor result t2)) sel acc;
     Some result) = foldM (enc_step m) sel acc).
  { induction sel as [|r sel IH]; intros acc; cbn [foldM bind]; [reflexivity|].
    unfold enc_step at 1. destruct (map_lookup r m) as [i|]; cbn [bind]; [|reflexivity].
    unfold py_assert, py_lshift, bit_of. destruct (i <? 64); cbn [bind]; [|reflexivity].
    destruct (i - 1 <? 0); cbn [bind]; [reflexivity | apply IH]. }
  apply H.
Qed.

Definition sel_ok (sel : list (list N)) (m : list (list N * Z)) : Prop :=
  forall r, In r sel -> exists i, In (r, i) m.

(** invariant of the encoding loop: bit j is set iff some processed region has id j+1; the value stays below 2^63 *)
Lemma lor_bound a b : 0 <= a < 2 ^ 63 -> 0 <= b < 2 ^ 63 -> 0 <= Z.lor a b < 2 ^ 63.
Proof.
  intros Ha Hb. split; [apply Z.lor_nonneg; lia|].
  destruct (Z.eq_dec (Z.lor a b) 0) as [E|E]; [lia|].
  assert (0 < Z.lor a b) by (pose proof (proj2 (Z.lor_nonneg a b) (conj (proj1 Ha) (proj1 Hb))); lia).
  apply Z.log2_lt_pow2; [assumption|]. rewrite Z.log2_lor by lia.
  apply Z.max_lub_lt.
  - destruct (Z.eq_dec a 0) as [->|]; [cbn; lia|]. apply Z.log2_lt_pow2; lia.
  - destruct (Z.eq_dec b 0) as [->|]; [cbn; lia|]. apply Z.log2_lt_pow2; lia.
Qed.

Lemma bit_of_bound i : 1 <= i <= 63 -> 0 <= bit_of i < 2 ^ 63.
Proof.
  intros H. unfold bit_of. rewrite Z.shiftl_1_l. split; [apply Z.pow_nonneg; lia|].
  apply Z.pow_lt_mono_r; lia.
Qed.

Lemma bit_of_testbit i j : 1 <= i -> 0 <= j -> Z.testbit (bit_of i) j = (j =? i - 1).
Proof.
  intros Hi Hj. unfold bit_of. rewrite Z.shiftl_1_l.
  destruct (j =? i - 1) eqn:E.
  - apply Z.eqb_eq in E. subst. apply Z.pow2_bits_true. lia.
  - apply Z.eqb_neq in E. apply Z.pow2_bits_false. lia.
Qed.

Lemma encode_inv m : table_ok m -> forall sel acc,
  sel_ok sel m -> 0 <= acc < 2 ^ 63 ->
  exists bits, foldM (enc_step m) sel acc = Some bits /\ 0 <= bits < 2 ^ 63 /\
    forall j, 0 <= j -> Z.testbit bits j = Z.testbit acc j || existsb (fun r => match map_lookup r m with Some i => j =? i - 1 | None => false end) sel.
Proof.
  intros (Hk & Hi & Hr) sel. induction sel as [|r sel IH]; intros acc Hsel Hacc; cbn [foldM existsb].
  - exists acc. split; [reflexivity|]. split; [exact Hacc|]. intros j _. rewrite orb_false_r. reflexivity.
  - destruct (Hsel r (or_introl eq_refl)) as (i & Hin).
    pose proof (in_map_lookup r i m Hk Hin) as Hl.
    rewrite Forall_forall in Hr. pose proof (Hr (r, i) Hin) as Hrange. cbn [snd] in Hrange.
    unfold enc_step at 1. rewrite Hl.
    destruct (i <? 64) eqn:E1; [|lia]. destruct (i - 1 <? 0) eqn:E2; [lia|]. cbn [bind].
    destruct (IH (Z.lor acc (bit_of i))) as (bits & Hf & Hb & Hbits).
    { intros r' Hr'. apply Hsel. right; exact Hr'. }
    { apply lor_bound; [exact Hacc | apply bit_of_bound; lia]. }
    exists bits. split; [exact Hf|]. split; [exact Hb|].
    intros j Hj. rewrite (Hbits j Hj), Z.lor_spec, (bit_of_testbit i j) by lia.
    rewrite orb_assoc. reflexivity.
Qed.

(** ** decoding *)
Lemma land_1_testbit a : negb (Z.land a 1 =? 0) = Z.testbit a 0.
Proof.
  change 1 with (Z.ones 1). rewrite Z.land_ones by lia. rewrite Z.bit0_odd.
  change (2 ^ 1) with 2. rewrite Zodd_mod. destruct (Z.eqb_spec (a mod 2) 0) as [E|E]; rewrite ?E; cbn.
  - reflexivity.
  - assert (a mod 2 = 1) as -> by (pose proof (Z.mod_pos_bound a 2); lia). reflexivity.
Qed.

Definition dec_step (bits : Z) (acc : list (list N)) (p : list N * Z) : option (list (list N)) :=
  if snd p - 1 <? 0 then None else Some (if Z.testbit bits (snd p - 1) then acc ++ [fst p] else acc).

Lemma generated_decode_eq bits m :
  C15.Gen.regions_bits_rep_to_regions (Some bits) m = option_map Some (foldM (dec_step bits) m []).
Proof.
  unfold C15.Gen.regions_bits_rep_to_regions.
  assert (H : forall acc,
    (do result <- foldM (fun (result : list (list N)) '(region, idx) =>
        do t1 <- py_rshift bits (idx - 1);
        do result0 <- (if negb (Z.land t1 1 =? 0) then Some (result ++ [region]) else Some result); Some result0) m acc;
     Some result) = foldM (dec_step bits) m acc).
  { induction m as [|[r i] m IH]; intros acc; cbn [foldM bind]; [reflexivity|].
    unfold dec_step at 1, py_rshift. cbn [fst snd]. destruct (i - 1 <? 0) eqn:E; cbn [bind]; [reflexivity|].
    rewrite land_1_testbit, Z.shiftr_spec by lia. rewrite Z.add_0_l.
    destruct (Z.testbit bits (i - 1)); cbn [bind]; apply IH. }
  cbn zeta.
  rewrite H. destruct (foldM (dec_step bits) m []); reflexivity.
Qed.

Lemma decode_filter bits m : Forall (fun p => 1 <= snd p <= 63) m -> forall acc,
  foldM (dec_step bits) m acc = Some (acc ++ map fst (filter (fun p => Z.testbit bits (snd p - 1)) m)).
Proof.
  induction 1 as [|[r i] m Hp _ IH]; intros acc; cbn [foldM filter map].
  - rewrite app_nil_r. reflexivity.
  - unfold dec_step at 1. cbn [fst snd] in *. destruct (i - 1 <? 0) eqn:E; [lia|]. cbn [bind].
    destruct (Z.testbit bits (i - 1)); rewrite IH; [|reflexivity].
    cbn [map fst]. rewrite <- app_assoc. reflexivity.
Qed.

(** ** round trip *)
Theorem regions_roundtrip sel m :
  table_ok m -> sel_ok sel m ->
  exists bits,
    C15.Gen.regions_to_bits_rep sel m = Some bits /\ 0 <= bits < 2 ^ 63 /\
    C15.Gen.regions_bits_rep_to_regions (Some bits) m =
      Some (Some (filter (region_selected sel) (map fst m))).
Proof.
  intros Hm Hsel. destruct (encode_inv m Hm sel 0 Hsel) as (bits & Hf & Hb & Hbits); [lia|].
  exists bits. rewrite generated_encode_eq. split; [exact Hf|]. split; [exact Hb|].
  destruct Hm as (Hk & Hi & Hr).
  rewrite generated_decode_eq, (decode_filter bits m Hr []). cbn [option_map app]. do 2 f_equal.
  (* the bit test selects exactly the regions named in sel *)
  assert (Hsame : forall p, In p m -> Z.testbit bits (snd p - 1) = region_selected sel (fst p)).
  { intros [r i] Hin. cbn [fst snd]. rewrite Forall_forall in Hr. pose proof (Hr _ Hin) as Hrange; cbn [snd] in Hrange.
    rewrite Hbits by lia. rewrite Z.bits_0. cbn [orb]. unfold region_selected.
    apply eq_true_iff_eq. rewrite !existsb_exists. split.
    - intros (r' & Hr' & Hl). destruct (map_lookup r' m) as [i'|] eqn:El; [|discriminate].
      apply Z.eqb_eq in Hl. assert (i' = i) by lia. subst i'. apply map_lookup_in in El.
      (* distinct ids: the entry with id i is (r, i) *)
      assert (r' = r).
      { clear - Hi Hin El. induction m as [|[k v] m IH]; [contradiction|].
        cbn [map snd] in Hi. inversion Hi as [|? ? Hv Hi']; subst.
        destruct Hin as [H1 | H1], El as [H2 | H2].
        - congruence.
        - injection H1 as -> ->. exfalso. apply Hv. change i with (snd (r', i)). apply in_map; exact H2.
        - injection H2 as -> ->. exfalso. apply Hv. change i with (snd (r, i)). apply in_map; exact H1.
        - apply IH; assumption. }
      subst r'. exists r. split; [exact Hr' | apply str_eqb_refl].
    - intros (r' & Hr' & E). apply str_eqb_eq in E. subst r'. exists r. split; [exact Hr'|].
      rewrite (in_map_lookup r i m Hk Hin). apply Z.eqb_refl. }
  clear - Hsame. induction m as [|p m IH]; cbn [filter map]; [reflexivity|].
  rewrite (Hsame p (or_introl eq_refl)).
  destruct (region_selected sel (fst p)); cbn [map]; rewrite IH; auto; intros q Hq; apply Hsame; right; exact Hq.
Qed.

Lemma decode_none m : C15.Gen.regions_bits_rep_to_regions None m = Some None.
Proof. reflexivity. Qed.

(** a job may also have no region restriction at all; and hypotheses are satisfiable *)
Example table_example : table_ok [([97%N], 1); ([98%N], 2); ([99%N], 63)] /\ sel_ok [[99%N]; [97%N]; [99%N]] [([97%N], 1); ([98%N], 2); ([99%N], 63)].
Proof.
  split.
  - repeat split; cbn; repeat constructor; cbn; intuition (try discriminate; try lia).
  - intros r [<- | [<- | [<- | []]]]; eexists; cbn; eauto.
Qed.
