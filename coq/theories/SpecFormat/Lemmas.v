(** C15 — proofs about the GENERATED definitions (coq/generated/C15/Gen.v). *)
From HailV Require Import Common.Prelude SpecFormat.Model.
From HailG Require C15.Gen.
Open Scope Z_scope.

Lemma mapM_map {A B C} (f : B -> option C) (g : A -> B) (h : A -> C) (l : list A) :
  (forall x, f (g x) = Some (h x)) -> mapM f (map g l) = Some (map h l).
Proof.
  intros H. induction l as [|x l IH]; cbn [map mapM]; [reflexivity|].
  rewrite H. cbn [bind]. rewrite IH. reflexivity.
Qed.

Ltac keys := unfold k_secrets, k_service_account, k_resources, k_input_files, k_output_files, k_namespace, k_name,
                    k_mount_path, k_mount_in_copy, k_machine_type, k_preemptible, k_storage_gib in *.

Lemma db_spec_eq v kvs js :
  v <> 1 -> spec_of kvs js -> C15.Gen.db_spec v (JDict kvs) = Some (enc_spec v js).
Proof.
  intros Hv (Hsec & Hacc & (rkvs & Hres & Hm) & Hin & Hout).
  destruct js as [sec acc mach ins outs]; cbn [js_secrets js_account js_machine js_inputs js_outputs] in *.
  unfold C15.Gen.db_spec. rewrite (proj2 (Z.eqb_neq v 1) Hv).
  keys. cbn [py_get bind].
  (* secrets *)
  match goal with |- bind ?e _ = _ => assert (E1 : e = Some (enc_secrets sec)) end.
  { destruct sec as [[|s l]|]; cbn [option_map opt_field] in Hsec.
    - rewrite Hsec. reflexivity.
    - rewrite Hsec. change (map secret_jv (s :: l)) with (secret_jv s :: map secret_jv l) at 1.
      cbn [py_truth is_nil negb py_list_comp bind].
      rewrite (mapM_map _ secret_jv enc_secret); [reflexivity|].
      intros [ns nm mp [b|]]; reflexivity.
    - destruct Hsec as [H | H]; rewrite H; reflexivity. }
  rewrite E1; cbn [bind]; clear E1.
  (* service account *)
  match goal with |- bind ?e _ = _ => assert (E2 : e = Some (enc_account acc)) end.
  { destruct acc as [a|]; cbn [option_map opt_field] in Hacc.
    - rewrite Hacc. reflexivity.
    - destruct Hacc as [H | H]; rewrite H; reflexivity. }
  rewrite E2; cbn [bind]; clear E2.
  (* machine spec *)
  rewrite Hres. cbn [py_get py_item bind].
  match goal with |- bind ?e _ = _ => assert (E3 : e = Some (enc_machine mach)) end.
  { destruct mach as [m|].
    - destruct Hm as (Hne & H1 & H2 & H3). rewrite H1, H2, H3. unfold enc_machine.
      destruct (m_type m) as [|c t] eqn:Et; [congruence|]. destruct (m_preemptible m); reflexivity.
    - destruct Hm as [H | H]; rewrite H; reflexivity. }
  rewrite E3; cbn [bind]; clear E3.
  (* file flags *)
  cbn [py_get_default bind]. rewrite Hin, Hout. unfold enc_spec. cbn [js_secrets js_account js_machine js_inputs js_outputs].
  destruct (v <? 5); destruct ins as [[|i ins]|]; destruct outs as [[|o outs]|]; reflexivity.
Qed.

(** getters applied to the compact form *)
Lemma enc_spec_index v js :
  py_index (enc_spec v js) 0 = Some (enc_secrets (js_secrets js)) /\
  py_index (enc_spec v js) 1 = Some (enc_account (js_account js)) /\
  py_index (enc_spec v js) 2 = Some (JInt (bool_int (has_files (js_inputs js)))) /\
  py_index (enc_spec v js) 3 = Some (JInt (bool_int (has_files (js_outputs js)))) /\
  (5 <= v -> py_index (enc_spec v js) 4 = Some (enc_machine (js_machine js))).
Proof.
  unfold enc_spec. repeat split; try reflexivity.
  intros H. destruct (v <? 5) eqn:E; [lia | reflexivity].
Qed.

Lemma get_secrets_enc v js :
  v <> 1 -> C15.Gen.get_spec_secrets v (enc_spec v js) = Some (secrets_view (all_secrets js)).
Proof.
  intros Hv. unfold C15.Gen.get_spec_secrets. rewrite (proj2 (Z.eqb_neq v 1) Hv).
  rewrite (proj1 (enc_spec_index v js)). cbn [bind]. unfold all_secrets.
  destruct (js_secrets js) as [[|s l]|]; try reflexivity.
  unfold enc_secrets. change (map enc_secret (s :: l)) with (enc_secret s :: map enc_secret l) at 1.
  cbn [py_truth is_nil negb py_list_comp bind].
  change (enc_secret s :: map enc_secret l) with (map enc_secret (s :: l)).
  rewrite (mapM_map _ enc_secret secret_view); [reflexivity|].
  intros [ns nm mp [[|]|]]; reflexivity.
Qed.

Lemma get_account_enc v js :
  v <> 1 -> C15.Gen.get_spec_service_account v (enc_spec v js) = Some (account_view (js_account js)).
Proof.
  intros Hv. unfold C15.Gen.get_spec_service_account. rewrite (proj2 (Z.eqb_neq v 1) Hv).
  rewrite (proj1 (proj2 (enc_spec_index v js))). cbn [bind].
  destruct (js_account js) as [a|]; reflexivity.
Qed.

Lemma get_inputs_enc v js :
  v <> 1 -> C15.Gen.get_spec_has_input_files v (enc_spec v js) = Some (JBool (has_files (js_inputs js))).
Proof.
  intros Hv. unfold C15.Gen.get_spec_has_input_files. rewrite (proj2 (Z.eqb_neq v 1) Hv).
  rewrite (proj1 (proj2 (proj2 (enc_spec_index v js)))). cbn [bind].
  destruct (has_files (js_inputs js)); reflexivity.
Qed.

Lemma get_outputs_enc v js :
  v <> 1 -> C15.Gen.get_spec_has_output_files v (enc_spec v js) = Some (JBool (has_files (js_outputs js))).
Proof.
  intros Hv. unfold C15.Gen.get_spec_has_output_files. rewrite (proj2 (Z.eqb_neq v 1) Hv).
  rewrite (proj1 (proj2 (proj2 (proj2 (enc_spec_index v js))))). cbn [bind].
  destruct (has_files (js_outputs js)); reflexivity.
Qed.

Lemma get_machine_enc v js :
  5 <= v -> C15.Gen.get_spec_machine_spec v (enc_spec v js) = Some (machine_view (js_machine js)).
Proof.
  intros Hv. unfold C15.Gen.get_spec_machine_spec. destruct (v <? 5) eqn:E; [lia|].
  rewrite (proj2 (proj2 (proj2 (proj2 (enc_spec_index v js)))) Hv). cbn [bind].
  destruct (js_machine js) as [m|]; [|reflexivity].
  cbn. destruct (m_preemptible m); reflexivity.
Qed.

Lemma get_machine_legacy v db : v < 5 -> C15.Gen.get_spec_machine_spec v db = Some JNull.
Proof. intros Hv. unfold C15.Gen.get_spec_machine_spec. destruct (v <? 5) eqn:E; [reflexivity | lia]. Qed.

(** format version 1: the whole spec is the stored form *)
Lemma v1_roundtrip kvs js :
  spec_of kvs js ->
  C15.Gen.db_spec 1 (JDict kvs) = Some (JDict kvs) /\
  C15.Gen.get_spec_secrets 1 (JDict kvs) = Some (raw_secrets js) /\
  C15.Gen.get_spec_service_account 1 (JDict kvs) = Some (raw_account js) /\
  C15.Gen.get_spec_has_input_files 1 (JDict kvs) = Some (JBool (has_files (js_inputs js))) /\
  C15.Gen.get_spec_has_output_files 1 (JDict kvs) = Some (JBool (has_files (js_outputs js))).
Proof.
  intros (Hsec & Hacc & _ & Hin & Hout). keys.
  unfold C15.Gen.db_spec, C15.Gen.get_spec_secrets, C15.Gen.get_spec_service_account, C15.Gen.get_spec_has_input_files,
    C15.Gen.get_spec_has_output_files, raw_secrets, raw_account.
  cbn [Z.eqb Pos.eqb py_get py_get_default bind]. rewrite Hin, Hout.
  split; [reflexivity|]. split.
  { destruct (js_secrets js) as [l|]; cbn [option_map opt_field] in Hsec; [rewrite Hsec; reflexivity|].
    destruct Hsec as [H | H]; rewrite H; reflexivity. }
  split.
  { destruct (js_account js) as [a|]; cbn [option_map opt_field] in Hacc; [rewrite Hacc; reflexivity|].
    destruct Hacc as [H | H]; rewrite H; reflexivity. }
  split; [destruct (js_inputs js) as [[|i l]|] | destruct (js_outputs js) as [[|i l]|]]; cbn; try reflexivity;
    f_equal; f_equal; lia.
Qed.

(** if every secret already carries mount_in_copy (what the front end writes), the view is literally the input *)
Lemma secrets_view_literal l :
  l <> [] -> Forall (fun s => s_mount_in_copy s <> None) l -> secrets_view l = JList (map secret_jv l).
Proof.
  intros Hne Hall. destruct l as [|s0 l0]; [congruence|]. unfold secrets_view. f_equal.
  apply map_ext_in. intros s Hs. rewrite Forall_forall in Hall. specialize (Hall s Hs).
  destruct s as [ns nm mp [b|]]; [reflexivity | cbn in Hall; congruence].
Qed.

(** the legacy witness: format version 4 has no slot for the machine spec *)
Definition witness_kvs : list (list N * jv) :=
  [(k_resources, JDict [(k_machine_type, JStr [110%N]); (k_preemptible, JBool true); (k_storage_gib, JInt 10)])].
Definition witness_js : jobspec :=
  {| js_secrets := None; js_account := None;
     js_machine := Some {| m_type := [110%N]; m_preemptible := true; m_storage_gib := 10 |};
     js_inputs := None; js_outputs := None |}.

Lemma witness_spec : spec_of witness_kvs witness_js.
Proof.
  unfold spec_of, witness_kvs, witness_js; cbn. repeat split; auto.
  eexists. split; [reflexivity|]. repeat split; auto. discriminate.
Qed.

Lemma machine_spec_lost :
  exists db, C15.Gen.db_spec 4 (JDict witness_kvs) = Some db /\
             C15.Gen.get_spec_machine_spec 4 db <> Some (machine_view (js_machine witness_js)).
Proof. eexists. split; [reflexivity | discriminate]. Qed.

(** hypotheses satisfiable: a full spec *)
Example spec_of_example :
  spec_of [(k_secrets, JList [secret_jv {| s_namespace := [97%N]; s_name := [98%N]; s_mount_path := [47%N]; s_mount_in_copy := Some true |}]);
           (k_resources, JDict []); (k_input_files, JList [JNull])]
          {| js_secrets := Some [{| s_namespace := [97%N]; s_name := [98%N]; s_mount_path := [47%N]; s_mount_in_copy := Some true |}];
             js_account := None; js_machine := None; js_inputs := Some [JNull]; js_outputs := None |}.
Proof.
  unfold spec_of; cbn. repeat split; auto. eexists. split; [reflexivity|]. left. reflexivity.
Qed.
