(** C15 — property theorems only.  [C15.Gen] is regenerated on every run from batch/batch/batch_format_version.py
    (db_spec and the get_spec_ getters) and batch/batch/utils.py (regions_to_bits_rep, regions_bits_rep_to_regions) by the
    dynamic-Python translator; results are [option]: [None] = the Python code raises.
    [spec_of kvs js] (Model.v): the dict [JDict kvs] is a job spec whose secrets / service account / machine type /
    file lists are those of the typed record [js] (what the validator and the front end produce); every other entry of
    the dict is arbitrary.  JSON (de)serialisation between db_spec and the getters is the identity on [jv]. *)
From HailV Require Import Common.Prelude SpecFormat.Model SpecFormat.Lemmas SpecFormat.LemmasRegions.
From HailG Require C15.Gen.
Open Scope Z_scope.

(** Compact form (every format version except 1, in particular 2..current): db_spec never raises and the getters give back
    the secrets (as 4-field dicts, mount_in_copy defaulting to False; no secrets = None), the service account and both file flags. *)
Theorem C15_spec_roundtrip : forall (v : Z) (kvs : list (list N * jv)) (js : jobspec),
  v <> 1 -> spec_of kvs js ->
  exists db, C15.Gen.db_spec v (JDict kvs) = Some db /\
    C15.Gen.get_spec_secrets v db = Some (secrets_view (all_secrets js)) /\
    C15.Gen.get_spec_service_account v db = Some (account_view (js_account js)) /\
    C15.Gen.get_spec_has_input_files v db = Some (JBool (has_files (js_inputs js))) /\
    C15.Gen.get_spec_has_output_files v db = Some (JBool (has_files (js_outputs js))).
Proof.
  intros v kvs js Hv Hs. exists (enc_spec v js). split; [apply db_spec_eq; assumption|].
  split; [apply get_secrets_enc; exact Hv|]. split; [apply get_account_enc; exact Hv|].
  split; [apply get_inputs_enc; exact Hv | apply get_outputs_enc; exact Hv].
Qed.
Print Assumptions C15_spec_roundtrip.

(** Format version 1 stores the spec itself: the getters return the spec's own values. *)
Theorem C15_spec_roundtrip_v1 : forall (kvs : list (list N * jv)) (js : jobspec),
  spec_of kvs js ->
  C15.Gen.db_spec 1 (JDict kvs) = Some (JDict kvs) /\
  C15.Gen.get_spec_secrets 1 (JDict kvs) = Some (raw_secrets js) /\
  C15.Gen.get_spec_service_account 1 (JDict kvs) = Some (raw_account js) /\
  C15.Gen.get_spec_has_input_files 1 (JDict kvs) = Some (JBool (has_files (js_inputs js))) /\
  C15.Gen.get_spec_has_output_files 1 (JDict kvs) = Some (JBool (has_files (js_outputs js))).
Proof. exact v1_roundtrip. Qed.
Print Assumptions C15_spec_roundtrip_v1.

(** When every secret carries mount_in_copy (what the front end writes) the recovered secrets are literally the input. *)
Theorem C15_secrets_literal : forall l : list secret,
  l <> [] -> Forall (fun s => s_mount_in_copy s <> None) l -> secrets_view l = JList (map secret_jv l).
Proof. exact secrets_view_literal. Qed.
Print Assumptions C15_secrets_literal.

(** Machine spec — the full statement "for every version the machine spec is recovered" is REFUTED for the legacy versions
    (see C15_machine_spec_refuted); what holds: versions >= 5 recover it, and older versions recover "no machine spec". *)
Theorem C15_machine_spec_roundtrip_partial : forall (v : Z) (kvs : list (list N * jv)) (js : jobspec),
  v <> 1 -> spec_of kvs js -> (5 <= v \/ js_machine js = None) ->
  exists db, C15.Gen.db_spec v (JDict kvs) = Some db /\
             C15.Gen.get_spec_machine_spec v db = Some (machine_view (js_machine js)).
Proof.
  intros v kvs js Hv Hs H. exists (enc_spec v js). split; [apply db_spec_eq; assumption|].
  destruct (Z_lt_le_dec v 5) as [Hlt | Hge].
  - destruct H as [H | H]; [lia|]. rewrite H. apply get_machine_legacy; exact Hlt.
  - apply get_machine_enc; exact Hge.
Qed.
Print Assumptions C15_machine_spec_roundtrip_partial.

Theorem C15_machine_spec_refuted :
  exists (v : Z) (kvs : list (list N * jv)) (js : jobspec),
    1 <= v <= C15.Gen.BATCH_FORMAT_VERSION /\ spec_of kvs js /\
    exists db, C15.Gen.db_spec v (JDict kvs) = Some db /\
               C15.Gen.get_spec_machine_spec v db <> Some (machine_view (js_machine js)).
Proof.
  exists 4, witness_kvs, witness_js. split; [unfold C15.Gen.BATCH_FORMAT_VERSION; lia|].
  split; [exact witness_spec | exact machine_spec_lost].
Qed.
Print Assumptions C15_machine_spec_refuted.

(** Region sets: for every region table (distinct names, distinct ids in 1..63) and every selection of names from it
    (any order, repetitions allowed) the bitset fits a signed 64-bit column and decodes to exactly the selected regions. *)
Theorem C15_regions_roundtrip : forall (sel : list (list N)) (m : list (list N * Z)),
  table_ok m -> sel_ok sel m ->
  exists bits,
    C15.Gen.regions_to_bits_rep sel m = Some bits /\ 0 <= bits < 2 ^ 63 /\
    C15.Gen.regions_bits_rep_to_regions (Some bits) m = Some (Some (filter (region_selected sel) (map fst m))).
Proof. exact regions_roundtrip. Qed.
Print Assumptions C15_regions_roundtrip.

(** No restriction stays no restriction. *)
Theorem C15_regions_none : forall m, C15.Gen.regions_bits_rep_to_regions None m = Some None.
Proof. exact decode_none. Qed.
Print Assumptions C15_regions_none.
