(** C13: hand model of the billing quantities (batch/batch/resources.py mixins, the gcp/azure resource classes and
    InstanceConfig.quantified_resources).  Executable definitions only.  coq/generated/C13/Gen.v holds the
    translation of the current Python source; Lemmas.v proves it equal to this model. *)
From HailV Require Import Common.Prelude.
Open Scope Z_scope.

(** result of Resource.to_quantified_resource *)
Inductive qres : Type :=
| Billed (quantity : Z)
| NotBilled               (* the method returns None *)
| Raises.                 (* an assertion of the method fails *)

(** InstanceConfig.quantified_resources: 1024 * cpu_in_mcpu // (self.cores * 1000) *)
Definition worker_fraction (cores cpu : Z) : Z := 1024 * cpu / (cores * 1000).

(** azure_disk_from_storage_in_gib: bisect_key_left over the family's disks sorted by size *)
Definition azure_disk_size (sizes : list Z) (storage_in_gib : Z) : option Z :=
  find (fun s => storage_in_gib <=? s) sizes.

(** the quantity formulas, one constructor per formula used by the resource classes *)
Inductive rkind : Type :=
| KStaticDisk (storage_in_gib : Z)    (* StaticSizedDiskResourceMixin: gcp pd / local ssd, azure managed disk *)
| KCompute                            (* ComputeResourceMixin *)
| KVM                                 (* VMResourceMixin: azure vm *)
| KAccelerator (number : Z)           (* GCPAcceleratorResource = number * VMResourceMixin *)
| KMemory                             (* MemoryResourceMixin *)
| KIPFee                              (* IPFeeResourceMixin *)
| KServiceFee                         (* ServiceFeeResourceMixin *)
| KPerCpuFee                          (* GCPSupportLogsSpecsAndFirewallFees *)
| KDynDiskLinear                      (* GCPDynamicSizedDiskResource: the job's external disk *)
| KDynDiskTable (sizes : list Z).     (* AzureDynamicSizedDiskResource: external disk rounded up to a billable size *)

Definition quantity (k : rkind) (cpu mem wf ext : Z) : qres :=
  match k with
  | KStaticDisk g => Billed (g * wf)
  | KCompute => Billed cpu
  | KVM => Billed wf
  | KAccelerator n => Billed (n * wf)
  | KMemory => Billed (mem / 1024 / 1024)
  | KIPFee => Billed wf
  | KServiceFee => Billed cpu
  | KPerCpuFee => Billed cpu
  | KDynDiskLinear => if ext =? 0 then NotBilled else Billed (ext * 1024)
  | KDynDiskTable sizes =>
      if ext =? 0 then NotBilled
      else match azure_disk_size sizes ext with Some s => Billed (s * 1024) | None => Raises end
  end.

(** a resource of the worker itself (everything except the per-job external disk) *)
Definition worker_resource (k : rkind) : bool :=
  match k with KDynDiskLinear | KDynDiskTable _ => false | _ => true end.

(** parameters are sizes / counts *)
Definition kind_nonneg (k : rkind) : Prop :=
  match k with KStaticDisk g => 0 <= g | KAccelerator n => 0 <= n | _ => True end.

Definition billed (r : qres) : Z := match r with Billed q => q | _ => 0 end.

(** a job: (cpu_in_mcpu, memory_in_bytes, external_storage_in_gib) *)
Definition job : Type := (Z * Z * Z)%type.
Definition j_cpu (j : job) : Z := fst (fst j).
Definition j_mem (j : job) : Z := snd (fst j).
Definition j_ext (j : job) : Z := snd j.

(** what one entry of [InstanceConfig.quantified_resources] bills a job on a worker with [cores] cores *)
Definition job_quantity (cores : Z) (k : rkind) (j : job) : qres :=
  quantity k (j_cpu j) (j_mem j) (worker_fraction cores (j_cpu j)) (j_ext j).

(** InstanceConfig.quantified_resources over the list of resources of the instance config ([Raises] propagates) *)
Fixpoint quantified_resources (cores : Z) (rs : list rkind) (j : job) : option (list Z) :=
  match rs with
  | [] => Some []
  | k :: r =>
      match job_quantity cores k j, quantified_resources cores r j with
      | Raises, _ => None
      | _, None => None
      | Billed q, Some l => Some (q :: l)
      | NotBilled, Some l => Some l
      end
  end.

(** the whole worker: total_resources_on_instance = quantified_resources(cores * 1000, instance_memory, 0) *)
Definition whole (cores memory : Z) : job := (cores * 1000, memory, 0).

(** memory of a pool job: [int((mcpu / 1000) * memory_per_core_bytes)] for the packable core counts, where the
    float product is exact (validated exhaustively against the real functions for every valid mcpu of every table entry) *)
Definition job_memory (bytes_per_core mcpu : Z) : Z := mcpu * bytes_per_core / 1000.

Definition is_power_two (n : Z) : bool := (0 <? n) && (Z.land n (n - 1) =? 0).
