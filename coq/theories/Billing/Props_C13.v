(** C13 — property theorems only.  Everything is stated about the definitions GENERATED from the current Python source
    (HailG.C13.Gen, through the thin wrappers of GenLemmas.v: [billed_for c cores r j] is what
    InstanceConfig.quantified_resources bills job [j] for the resource [r] of an instance config of cloud [c] whose
    machine has [cores] cores; a resource is (index of its class in the cloud's dispatch order, constructor fields)). *)
From HailV Require Import Common.Prelude Billing.Model Billing.Serial Billing.Packing Billing.GenLemmas.
From Coq Require Import String.
From HailG Require C13.Gen.
Open Scope string_scope.
Open Scope Z_scope.

(** Packed <= whole.  For BOTH clouds, EVERY machine size, EVERY resource of the worker (compute, memory, boot / data
    disk, local ssd, vm, ip fee, service fee, support fees, accelerators — with non-negative size / count) and EVERY set of
    jobs (any core and memory amounts, any external-disk requests) whose cores and memory fit on the worker: the
    quantities billed to the jobs add up to at most the quantity billed for the whole worker. *)
Theorem C13_packed_le_whole : forall (c : cloud) (cores memory : Z) (r : resource) (jobs : list job),
  0 < cores -> worker_res c r ->
  zsum j_cpu jobs <= cores * 1000 -> zsum j_mem jobs <= memory ->
  zsum (fun j => billed (billed_for c cores r j)) jobs <= billed (billed_for c cores r (whole cores memory)).
Proof. exact gen_packed_le_whole. Qed.
Print Assumptions C13_packed_le_whole.

(** The same on the REAL pool tables of gcp: for every (worker type, cores) a gcp pool can have whose machine type exists
    and passes the power-of-two assertion of quantified_resources, all packings of packable core requests (250 mcpu * 2^k,
    memory derived from the cores as PoolConfig.convert_requests_to_resources does, any external disk) within the worker's
    cores are billed at most the whole worker (whose memory is the machine table's). *)
Theorem C13_pool_packing_gcp : forall wt cores mt mpc (r : resource) (reqs : list (Z * Z)),
  In (wt, cores, mt, true, mpc) C13.Gen.gcp_pool_machines -> is_power_two cores = true -> cores <= 256 ->
  worker_res GCP r -> (forall ce, In ce reqs -> packable (fst ce)) -> zsum fst reqs <= cores * 1000 ->
  exists memory, find_gcp_machine mt C13.Gen.gcp_machines = Some (wt, cores, memory) /\
    zsum (fun ce => billed (billed_for GCP cores r (pool_job (mpc * mib) ce))) reqs
    <= billed (billed_for GCP cores r (whole cores memory)).
Proof.
  intros wt cores mt mpc r reqs Hin Hp Hle Hr Hpk Hs.
  destruct (gcp_pool_entry wt cores mt mpc Hin Hp Hle) as (memory & Hf & Hm & Hmpc & Hc).
  exists memory. split; [exact Hf|]. apply pool_packing; assumption.
Qed.
Print Assumptions C13_pool_packing_gcp.

Theorem C13_pool_packing_azure : forall wt cores ssd mt mpc (r : resource) (reqs : list (Z * Z)),
  In (wt, cores, ssd, mt, true, mpc) C13.Gen.azure_pool_machines -> is_power_two cores = true -> cores <= 256 ->
  worker_res Azure r -> (forall ce, In ce reqs -> packable (fst ce)) -> zsum fst reqs <= cores * 1000 ->
  exists memory, find_azure_machine mt C13.Gen.azure_machines = Some (wt, cores, memory) /\
    zsum (fun ce => billed (billed_for Azure cores r (pool_job (mpc * mib) ce))) reqs
    <= billed (billed_for Azure cores r (whole cores memory)).
Proof.
  intros wt cores ssd mt mpc r reqs Hin Hp Hle Hr Hpk Hs.
  destruct (azure_pool_entry wt cores ssd mt mpc Hin Hp Hle) as (memory & Hf & Hm & Hmpc & Hc).
  exists memory. split; [exact Hf|]. apply pool_packing; assumption.
Qed.
Print Assumptions C13_pool_packing_azure.

(** The memory the real *_cores_mcpu_to_memory_bytes functions (float arithmetic) give a pool job equals the model's integer
    formula on EVERY packable core count of EVERY pool worker type (finite domain, complete), and is a whole number of MiB. *)
Theorem C13_job_memory_tables :
  (forall wt mcpu bytes, In (wt, mcpu, bytes) C13.Gen.gcp_job_memory ->
     exists mpc, gcp_mpc wt C13.Gen.gcp_pool_machines = Some mpc /\ bytes = job_memory (mpc * mib) mcpu /\ bytes mod mib = 0) /\
  (forall wt mcpu bytes, In (wt, mcpu, bytes) C13.Gen.azure_job_memory ->
     exists mpc, azure_mpc wt C13.Gen.azure_pool_machines = Some mpc /\ bytes = job_memory (mpc * mib) mcpu /\ bytes mod mib = 0).
Proof. split; [exact job_memory_table_gcp | exact job_memory_table_azure]. Qed.
Print Assumptions C13_job_memory_tables.

(** Whole = whole.  A job with all the cores and all the memory of the worker (job-private jobs; a pool job asking for all
    cores) is billed, for every resource of the worker, exactly the full amount: the whole disk (GiB x 1024), all
    millicores, 1024/1024 of the vm / ip fee / each accelerator, all the MiB of memory. *)
Theorem C13_whole_is_whole : forall (c : cloud) (cores memory : Z) (r : resource) (k : rkind),
  0 < cores -> kind_of c r = Some k -> worker_resource k = true ->
  billed_for c cores r (whole cores memory) =
  Billed (match k with
          | KStaticDisk g => g * 1024
          | KCompute | KServiceFee | KPerCpuFee => cores * 1000
          | KVM | KIPFee => 1024
          | KAccelerator n => n * 1024
          | KMemory => memory / 1024 / 1024
          | _ => 0
          end).
Proof. exact gen_whole_is_whole. Qed.
Print Assumptions C13_whole_is_whole.

(** ... and the pool job that asks for all the cores IS the whole worker (same cores, same memory, no external disk),
    so it is billed exactly what the instance as a whole is billed, resource by resource. *)
Theorem C13_full_pool_job_is_whole : forall (c : cloud) (cores mpc : Z) (r : resource),
  billed_for c cores r (pool_job (mpc * mib) (cores * 1000, 0)) = billed_for c cores r (whole cores (mpc * mib * cores)).
Proof. intros. rewrite pool_job_whole. reflexivity. Qed.
Print Assumptions C13_full_pool_job_is_whole.

(** No under-billing.  For ANY worker size (power of two or not: job-private machine types have 12, 20, 24, 48, 72, 96 ...
    cores), ANY job and every resource of the worker: the job holds [wf] 1024ths of the worker, where [wf] is its exact share
    of the cores 1024 * cpu / (cores * 1000) rounded DOWN to a whole number (never more than the share, never a whole 1024th
    less), and is billed the disk's GiB x wf, wf of the vm / ip fee, count x wf of the accelerators; exactly its millicores of
    compute and fees; exactly its MiB of memory. *)
Theorem C13_job_share_floor : forall (c : cloud) (cores : Z) (r : resource) (k : rkind) (j : job),
  0 < cores -> kind_of c r = Some k -> worker_resource k = true ->
  exists wf, wf * (cores * 1000) <= 1024 * j_cpu j < (wf + 1) * (cores * 1000) /\
             billed_for c cores r j = Billed (share_amount k wf j).
Proof. exact gen_job_share_floor. Qed.
Print Assumptions C13_job_share_floor.

(** Nothing is billed to nobody on a full pool worker: packable requests (memory derived from the cores, a whole number of
    MiB as quantified_resources asserts and C13_job_memory_tables shows for the real tables) that add up to ALL the cores of a
    power-of-two worker (<= 256 cores) are billed, together, exactly the whole worker, for every resource of the worker. *)
Theorem C13_pool_exact_packing : forall (c : cloud) (cores mpc : Z) (r : resource) (reqs : list (Z * Z)),
  is_power_two cores = true -> cores <= 256 -> 0 < mpc -> worker_res c r ->
  (forall ce, In ce reqs -> packable (fst ce)) ->
  (forall ce, In ce reqs -> job_memory (mpc * mib) (fst ce) mod mib = 0) ->
  zsum fst reqs = cores * 1000 ->
  zsum (fun ce => billed (billed_for c cores r (pool_job (mpc * mib) ce))) reqs
  = billed (billed_for c cores r (whole cores (mpc * mib * cores))).
Proof. exact gen_pool_exact_packing. Qed.
Print Assumptions C13_pool_exact_packing.

(** The only resource that is not part of the worker — the job's own external disk — is billed by the job's request
    alone (independent of worker, cores, memory, packing) and not at all when the job has no external disk. *)
Theorem C13_external_disk_per_job : forall (c : cloud) (r : resource) (k : rkind) (cores cores' : Z) (j j' : job),
  kind_of c r = Some k -> worker_resource k = false ->
  (j_ext j = j_ext j' -> billed_for c cores r j = billed_for c cores' r j') /\
  (j_ext j = 0 -> billed_for c cores r j = NotBilled).
Proof.
  intros c r k cores cores' j j' Hk Hw. split.
  - apply gen_external_disk with (k := k); assumption.
  - apply gen_external_disk_zero with (k := k); assumption.
Qed.
Print Assumptions C13_external_disk_per_job.

(** Serialisation.  For both clouds and EVERY well-formed instance configuration (any field values, any list of resources
    of the cloud's classes): from_dict (to_dict cfg) = cfg, field for field and resource for resource ... *)
Theorem C13_roundtrip : forall (c : cloud) (cfg : config), config_wf c cfg ->
  cfg_from_dict (cloud_schema c) (cloud_classes c) (cfg_to_dict (cloud_schema c) (cloud_classes c) cfg) = Some cfg.
Proof. exact gen_config_roundtrip. Qed.
Print Assumptions C13_roundtrip.

(** ... hence the reloaded configuration bills identical quantities: for every job and every resource position. *)
Theorem C13_reload_bills_identical : forall (c : cloud) (cfg : config) (cores : Z) (j : job), config_wf c cfg ->
  option_map (fun cfg' => map (fun r => billed_for c cores r j) (snd cfg'))
             (cfg_from_dict (cloud_schema c) (cloud_classes c) (cfg_to_dict (cloud_schema c) (cloud_classes c) cfg))
  = Some (map (fun r => billed_for c cores r j) (snd cfg)).
Proof. intros c cfg cores j H. rewrite (gen_config_roundtrip c cfg H). reflexivity. Qed.
Print Assumptions C13_reload_bills_identical.

(** a single stored resource reloads to itself through the cloud's dispatch function *)
Theorem C13_resource_roundtrip : forall (c : cloud) (r : resource), resource_wf (cloud_classes c) r ->
  res_from_dict (cloud_classes c) (res_to_dict (cloud_classes c) r) = Some r.
Proof. exact gen_resource_roundtrip. Qed.
Print Assumptions C13_resource_roundtrip.
