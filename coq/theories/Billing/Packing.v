(** C13: arithmetic of the billing quantities — packed jobs never bill more than the whole worker. *)
From HailV Require Import Common.Prelude Billing.Model.
Open Scope Z_scope.

Lemma div_add_le a b d : 0 < d -> a / d + b / d <= (a + b) / d.
Proof.
  intros Hd. apply Z.div_le_lower_bound; [exact Hd|].
  pose proof (Z.mul_div_le a d Hd). pose proof (Z.mul_div_le b d Hd). lia.
Qed.

Lemma zsum_div_le {A} (f : A -> Z) (d : Z) (l : list A) : 0 < d -> zsum (fun x => f x / d) l <= zsum f l / d.
Proof.
  intros Hd. induction l as [|x l IH]; cbn [zsum]; [rewrite Z.div_0_l by lia; lia|].
  pose proof (div_add_le (f x) (zsum f l) d Hd). lia.
Qed.

Lemma zsum_scale {A} (f : A -> Z) (g : Z) (l : list A) : zsum (fun x => g * f x) l = g * zsum f l.
Proof. induction l as [|x l IH]; cbn [zsum]; [lia | rewrite IH; lia]. Qed.

Lemma zsum_ext {A} (f g : A -> Z) (l : list A) : (forall x, f x = g x) -> zsum f l = zsum g l.
Proof. intros H. induction l as [|x l IH]; cbn [zsum]; [reflexivity | rewrite H, IH; reflexivity]. Qed.

Lemma worker_fraction_whole cores : 0 < cores -> worker_fraction cores (cores * 1000) = 1024.
Proof.
  intros H. unfold worker_fraction. apply Z.div_mul. lia.
Qed.

(** the fractions of the jobs packed on a worker add up to at most the whole worker *)
Lemma worker_fraction_sum cores (jobs : list job) : 0 < cores -> zsum j_cpu jobs <= cores * 1000 ->
  zsum (fun j => worker_fraction cores (j_cpu j)) jobs <= 1024.
Proof.
  intros Hc Hs. unfold worker_fraction.
  pose proof (zsum_div_le (fun j => 1024 * j_cpu j) (cores * 1000) jobs ltac:(lia)) as H. cbv beta in H.
  rewrite zsum_scale in H.
  assert (1024 * zsum j_cpu jobs / (cores * 1000) <= 1024).
  { apply Z.div_le_upper_bound; lia. }
  lia.
Qed.

Lemma memory_sum (jobs : list job) M : zsum j_mem jobs <= M ->
  zsum (fun j => j_mem j / 1024 / 1024) jobs <= M / 1024 / 1024.
Proof.
  intros H.
  rewrite (zsum_ext (fun j => j_mem j / 1024 / 1024) (fun j => j_mem j / (1024 * 1024))) by (intros; apply Z.div_div; lia).
  rewrite Z.div_div by lia.
  pose proof (zsum_div_le j_mem (1024 * 1024) jobs ltac:(lia)).
  pose proof (Z.div_le_mono (zsum j_mem jobs) M (1024 * 1024) ltac:(lia) H). lia.
Qed.

(** every resource of the worker itself always yields a quantity *)
Lemma worker_resource_billed k cpu mem wf ext : worker_resource k = true -> quantity k cpu mem wf ext = Billed (billed (quantity k cpu mem wf ext)).
Proof. destruct k; cbn [worker_resource quantity billed]; intros H; try discriminate; reflexivity. Qed.

(** MAIN: for ANY worker size, ANY resource of the worker and ANY set of jobs whose cores and memory fit on the worker,
    the quantities billed to the jobs add up to at most the quantity billed for the whole worker. *)
Theorem packed_le_whole cores memory (k : rkind) (jobs : list job) :
  0 < cores -> worker_resource k = true -> kind_nonneg k ->
  zsum j_cpu jobs <= cores * 1000 -> zsum j_mem jobs <= memory ->
  zsum (fun j => billed (job_quantity cores k j)) jobs <= billed (job_quantity cores k (whole cores memory)).
Proof.
  intros Hc Hw Hk Hcpu Hmem.
  pose proof (worker_fraction_sum cores jobs Hc Hcpu) as Hwf.
  pose proof (worker_fraction_whole cores Hc) as Hww.
  unfold job_quantity.
  change (j_cpu (whole cores memory)) with (cores * 1000). change (j_mem (whole cores memory)) with memory.
  change (j_ext (whole cores memory)) with 0.
  destruct k; cbn [worker_resource] in Hw; try discriminate; cbn [quantity billed kind_nonneg] in *.
  - (* static disk *) rewrite zsum_scale, Hww. nia.
  - (* compute *) exact Hcpu.
  - (* vm *) rewrite Hww. exact Hwf.
  - (* accelerator *) rewrite zsum_scale, Hww. nia.
  - (* memory *) apply memory_sum. exact Hmem.
  - (* ip fee *) rewrite Hww. exact Hwf.
  - (* service fee *) exact Hcpu.
  - (* per-cpu fee *) exact Hcpu.
Qed.

(** a job that takes the whole worker is billed the whole worker in every unit: the full disk (GiB*1024 = MiB), all
    cores, 1024/1024 of the VM / IP / accelerators, all the memory *)
Theorem whole_is_whole cores memory (k : rkind) : 0 < cores -> worker_resource k = true ->
  job_quantity cores k (whole cores memory) =
  Billed (match k with
          | KStaticDisk g => g * 1024
          | KCompute | KServiceFee | KPerCpuFee => cores * 1000
          | KVM | KIPFee => 1024
          | KAccelerator n => n * 1024
          | KMemory => memory / 1024 / 1024
          | _ => 0
          end).
Proof.
  intros Hc Hw. pose proof (worker_fraction_whole cores Hc) as Hww.
  unfold job_quantity.
  change (j_cpu (whole cores memory)) with (cores * 1000). change (j_mem (whole cores memory)) with memory.
  change (j_ext (whole cores memory)) with 0.
  destruct k; cbn [worker_resource] in Hw; try discriminate; cbn [quantity]; rewrite ?Hww; reflexivity.
Qed.

(** the per-job external disk is billed by the job's own request only: not by the worker size, the cores or the memory *)
Theorem external_disk_independent k cores cores' cpu cpu' mem mem' ext :
  worker_resource k = false ->
  quantity k cpu mem (worker_fraction cores cpu) ext = quantity k cpu' mem' (worker_fraction cores' cpu') ext.
Proof. destruct k; cbn [worker_resource quantity]; intros H; try discriminate; reflexivity. Qed.

Theorem external_disk_zero k cpu mem wf : worker_resource k = false -> quantity k cpu mem wf 0 = NotBilled.
Proof. destruct k; cbn [worker_resource quantity]; intros H; try discriminate; reflexivity. Qed.

(** pool jobs: memory is derived from the cores, so fitting the cores implies fitting the memory *)
Lemma pool_memory_fits bytes_per_core cores (mcpus : list Z) :
  0 <= bytes_per_core -> zsum (fun c => c) mcpus <= cores * 1000 ->
  (forall c, In c mcpus -> (c * bytes_per_core) mod 1000 = 0) ->
  zsum (job_memory bytes_per_core) mcpus <= bytes_per_core * cores.
Proof.
  intros Hb Hs Hex.
  assert (H : 1000 * zsum (job_memory bytes_per_core) mcpus = bytes_per_core * zsum (fun c => c) mcpus).
  { clear Hs. induction mcpus as [|c l IH]; cbn [zsum]; [lia|].
    rewrite Z.mul_add_distr_l, IH by (intros x Hx; apply Hex; right; exact Hx).
    pose proof (Hex c (or_introl eq_refl)) as Hc. unfold job_memory.
    pose proof (Z.div_mod (c * bytes_per_core) 1000 ltac:(lia)). lia. }
  nia.
Qed.

Definition pool_job (bytes_per_core : Z) (ce : Z * Z) : job := (fst ce, job_memory bytes_per_core (fst ce), snd ce).

(** packing theorem specialised to pool workers: memory per core [bytes_per_core], worker memory = bytes_per_core * cores *)
Theorem pool_packed_le_whole bytes_per_core cores (k : rkind) (reqs : list (Z * Z)) :
  0 < cores -> 0 <= bytes_per_core -> worker_resource k = true -> kind_nonneg k ->
  zsum fst reqs <= cores * 1000 ->
  (forall ce, In ce reqs -> (fst ce * bytes_per_core) mod 1000 = 0) ->
  zsum (fun ce => billed (job_quantity cores k (pool_job bytes_per_core ce))) reqs
  <= billed (job_quantity cores k (whole cores (bytes_per_core * cores))).
Proof.
  intros Hc Hb Hw Hk Hs Hex.
  pose proof (packed_le_whole cores (bytes_per_core * cores) k (map (pool_job bytes_per_core) reqs) Hc Hw Hk) as H.
  assert (E : forall (f : job -> Z), zsum f (map (pool_job bytes_per_core) reqs) = zsum (fun ce => f (pool_job bytes_per_core ce)) reqs).
  { intros f. clear. induction reqs as [|x l IH]; cbn [map zsum]; [reflexivity | rewrite IH; reflexivity]. }
  rewrite !E in H. apply H.
  - unfold pool_job, j_cpu. cbn [fst]. exact Hs.
  - unfold pool_job, j_mem. cbn [fst snd].
    pose proof (pool_memory_fits bytes_per_core cores (map fst reqs) Hb) as Hm.
    assert (E2 : forall (g : Z -> Z), zsum g (map fst reqs) = zsum (fun ce => g (fst ce)) reqs).
    { intros g. clear. induction reqs as [|x l IH]; cbn [map zsum]; [reflexivity | rewrite IH; reflexivity]. }
    rewrite !E2 in Hm. apply Hm; [exact Hs|].
    intros c Hin. apply in_map_iff in Hin. destruct Hin as (ce & <- & Hce). apply Hex. exact Hce.
Qed.

(** ** no under-billing: the billed 1024ths are the job's true share of the cores rounded DOWN *)
Lemma worker_fraction_floor cores cpu : 0 < cores ->
  worker_fraction cores cpu * (cores * 1000) <= 1024 * cpu < (worker_fraction cores cpu + 1) * (cores * 1000).
Proof.
  intros Hc. unfold worker_fraction. set (d := cores * 1000). assert (Hd : 0 < d) by (unfold d; lia).
  pose proof (Z.div_mod (1024 * cpu) d ltac:(lia)) as E. pose proof (Z.mod_pos_bound (1024 * cpu) d Hd) as B. nia.
Qed.

(** what a job is billed of one resource of the worker, given the 1024ths [wf] of the worker it holds *)
Definition share_amount (k : rkind) (wf : Z) (j : job) : Z :=
  match k with
  | KStaticDisk g => g * wf
  | KVM | KIPFee => wf
  | KAccelerator n => n * wf
  | KCompute | KServiceFee | KPerCpuFee => j_cpu j
  | KMemory => j_mem j / 1024 / 1024
  | _ => 0
  end.

(** for ANY worker size and ANY job: the 1024ths of the worker the job is billed are its exact share of the cores
    rounded down to a whole 1024th — never more than the share, never a whole 1024th less *)
Theorem job_share_floor cores (k : rkind) (j : job) : 0 < cores -> worker_resource k = true ->
  exists wf, wf * (cores * 1000) <= 1024 * j_cpu j < (wf + 1) * (cores * 1000) /\
             job_quantity cores k j = Billed (share_amount k wf j).
Proof.
  intros Hc Hw. exists (worker_fraction cores (j_cpu j)). split; [apply worker_fraction_floor; exact Hc|].
  unfold job_quantity. destruct k; cbn [worker_resource] in Hw; try discriminate; reflexivity.
Qed.

(** ** exact packings of a pool worker *)
Lemma zsum_div_exact {A} (f : A -> Z) (d : Z) (l : list A) : 0 < d ->
  (forall x, In x l -> f x mod d = 0) -> zsum (fun x => f x / d) l * d = zsum f l.
Proof.
  intros Hd H. induction l as [|x l IH]; cbn [zsum]; [reflexivity|].
  rewrite Z.mul_add_distr_r, IH by (intros y Hy; apply H; right; exact Hy).
  pose proof (H x (or_introl eq_refl)) as Hx. pose proof (Z.div_mod (f x) d ltac:(lia)). lia.
Qed.

Lemma pow2_le_256_divides cores : is_power_two cores = true -> cores <= 256 -> 0 < cores /\ 256 mod cores = 0.
Proof.
  intros Hp Hle.
  assert (Hpos : 0 < cores) by (unfold is_power_two in Hp; apply andb_true_iff in Hp; destruct Hp as [Hp _]; apply Z.ltb_lt in Hp; exact Hp).
  split; [exact Hpos|].
  assert (T : forallb (fun c => implb (is_power_two c) (256 mod c =? 0)) (map Z.of_nat (seq 1 256)) = true) by (vm_compute; reflexivity).
  rewrite forallb_forall in T. specialize (T cores).
  assert (Hin : In cores (map Z.of_nat (seq 1 256))).
  { apply in_map_iff. exists (Z.to_nat cores). split; [lia|]. apply in_seq. lia. }
  specialize (T Hin). rewrite Hp in T. cbn [implb] in T. apply Z.eqb_eq in T. exact T.
Qed.

(** packable core requests: 250 mcpu * 2^k *)
Definition packable_mcpu (mcpu : Z) : Prop := exists k, 0 <= k /\ mcpu = 250 * 2 ^ k.

Lemma packable_fraction_exact cores mcpu : 0 < cores -> 256 mod cores = 0 -> packable_mcpu mcpu ->
  (1024 * mcpu) mod (cores * 1000) = 0.
Proof.
  intros Hc Hd (k & Hk & ->).
  pose proof (Z.div_mod 256 cores ltac:(lia)) as E. rewrite Hd, Z.add_0_r in E.
  set (d := 256 / cores) in *. set (P := 2 ^ k).
  replace (1024 * (250 * P)) with (d * P * (cores * 1000)) by nia.
  apply Z.mod_mul. lia.
Qed.

Lemma worker_fraction_exact_sum cores (reqs : list (Z * Z)) : 0 < cores -> 256 mod cores = 0 ->
  (forall ce, In ce reqs -> packable_mcpu (fst ce)) -> zsum fst reqs = cores * 1000 ->
  zsum (fun ce => worker_fraction cores (fst ce)) reqs = 1024.
Proof.
  intros Hc Hd Hp Hs. unfold worker_fraction.
  pose proof (zsum_div_exact (fun ce : Z * Z => 1024 * fst ce) (cores * 1000) reqs ltac:(lia)) as H. cbv beta in H.
  rewrite zsum_scale, Hs in H.
  assert (H' := H (fun ce Hce => packable_fraction_exact cores (fst ce) Hc Hd (Hp ce Hce))).
  nia.
Qed.

(** a pool worker (power-of-two cores <= 256) packed EXACTLY with packable requests whose memory is a whole number of MiB
    (what quantified_resources asserts): the jobs are billed, together, exactly the whole worker — nothing is billed to nobody *)
Theorem pool_exact_packing mpc cores (k : rkind) (reqs : list (Z * Z)) :
  is_power_two cores = true -> cores <= 256 -> 0 <= mpc -> worker_resource k = true ->
  (forall ce, In ce reqs -> packable_mcpu (fst ce)) ->
  (forall ce, In ce reqs -> job_memory (mpc * (1024 * 1024)) (fst ce) mod (1024 * 1024) = 0) ->
  zsum fst reqs = cores * 1000 ->
  zsum (fun ce => billed (job_quantity cores k (pool_job (mpc * (1024 * 1024)) ce))) reqs
  = billed (job_quantity cores k (whole cores (mpc * (1024 * 1024) * cores))).
Proof.
  intros Hp Hle Hm Hw Hpk Hmib Hs.
  destruct (pow2_le_256_divides cores Hp Hle) as [Hc Hd].
  pose proof (worker_fraction_exact_sum cores reqs Hc Hd Hpk Hs) as Hwf.
  rewrite (whole_is_whole cores _ k Hc Hw). cbn [billed].
  unfold job_quantity, pool_job, j_cpu, j_mem, j_ext. cbn [fst snd].
  destruct k; cbn [worker_resource] in Hw; try discriminate; cbn [quantity billed].
  - rewrite zsum_scale, Hwf. reflexivity.
  - exact Hs.
  - exact Hwf.
  - rewrite zsum_scale, Hwf. reflexivity.
  - (* memory *)
    set (bpc := mpc * (1024 * 1024)) in *.
    rewrite (zsum_ext (fun ce : Z * Z => job_memory bpc (fst ce) / 1024 / 1024) (fun ce => job_memory bpc (fst ce) / (1024 * 1024)))
      by (intros; apply Z.div_div; lia).
    rewrite Z.div_div by lia.
    pose proof (zsum_div_exact (fun ce : Z * Z => job_memory bpc (fst ce)) (1024 * 1024) reqs ltac:(lia) Hmib) as H1.
    assert (H2 : 1000 * zsum (fun ce : Z * Z => job_memory bpc (fst ce)) reqs = bpc * zsum fst reqs).
    { assert (Hex : forall ce, In ce reqs -> (fst ce * bpc) mod 1000 = 0).
      { intros ce Hce. destruct (Hpk ce Hce) as (e & He & ->). unfold bpc.
        replace (250 * 2 ^ e * (mpc * (1024 * 1024))) with ((2 ^ e * mpc * 262144) * 1000) by lia. apply Z.mod_mul. lia. }
      clear - Hex. induction reqs as [|x l IH]; cbn [zsum]; [lia|].
      rewrite !Z.mul_add_distr_l, IH by (intros y Hy; apply Hex; right; exact Hy).
      pose proof (Hex x (or_introl eq_refl)) as Hx. unfold job_memory.
      pose proof (Z.div_mod (fst x * bpc) 1000 ltac:(lia)). lia. }
    rewrite Hs in H2.
    assert (H3 : zsum (fun ce : Z * Z => job_memory bpc (fst ce)) reqs = bpc * cores) by lia.
    rewrite H3 in H1. unfold bpc in *.
    replace (mpc * (1024 * 1024) * cores) with (mpc * cores * (1024 * 1024)) in * by lia.
    rewrite Z.div_mul by lia. lia.
  - exact Hwf.
  - exact Hs.
  - exact Hs.
Qed.
