(** C13: arithmetic of the billing quantities — packed jobs never bill more than the whole worker. *)
From HailV Require Import Common.Prelude Billing.Model.
Open Scope Z_scope.

Lemma div_add_le a b d : 0 < d -> a / d + b / d <= (a + b) / d.
Proof.
  intros Hd. apply Z.div_le_lower_bound; [exact Hd|].
  pose proof (Z.mul_div_le a d Hd). pose proof (Z.mul_div_le b d Hd). lia.
Qed.

Lemma zsum_div_le {A} (f : A -> Z) (d : Z) (l : list A) : 0 < d -> zsum (fun x => f x / d) l <= zsum f l / d.
Proof.
  intros Hd. induction l as [|x l IH]; cbn [zsum]; [rewrite Z.div_0_l by lia; lia|].
  pose proof (div_add_le (f x) (zsum f l) d Hd). lia.
Qed.

Lemma zsum_scale {A} (f : A -> Z) (g : Z) (l : list A) : zsum (fun x => g * f x) l = g * zsum f l.
Proof. induction l as [|x l IH]; cbn [zsum]; [lia | rewrite IH; lia]. Qed.

Lemma zsum_ext {A} (f g : A -> Z) (l : list A) : (forall x, f x = g x) -> zsum f l = zsum g l.
Proof. intros H. induction l as [|x l IH]; cbn [zsum]; [reflexivity | rewrite H, IH; reflexivity]. Qed.

Lemma worker_fraction_whole cores : 0 < cores -> worker_fraction cores (cores * 1000) = 1024.
Proof.
  intros H. unfold worker_fraction. apply Z.div_mul. lia.
Qed.

(** the fractions of the jobs packed on a worker add up to at most the whole worker *)
Lemma worker_fraction_sum cores (jobs : list job) : 0 < cores -> zsum j_cpu jobs <= cores * 1000 ->
  zsum (fun j => worker_fraction cores (j_cpu j)) jobs <= 1024.
Proof.
  intros Hc Hs. unfold worker_fraction.
  pose proof (zsum_div_le (fun j => 1024 * j_cpu j) (cores * 1000) jobs ltac:(lia)) as H. cbv beta in H.
  rewrite zsum_scale in H.
  assert (1024 * zsum j_cpu jobs / (cores * 1000) <= 1024).
  { apply Z.div_le_upper_bound; lia. }
  lia.
Qed.

Lemma memory_sum (jobs : list job) M : zsum j_mem jobs <= M ->
  zsum (fun j => j_mem j / 1024 / 1024) jobs <= M / 1024 / 1024.
Proof.
  intros H.
  rewrite (zsum_ext (fun j => j_mem j / 1024 / 1024) (fun j => j_mem j / (1024 * 1024))) by (intros; apply Z.div_div; lia).
  rewrite Z.div_div by lia.
  pose proof (zsum_div_le j_mem (1024 * 1024) jobs ltac:(lia)).
  pose proof (Z.div_le_mono (zsum j_mem jobs) M (1024 * 1024) ltac:(lia) H). lia.
Qed.

(** every resource of the worker itself always yields a quantity *)
Lemma worker_resource_billed k cpu mem wf ext : worker_resource k = true -> quantity k cpu mem wf ext = Billed (billed (quantity k cpu mem wf ext)).
Proof. destruct k; cbn [worker_resource quantity billed]; intros H; try discriminate; reflexivity. Qed.

(** MAIN: for ANY worker size, ANY resource of the worker and ANY set of jobs whose cores and memory fit on the worker,
    the quantities billed to the jobs add up to at most the quantity billed for the whole worker. *)
Theorem packed_le_whole cores memory (k : rkind) (jobs : list job) :
  0 < cores -> worker_resource k = true -> kind_nonneg k ->
  zsum j_cpu jobs <= cores * 1000 -> zsum j_mem jobs <= memory ->
  zsum (fun j => billed (job_quantity cores k j)) jobs <= billed (job_quantity cores k (whole cores memory)).
Proof.
  intros Hc Hw Hk Hcpu Hmem.
  pose proof (worker_fraction_sum cores jobs Hc Hcpu) as Hwf.
  pose proof (worker_fraction_whole cores Hc) as Hww.
  unfold job_quantity.
  change (j_cpu (whole cores memory)) with (cores * 1000). change (j_mem (whole cores memory)) with memory.
  change (j_ext (whole cores memory)) with 0.
  destruct k; cbn [worker_resource] in Hw; try discriminate; cbn [quantity billed kind_nonneg] in *.
  - (* static disk *) rewrite zsum_scale, Hww. nia.
  - (* compute *) exact Hcpu.
  - (* vm *) rewrite Hww. exact Hwf.
  - (* accelerator *) rewrite zsum_scale, Hww. nia.
  - (* memory *) apply memory_sum. exact Hmem.
  - (* ip fee *) rewrite Hww. exact Hwf.
  - (* service fee *) exact Hcpu.
  - (* per-cpu fee *) exact Hcpu.
Qed.

(** a job that takes the whole worker is billed the whole worker in every unit: the full disk (GiB*1024 = MiB), all
    cores, 1024/1024 of the VM / IP / accelerators, all the memory *)
Theorem whole_is_whole cores memory (k : rkind) : 0 < cores -> worker_resource k = true ->
  job_quantity cores k (whole cores memory) =
  Billed (match k with
          | KStaticDisk g => g * 1024
          | KCompute | KServiceFee | KPerCpuFee => cores * 1000
          | KVM | KIPFee => 1024
          | KAccelerator n => n * 1024
          | KMemory => memory / 1024 / 1024
          | _ => 0
          end).
Proof.
  intros Hc Hw. pose proof (worker_fraction_whole cores Hc) as Hww.
  unfold job_quantity.
  change (j_cpu (whole cores memory)) with (cores * 1000). change (j_mem (whole cores memory)) with memory.
  change (j_ext (whole cores memory)) with 0.
  destruct k; cbn [worker_resource] in Hw; try discriminate; cbn [quantity]; rewrite ?Hww; reflexivity.
Qed.

(** the per-job external disk is billed by the job's own request only: not by the worker size, the cores or the memory *)
Theorem external_disk_independent k cores cores' cpu cpu' mem mem' ext :
  worker_resource k = false ->
  quantity k cpu mem (worker_fraction cores cpu) ext = quantity k cpu' mem' (worker_fraction cores' cpu') ext.
Proof. destruct k; cbn [worker_resource quantity]; intros H; try discriminate; reflexivity. Qed.

Theorem external_disk_zero k cpu mem wf : worker_resource k = false -> quantity k cpu mem wf 0 = NotBilled.
Proof. destruct k; cbn [worker_resource quantity]; intros H; try discriminate; reflexivity. Qed.

(** pool jobs: memory is derived from the cores, so fitting the cores implies fitting the memory *)
Lemma pool_memory_fits bytes_per_core cores (mcpus : list Z) :
  0 <= bytes_per_core -> zsum (fun c => c) mcpus <= cores * 1000 ->
  (forall c, In c mcpus -> (c * bytes_per_core) mod 1000 = 0) ->
  zsum (job_memory bytes_per_core) mcpus <= bytes_per_core * cores.
Proof.
  intros Hb Hs Hex.
  assert (H : 1000 * zsum (job_memory bytes_per_core) mcpus = bytes_per_core * zsum (fun c => c) mcpus).
  { clear Hs. induction mcpus as [|c l IH]; cbn [zsum]; [lia|].
    rewrite Z.mul_add_distr_l, IH by (intros x Hx; apply Hex; right; exact Hx).
    pose proof (Hex c (or_introl eq_refl)) as Hc. unfold job_memory.
    pose proof (Z.div_mod (c * bytes_per_core) 1000 ltac:(lia)). lia. }
  nia.
Qed.

Definition pool_job (bytes_per_core : Z) (ce : Z * Z) : job := (fst ce, job_memory bytes_per_core (fst ce), snd ce).

(** packing theorem specialised to pool workers: memory per core [bytes_per_core], worker memory = bytes_per_core * cores *)
Theorem pool_packed_le_whole bytes_per_core cores (k : rkind) (reqs : list (Z * Z)) :
  0 < cores -> 0 <= bytes_per_core -> worker_resource k = true -> kind_nonneg k ->
  zsum fst reqs <= cores * 1000 ->
  (forall ce, In ce reqs -> (fst ce * bytes_per_core) mod 1000 = 0) ->
  zsum (fun ce => billed (job_quantity cores k (pool_job bytes_per_core ce))) reqs
  <= billed (job_quantity cores k (whole cores (bytes_per_core * cores))).
Proof.
  intros Hc Hb Hw Hk Hs Hex.
  pose proof (packed_le_whole cores (bytes_per_core * cores) k (map (pool_job bytes_per_core) reqs) Hc Hw Hk) as H.
  assert (E : forall (f : job -> Z), zsum f (map (pool_job bytes_per_core) reqs) = zsum (fun ce => f (pool_job bytes_per_core ce)) reqs).
  { intros f. clear. induction reqs as [|x l IH]; cbn [map zsum]; [reflexivity | rewrite IH; reflexivity]. }
  rewrite !E in H. apply H.
  - unfold pool_job, j_cpu. cbn [fst]. exact Hs.
  - unfold pool_job, j_mem. cbn [fst snd].
    pose proof (pool_memory_fits bytes_per_core cores (map fst reqs) Hb) as Hm.
    assert (E2 : forall (g : Z -> Z), zsum g (map fst reqs) = zsum (fun ce => g (fst ce)) reqs).
    { intros g. clear. induction reqs as [|x l IH]; cbn [map zsum]; [reflexivity | rewrite IH; reflexivity]. }
    rewrite !E2 in Hm. apply Hm; [exact Hs|].
    intros c Hin. apply in_map_iff in Hin. destruct Hin as (ce & <- & Hce). apply Hex. exact Hce.
Qed.
