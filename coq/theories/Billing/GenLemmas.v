(** C13: the definitions GENERATED from the current Python source (HailG.C13.Gen) against the hand model:
    formulas equal, schemas accepted by the proved-sound round-trip checker, finite table obligations by vm_compute. *)
From HailV Require Import Common.Prelude Billing.Model Billing.Serial Billing.Packing.
From Coq Require Import String.
From HailG Require C13.Gen.
Open Scope string_scope.
Open Scope Z_scope.

Module G := C13.Gen.

(** ** quantity formulas *)
Lemma gen_worker_fraction cores cpu : G.worker_fraction_in_1024ths cores cpu = worker_fraction cores cpu.
Proof. reflexivity. Qed.

(** the classes the extractor found are exactly the ones this file maps to formulas: a new resource class breaks this lemma *)
Lemma classes_covered :
  G.all_class_names =
  ["GCPStaticSizedDiskResource"; "GCPDynamicSizedDiskResource"; "GCPLocalSSDStaticSizedDiskResource"; "GCPComputeResource";
   "GCPMemoryResource"; "GCPServiceFeeResource"; "GCPAcceleratorResource"; "GCPIPFeeResource"; "GCPSupportLogsSpecsAndFirewallFees";
   "AzureStaticSizedDiskResource"; "AzureDynamicSizedDiskResource"; "AzureVMResource"; "AzureServiceFeeResource"; "AzureIPFeeResource"].
Proof. reflexivity. Qed.

(** formula of a class, by class NAME, on the constructor fields (hand-written; must agree with the generated one) *)
Definition kind_of_class (disk_sizes_of : string -> list Z) (cls : string) (vals : list fv) : option rkind :=
  if String.eqb cls "GCPStaticSizedDiskResource" then Some (KStaticDisk (fv_int (nth 1 vals dflt)))
  else if String.eqb cls "GCPLocalSSDStaticSizedDiskResource" then Some (KStaticDisk (fv_int (nth 1 vals dflt)))
  else if String.eqb cls "AzureStaticSizedDiskResource" then Some (KStaticDisk (fv_int (nth 1 vals dflt)))
  else if String.eqb cls "GCPDynamicSizedDiskResource" then Some KDynDiskLinear
  else if String.eqb cls "AzureDynamicSizedDiskResource" then Some (KDynDiskTable (disk_sizes_of (fv_str (nth 0 vals dflt))))
  else if String.eqb cls "GCPComputeResource" then Some KCompute
  else if String.eqb cls "GCPMemoryResource" then Some KMemory
  else if String.eqb cls "GCPServiceFeeResource" then Some KServiceFee
  else if String.eqb cls "AzureServiceFeeResource" then Some KServiceFee
  else if String.eqb cls "GCPAcceleratorResource" then Some (KAccelerator (fv_int (nth 1 vals dflt)))
  else if String.eqb cls "GCPIPFeeResource" then Some KIPFee
  else if String.eqb cls "AzureIPFeeResource" then Some KIPFee
  else if String.eqb cls "AzureVMResource" then Some KVM
  else if String.eqb cls "GCPSupportLogsSpecsAndFirewallFees" then Some KPerCpuFee
  else None.

Inductive cloud : Type := GCP | Azure.

Definition class_names (c : cloud) : list string := match c with GCP => G.gcp_class_names | Azure => G.azure_class_names end.
Definition cloud_classes (c : cloud) : classes := match c with GCP => G.gcp_classes | Azure => G.azure_classes end.
Definition cloud_schema (c : cloud) : schema := match c with GCP => G.schema_GCPSlimInstanceConfig | Azure => G.schema_AzureSlimInstanceConfig end.
Definition q_resource (c : cloud) : resource -> Z -> Z -> Z -> Z -> qres :=
  match c with GCP => G.gcp_q_resource G.azure_disk_sizes_of | Azure => G.azure_q_resource G.azure_disk_sizes_of end.

Definition kind_of (c : cloud) (r : resource) : option rkind :=
  match nth_error (class_names c) (fst r) with
  | Some cls => kind_of_class G.azure_disk_sizes_of cls (snd r)
  | None => None
  end.

(** the generated per-class quantity functions are the hand model's formulas *)
Lemma q_resource_eq c r cpu mem wf ext :
  q_resource c r cpu mem wf ext = match kind_of c r with Some k => quantity k cpu mem wf ext | None => Raises end.
Proof.
  destruct r as [i vals]. destruct c; unfold q_resource, kind_of; cbn [fst snd].
  - do 9 (destruct i as [|i]; [reflexivity|]). destruct i; reflexivity.
  - do 5 (destruct i as [|i]; [reflexivity|]). destruct i; reflexivity.
Qed.

(** what the instance config bills a job for one of its resources *)
Definition billed_for (c : cloud) (cores : Z) (r : resource) (j : job) : qres :=
  q_resource c r (j_cpu j) (j_mem j) (G.worker_fraction_in_1024ths cores (j_cpu j)) (j_ext j).

Lemma billed_for_eq c cores r j :
  billed_for c cores r j = match kind_of c r with Some k => job_quantity cores k j | None => Raises end.
Proof. unfold billed_for. rewrite q_resource_eq, gen_worker_fraction. reflexivity. Qed.

(** a resource of the worker itself, with sizes / counts that are not negative *)
Definition worker_res (c : cloud) (r : resource) : Prop :=
  exists k, kind_of c r = Some k /\ worker_resource k = true /\ kind_nonneg k.

Theorem gen_packed_le_whole c cores memory r (jobs : list job) :
  0 < cores -> worker_res c r ->
  zsum j_cpu jobs <= cores * 1000 -> zsum j_mem jobs <= memory ->
  zsum (fun j => billed (billed_for c cores r j)) jobs <= billed (billed_for c cores r (whole cores memory)).
Proof.
  intros Hc (k & Hk & Hw & Hn) Hcpu Hmem.
  rewrite billed_for_eq, Hk.
  rewrite (zsum_ext (fun j => billed (billed_for c cores r j)) (fun j => billed (job_quantity cores k j)))
    by (intros j; rewrite billed_for_eq, Hk; reflexivity).
  apply packed_le_whole; assumption.
Qed.

Theorem gen_whole_is_whole c cores memory r k :
  0 < cores -> kind_of c r = Some k -> worker_resource k = true ->
  billed_for c cores r (whole cores memory) =
  Billed (match k with
          | KStaticDisk g => g * 1024
          | KCompute | KServiceFee | KPerCpuFee => cores * 1000
          | KVM | KIPFee => 1024
          | KAccelerator n => n * 1024
          | KMemory => memory / 1024 / 1024
          | _ => 0
          end).
Proof. intros Hc Hk Hw. rewrite billed_for_eq, Hk. apply whole_is_whole; assumption. Qed.

Theorem gen_external_disk c r k cores cores' j j' :
  kind_of c r = Some k -> worker_resource k = false -> j_ext j = j_ext j' ->
  billed_for c cores r j = billed_for c cores' r j'.
Proof.
  intros Hk Hw He. rewrite !billed_for_eq, Hk. unfold job_quantity. rewrite He.
  apply external_disk_independent; exact Hw.
Qed.

Theorem gen_external_disk_zero c r k cores j :
  kind_of c r = Some k -> worker_resource k = false -> j_ext j = 0 -> billed_for c cores r j = NotBilled.
Proof.
  intros Hk Hw He. rewrite billed_for_eq, Hk. unfold job_quantity. rewrite He. apply external_disk_zero; exact Hw.
Qed.

(** ** serialisation: the generated schemas pass the checker *)
Lemma gcp_classes_ok : classes_ok G.gcp_classes = true.
Proof. vm_compute. reflexivity. Qed.
Lemma azure_classes_ok : classes_ok G.azure_classes = true.
Proof. vm_compute. reflexivity. Qed.
Lemma gcp_config_ok : roundtrip_ok G.schema_GCPSlimInstanceConfig = true.
Proof. vm_compute. reflexivity. Qed.
Lemma azure_config_ok : roundtrip_ok G.schema_AzureSlimInstanceConfig = true.
Proof. vm_compute. reflexivity. Qed.

Lemma cloud_classes_ok c : classes_ok (cloud_classes c) = true.
Proof. destruct c; [exact gcp_classes_ok | exact azure_classes_ok]. Qed.
Lemma cloud_config_ok c : roundtrip_ok (cloud_schema c) = true.
Proof. destruct c; [exact gcp_config_ok | exact azure_config_ok]. Qed.

(** a well-formed stored configuration: right number of scalar fields, every resource of a known class with its fields *)
Definition config_wf (c : cloud) (cfg : config) : Prop :=
  List.length (fst cfg) = s_arity (cloud_schema c) /\ Forall (resource_wf (cloud_classes c)) (snd cfg).

Theorem gen_config_roundtrip c cfg : config_wf c cfg ->
  cfg_from_dict (cloud_schema c) (cloud_classes c) (cfg_to_dict (cloud_schema c) (cloud_classes c) cfg) = Some cfg.
Proof. intros [H1 H2]. apply cfg_roundtrip; [apply cloud_config_ok | apply cloud_classes_ok | exact H1 | exact H2]. Qed.

Theorem gen_resource_roundtrip c r : resource_wf (cloud_classes c) r ->
  res_from_dict (cloud_classes c) (res_to_dict (cloud_classes c) r) = Some r.
Proof. intros H. apply res_roundtrip; [apply cloud_classes_ok | exact H]. Qed.

(** ** tables *)
Definition mib : Z := 1024 * 1024.

Fixpoint find_gcp_machine (name : string) (l : list (string * string * Z * Z * Z)) : option (string * Z * Z) :=
  match l with
  | [] => None
  | (n, wt, c, m, _) :: r => if String.eqb n name then Some (wt, c, m) else find_gcp_machine name r
  end.

Fixpoint find_azure_machine (name : string) (l : list (string * string * Z * Z)) : option (string * Z * Z) :=
  match l with
  | [] => None
  | (n, wt, c, m) :: r => if String.eqb n name then Some (wt, c, m) else find_azure_machine name r
  end.

(** pool workers that can bill at all (machine type known; InstanceConfig.quantified_resources asserts a power-of-two
    core count <= 256 for pool workers): the worker's memory is exactly cores x memory-per-core of its worker type *)
Definition gcp_pool_entry_ok (e : string * Z * string * bool * Z) : bool :=
  let '(wt, c, mt, present, mpc) := e in
  if present && is_power_two c && (c <=? 256) then
    match find_gcp_machine mt G.gcp_machines with
    | Some (wt', c', m) => String.eqb wt wt' && (c' =? c) && (m =? mpc * mib * c) && (0 <? mpc)
    | None => false
    end
  else true.

Definition azure_pool_entry_ok (e : string * Z * bool * string * bool * Z) : bool :=
  let '(wt, c, ssd, mt, present, mpc) := e in
  if present && is_power_two c && (c <=? 256) then
    match find_azure_machine mt G.azure_machines with
    | Some (wt', c', m) => String.eqb wt wt' && (c' =? c) && (m =? mpc * mib * c) && (0 <? mpc)
    | None => false
    end
  else true.

Lemma gcp_pool_table_ok : forallb gcp_pool_entry_ok G.gcp_pool_machines = true.
Proof. vm_compute. reflexivity. Qed.
Lemma azure_pool_table_ok : forallb azure_pool_entry_ok G.azure_pool_machines = true.
Proof. vm_compute. reflexivity. Qed.

(** memory per core of a worker type, as the pool table states it *)
Fixpoint gcp_mpc (wt : string) (l : list (string * Z * string * bool * Z)) : option Z :=
  match l with [] => None | (w, _, _, _, mpc) :: r => if String.eqb w wt then Some mpc else gcp_mpc wt r end.
Fixpoint azure_mpc (wt : string) (l : list (string * Z * bool * string * bool * Z)) : option Z :=
  match l with [] => None | (w, _, _, _, _, mpc) :: r => if String.eqb w wt then Some mpc else azure_mpc wt r end.

(** the real *_cores_mcpu_to_memory_bytes (float arithmetic) on every packable core count of every worker type equals
    the integer formula of the model, exactly, and is a whole number of MiB (what quantified_resources asserts) *)
Definition job_memory_entry_ok (mpc_of : string -> option Z) (e : string * Z * Z) : bool :=
  let '(wt, mcpu, bytes) := e in
  match mpc_of wt with
  | Some mpc => (bytes =? job_memory (mpc * mib) mcpu) && ((mcpu * (mpc * mib)) mod 1000 =? 0) && (bytes mod mib =? 0)
  | None => false
  end.

Lemma gcp_job_memory_ok : forallb (job_memory_entry_ok (fun wt => gcp_mpc wt G.gcp_pool_machines)) G.gcp_job_memory = true.
Proof. vm_compute. reflexivity. Qed.
Lemma azure_job_memory_ok : forallb (job_memory_entry_ok (fun wt => azure_mpc wt G.azure_pool_machines)) G.azure_job_memory = true.
Proof. vm_compute. reflexivity. Qed.

(** the model of azure_disk_from_storage_in_gib agrees with the real function at every boundary of every disk family *)
Definition disk_lookup_ok (e : string * Z * option Z) : bool :=
  let '(fam, g, want) := e in
  match azure_disk_size (G.azure_disk_sizes_of fam) g, want with
  | Some a, Some b => a =? b
  | None, None => true
  | _, _ => false
  end.
Lemma azure_disk_lookup_ok : forallb disk_lookup_ok G.azure_disk_lookup_samples = true.
Proof. vm_compute. reflexivity. Qed.

(** packable core requests: 250 mcpu * 2^k *)
Definition packable (mcpu : Z) : Prop := exists k, 0 <= k /\ mcpu = 250 * 2 ^ k.

Lemma packable_exact mpc mcpu : packable mcpu -> (mcpu * (mpc * mib)) mod 1000 = 0.
Proof.
  intros (k & Hk & ->). unfold mib.
  replace (250 * 2 ^ k * (mpc * (1024 * 1024))) with ((2 ^ k * mpc * 262144) * 1000) by lia.
  apply Z.mod_mul. lia.
Qed.

(** MAIN (pool workers of the real tables): jobs with packable core requests whose memory is derived from the cores, packed
    within the worker's cores, never bill more than the whole worker, for every resource of the worker *)
Theorem pool_packing (c : cloud) cores mpc memory r (reqs : list (Z * Z)) :
  0 < cores -> 0 < mpc -> memory = mpc * mib * cores -> worker_res c r ->
  (forall ce, In ce reqs -> packable (fst ce)) -> zsum fst reqs <= cores * 1000 ->
  zsum (fun ce => billed (billed_for c cores r (pool_job (mpc * mib) ce))) reqs
  <= billed (billed_for c cores r (whole cores memory)).
Proof.
  intros Hc Hm -> (k & Hk & Hw & Hn) Hp Hs.
  rewrite billed_for_eq, Hk.
  rewrite (zsum_ext (fun ce => billed (billed_for c cores r (pool_job (mpc * mib) ce)))
                    (fun ce => billed (job_quantity cores k (pool_job (mpc * mib) ce))))
    by (intros ce; rewrite billed_for_eq, Hk; reflexivity).
  apply pool_packed_le_whole; try assumption; [unfold mib; lia|].
  intros ce Hce. apply packable_exact. apply Hp; exact Hce.
Qed.

(** no under-billing (ANY worker size, ANY job, both clouds, every resource of the worker): the job holds [wf] 1024ths of the
    worker where [wf] is its exact share of the cores, 1024 * cpu / (cores * 1000), rounded DOWN to a whole number, and is
    billed [share_amount]: disk GiB x wf, wf of the vm / ip fee, count x wf of the accelerators; its own millicores; its own MiB *)
Theorem gen_job_share_floor c cores r k (j : job) :
  0 < cores -> kind_of c r = Some k -> worker_resource k = true ->
  exists wf, wf * (cores * 1000) <= 1024 * j_cpu j < (wf + 1) * (cores * 1000) /\
             billed_for c cores r j = Billed (share_amount k wf j).
Proof.
  intros Hc Hk Hw. destruct (job_share_floor cores k j Hc Hw) as (wf & Hb & Hq).
  exists wf. split; [exact Hb|]. rewrite billed_for_eq, Hk. exact Hq.
Qed.

(** a pool worker packed EXACTLY (core requests add up to all the cores) is billed to its jobs in full, resource by resource *)
Theorem gen_pool_exact_packing (c : cloud) cores mpc r (reqs : list (Z * Z)) :
  is_power_two cores = true -> cores <= 256 -> 0 < mpc -> worker_res c r ->
  (forall ce, In ce reqs -> packable (fst ce)) ->
  (forall ce, In ce reqs -> job_memory (mpc * mib) (fst ce) mod mib = 0) ->
  zsum fst reqs = cores * 1000 ->
  zsum (fun ce => billed (billed_for c cores r (pool_job (mpc * mib) ce))) reqs
  = billed (billed_for c cores r (whole cores (mpc * mib * cores))).
Proof.
  intros Hp Hle Hm (k & Hk & Hw & Hn) Hpk Hmib Hs.
  rewrite billed_for_eq, Hk.
  rewrite (zsum_ext (fun ce => billed (billed_for c cores r (pool_job (mpc * mib) ce)))
                    (fun ce => billed (job_quantity cores k (pool_job (mpc * mib) ce))))
    by (intros ce; rewrite billed_for_eq, Hk; reflexivity).
  unfold mib in *. apply pool_exact_packing; try assumption. lia.
Qed.

Lemma gcp_pool_entry wt cores mt mpc :
  In (wt, cores, mt, true, mpc) G.gcp_pool_machines -> is_power_two cores = true -> cores <= 256 ->
  exists memory, find_gcp_machine mt G.gcp_machines = Some (wt, cores, memory) /\ memory = mpc * mib * cores /\ 0 < mpc /\ 0 < cores.
Proof.
  intros Hin Hp Hle. pose proof gcp_pool_table_ok as H. rewrite forallb_forall in H. specialize (H _ Hin).
  unfold gcp_pool_entry_ok in H. rewrite Hp in H. replace (cores <=? 256) with true in H by (symmetry; apply Z.leb_le; exact Hle).
  cbn [andb] in H. destruct (find_gcp_machine mt G.gcp_machines) as [[[wt' c'] m]|]; [|discriminate].
  rewrite !andb_true_iff in H. destruct H as [[[H1 H2] H3] H4].
  apply String.eqb_eq in H1. apply Z.eqb_eq in H2. apply Z.eqb_eq in H3. apply Z.ltb_lt in H4. subst.
  exists (mpc * mib * cores). repeat split; try assumption.
  unfold is_power_two in Hp. apply andb_true_iff in Hp. destruct Hp as [Hp _]. apply Z.ltb_lt in Hp. exact Hp.
Qed.

Lemma azure_pool_entry wt cores ssd mt mpc :
  In (wt, cores, ssd, mt, true, mpc) G.azure_pool_machines -> is_power_two cores = true -> cores <= 256 ->
  exists memory, find_azure_machine mt G.azure_machines = Some (wt, cores, memory) /\ memory = mpc * mib * cores /\ 0 < mpc /\ 0 < cores.
Proof.
  intros Hin Hp Hle. pose proof azure_pool_table_ok as H. rewrite forallb_forall in H. specialize (H _ Hin).
  unfold azure_pool_entry_ok in H. rewrite Hp in H. replace (cores <=? 256) with true in H by (symmetry; apply Z.leb_le; exact Hle).
  cbn [andb] in H. destruct (find_azure_machine mt G.azure_machines) as [[[wt' c'] m]|]; [|discriminate].
  rewrite !andb_true_iff in H. destruct H as [[[H1 H2] H3] H4].
  apply String.eqb_eq in H1. apply Z.eqb_eq in H2. apply Z.eqb_eq in H3. apply Z.ltb_lt in H4. subst.
  exists (mpc * mib * cores). repeat split; try assumption.
  unfold is_power_two in Hp. apply andb_true_iff in Hp. destruct Hp as [Hp _]. apply Z.ltb_lt in Hp. exact Hp.
Qed.

(** a pool job that asks for all the cores of the worker (and no external disk) is the whole worker *)
Lemma pool_job_whole mpc cores : pool_job (mpc * mib) (cores * 1000, 0) = whole cores (mpc * mib * cores).
Proof.
  unfold pool_job, whole, job_memory. cbn [fst snd].
  replace (cores * 1000 * (mpc * mib)) with (mpc * mib * cores * 1000) by lia.
  rewrite Z.div_mul by lia. reflexivity.
Qed.

Lemma job_memory_table_gcp wt mcpu bytes : In (wt, mcpu, bytes) G.gcp_job_memory ->
  exists mpc, gcp_mpc wt G.gcp_pool_machines = Some mpc /\ bytes = job_memory (mpc * mib) mcpu /\ bytes mod mib = 0.
Proof.
  intros Hin. pose proof gcp_job_memory_ok as H. rewrite forallb_forall in H. specialize (H _ Hin).
  unfold job_memory_entry_ok in H. destruct (gcp_mpc wt G.gcp_pool_machines) as [mpc|]; [|discriminate].
  rewrite !andb_true_iff in H. destruct H as [[H1 _] H3]. apply Z.eqb_eq in H1. apply Z.eqb_eq in H3.
  exists mpc. repeat split; assumption.
Qed.

Lemma job_memory_table_azure wt mcpu bytes : In (wt, mcpu, bytes) G.azure_job_memory ->
  exists mpc, azure_mpc wt G.azure_pool_machines = Some mpc /\ bytes = job_memory (mpc * mib) mcpu /\ bytes mod mib = 0.
Proof.
  intros Hin. pose proof azure_job_memory_ok as H. rewrite forallb_forall in H. specialize (H _ Hin).
  unfold job_memory_entry_ok in H. destruct (azure_mpc wt G.azure_pool_machines) as [mpc|]; [|discriminate].
  rewrite !andb_true_iff in H. destruct H as [[H1 _] H3]. apply Z.eqb_eq in H1. apply Z.eqb_eq in H3.
  exists mpc. repeat split; assumption.
Qed.

(** satisfiability of the hypotheses: a concrete gcp worker resource and a concrete packing *)
Example worker_res_example : worker_res GCP (0%nat, [FStr "disk/pd-ssd/us-central1/1"; FInt 100]).
Proof. exists (KStaticDisk 100). repeat split; cbn; lia. Qed.

Example packing_example :
  map (fun ce => billed (billed_for GCP 16 (0%nat, [FStr "disk/pd-ssd/us-central1/1"; FInt 100]) (pool_job (3840 * mib) ce)))
      [(250, 0); (8000, 20); (4000, 0); (2000, 0); (1000, 0); (500, 0); (250, 0)] = [1600; 51200; 25600; 12800; 6400; 3200; 1600]
  /\ billed (billed_for GCP 16 (0%nat, [FStr "disk/pd-ssd/us-central1/1"; FInt 100]) (whole 16 (3840 * mib * 16))) = 102400.
Proof. split; vm_compute; reflexivity. Qed.
