(** C13: a small schema language for the to_dict / from_dict pairs of the billing resource classes and instance
    configs, its concrete semantics, a symbolic round-trip checker and the soundness theorem of that checker.
    The schemas themselves are regenerated from the Python classes (harness/translate/c13_schema.py). *)
From HailV Require Import Common.Prelude.
From Coq Require Import String.
Open Scope string_scope.

(** field / JSON leaf values *)
Inductive fv : Type :=
| FInt (z : Z)
| FStr (s : string)
| FBool (b : bool)
| FMap (m : list (string * string)).

Fixpoint smap_eqb (a b : list (string * string)) : bool :=
  match a, b with
  | [], [] => true
  | (k1, v1) :: a', (k2, v2) :: b' => String.eqb k1 k2 && String.eqb v1 v2 && smap_eqb a' b'
  | _, _ => false
  end.

Definition fv_eqb (a b : fv) : bool :=
  match a, b with
  | FInt x, FInt y => Z.eqb x y
  | FStr x, FStr y => String.eqb x y
  | FBool x, FBool y => Bool.eqb x y
  | FMap x, FMap y => smap_eqb x y
  | _, _ => false
  end.

Lemma smap_eqb_eq a : forall b, smap_eqb a b = true <-> a = b.
Proof.
  induction a as [|[k1 v1] a IH]; intros [|[k2 v2] b]; cbn [smap_eqb]; try (split; [discriminate | intros H; inversion H]); try tauto.
  rewrite !andb_true_iff, !String.eqb_eq, IH. split.
  - intros [[-> ->] ->]; reflexivity.
  - intros H; inversion H; auto.
Qed.

Lemma fv_eqb_eq a b : fv_eqb a b = true <-> a = b.
Proof.
  destruct a, b; cbn [fv_eqb]; try (split; [discriminate | intros H; inversion H]).
  - rewrite Z.eqb_eq. split; [intros ->; reflexivity | intros H; inversion H; reflexivity].
  - rewrite String.eqb_eq. split; [intros ->; reflexivity | intros H; inversion H; reflexivity].
  - rewrite Bool.eqb_true_iff. split; [intros ->; reflexivity | intros H; inversion H; reflexivity].
  - rewrite smap_eqb_eq. split; [intros ->; reflexivity | intros H; inversion H; reflexivity].
Qed.

Lemma fv_eqb_refl a : fv_eqb a a = true.
Proof. apply fv_eqb_eq; reflexivity. Qed.

Definition fv_int (v : fv) : Z := match v with FInt z => z | _ => 0%Z end.
Definition fv_str (v : fv) : string := match v with FStr s => s | _ => "" end.

Fixpoint lookup {A} (k : string) (d : list (string * A)) : option A :=
  match d with
  | [] => None
  | (k', v) :: r => if String.eqb k k' then Some v else lookup k r
  end.

Fixpoint mapM {A B} (f : A -> option B) (l : list A) : option (list B) :=
  match l with
  | [] => Some []
  | x :: r => match f x, mapM f r with Some y, Some ys => Some (y :: ys) | _, _ => None end
  end.

(** ** schemas *)
Inductive texpr : Type := TField (i : nat) | TConst (v : fv).
Inductive aexpr : Type := ALookup (k : string) | AConst (v : fv).
Record alt : Type := mkAlt { guard : list (string * fv); args : list aexpr }.
Record schema : Type := mkSchema { s_arity : nat; s_to : list (string * texpr); s_from : list alt }.

Definition dict : Type := list (string * fv).
Definition dflt : fv := FInt 0.

Definition eval_t (vals : list fv) (e : texpr) : fv :=
  match e with TField i => nth i vals dflt | TConst v => v end.

(** to_dict: the dict literal of the class, evaluated on the instance's fields *)
Definition to_dict (s : schema) (vals : list fv) : dict :=
  map (fun ke => (fst ke, eval_t vals (snd ke))) (s_to s).

(** [data[k] == c] for every guard; a missing key makes the Python code raise, i.e. no result *)
Definition check (g : list (string * fv)) (d : dict) : bool :=
  forallb (fun kc => match lookup (fst kc) d with Some v => fv_eqb v (snd kc) | None => false end) g.

Definition eval_a (d : dict) (a : aexpr) : option fv :=
  match a with ALookup k => lookup k d | AConst v => Some v end.

Fixpoint first_alt (alts : list alt) (d : dict) : option (list fv) :=
  match alts with
  | [] => None
  | a :: r => if check (guard a) d then mapM (eval_a d) (args a) else first_alt r d
  end.

(** from_dict: [None] stands for "raises" *)
Definition from_dict (s : schema) (d : dict) : option (list fv) := first_alt (s_from s) d.

(** ** symbolic round trip *)
Inductive tri : Type := Yes | No | Unknown.

Fixpoint sym_check (g : list (string * fv)) (sd : list (string * texpr)) : tri :=
  match g with
  | [] => Yes
  | (k, c) :: r =>
      match lookup k sd with
      | Some (TConst v) =>
          if fv_eqb v c then sym_check r sd
          else No
      | _ => match sym_check r sd with No => No | _ => Unknown end
      end
  end.

Definition sym_a (sd : list (string * texpr)) (a : aexpr) : option texpr :=
  match a with ALookup k => lookup k sd | AConst v => Some (TConst v) end.

Fixpoint sym_first_alt (alts : list alt) (sd : list (string * texpr)) : option (list texpr) :=
  match alts with
  | [] => None
  | a :: r =>
      match sym_check (guard a) sd with
      | Yes => mapM (sym_a sd) (args a)
      | No => sym_first_alt r sd
      | Unknown => None
      end
  end.

Definition texpr_eqb (a b : texpr) : bool :=
  match a, b with
  | TField i, TField j => Nat.eqb i j
  | TConst v, TConst w => fv_eqb v w
  | _, _ => false
  end.

Fixpoint is_identity (from : nat) (l : list texpr) : bool :=
  match l with
  | [] => true
  | e :: r => texpr_eqb e (TField from) && is_identity (S from) r
  end.

(** the checker: from_dict, run symbolically on the dict literal of to_dict, returns the fields 0..n-1 in order *)
Definition roundtrip_ok (s : schema) : bool :=
  match sym_first_alt (s_from s) (s_to s) with
  | Some l => Nat.eqb (List.length l) (s_arity s) && is_identity 0 l
  | None => false
  end.

(** ** soundness *)
Lemma lookup_to_dict vals sd k :
  lookup k (map (fun ke : string * texpr => (fst ke, eval_t vals (snd ke))) sd) = option_map (eval_t vals) (lookup k sd).
Proof.
  induction sd as [|[k' e] sd IH]; cbn [map lookup fst snd option_map]; [reflexivity|].
  destruct (String.eqb k k'); [reflexivity | exact IH].
Qed.

Lemma sym_check_sound vals g sd :
  let d := map (fun ke : string * texpr => (fst ke, eval_t vals (snd ke))) sd in
  match sym_check g sd with
  | Yes => check g d = true
  | No => check g d = false
  | Unknown => True
  end.
Proof.
  cbv zeta. induction g as [|[k c] g IH]; cbn [sym_check check forallb fst snd]; [reflexivity|].
  rewrite lookup_to_dict.
  destruct (lookup k sd) as [[i|v]|] eqn:El; cbn [option_map eval_t].
  - destruct (sym_check g sd); try exact I. unfold check in IH. rewrite IH. apply andb_false_r.
  - destruct (fv_eqb v c) eqn:Ev; cbn [andb].
    + exact IH.
    + reflexivity.
  - destruct (sym_check g sd); try exact I. reflexivity.
Qed.

Lemma sym_args_sound vals sd (al : list aexpr) : forall l,
  mapM (sym_a sd) al = Some l ->
  mapM (eval_a (map (fun ke : string * texpr => (fst ke, eval_t vals (snd ke))) sd)) al = Some (map (eval_t vals) l).
Proof.
  induction al as [|a al IH]; intros l H; cbn [mapM] in *.
  - inversion H; reflexivity.
  - destruct (sym_a sd a) as [e|] eqn:Ea; [|discriminate].
    destruct (mapM (sym_a sd) al) as [es|] eqn:Es; [|discriminate].
    inversion H; subst. rewrite (IH es eq_refl).
    assert (eval_a (map (fun ke : string * texpr => (fst ke, eval_t vals (snd ke))) sd) a = Some (eval_t vals e)) as ->.
    { destruct a as [k|v]; cbn [eval_a sym_a] in *.
      - rewrite lookup_to_dict, Ea. reflexivity.
      - inversion Ea; reflexivity. }
    reflexivity.
Qed.

Lemma sym_first_alt_sound vals sd alts : forall l,
  sym_first_alt alts sd = Some l ->
  first_alt alts (map (fun ke : string * texpr => (fst ke, eval_t vals (snd ke))) sd) = Some (map (eval_t vals) l).
Proof.
  induction alts as [|a alts IH]; intros l H; cbn [sym_first_alt first_alt] in *; [discriminate|].
  pose proof (sym_check_sound vals (guard a) sd) as Hc. cbv zeta in Hc.
  destruct (sym_check (guard a) sd).
  - rewrite Hc. apply sym_args_sound; exact H.
  - rewrite Hc. apply IH; exact H.
  - discriminate.
Qed.

Lemma texpr_eqb_eq a b : texpr_eqb a b = true -> a = b.
Proof.
  destruct a, b; cbn [texpr_eqb]; try discriminate.
  - intros H; apply Nat.eqb_eq in H; subst; reflexivity.
  - intros H; apply fv_eqb_eq in H; subst; reflexivity.
Qed.

Lemma identity_eval vals : forall l from,
  is_identity from l = true -> (from + List.length l = List.length vals)%nat -> map (eval_t vals) l = skipn from vals.
Proof.
  induction l as [|e l IH]; intros from H Hlen; cbn [is_identity map List.length] in *.
  - rewrite Nat.add_0_r in Hlen. subst from. symmetry; apply skipn_all.
  - apply andb_true_iff in H. destruct H as [He Hl]. apply texpr_eqb_eq in He. subst e.
    rewrite (IH (S from) Hl) by lia. cbn [eval_t].
    assert (Hlt : (from < List.length vals)%nat) by lia.
    clear - Hlt. revert from Hlt. induction vals as [|v vals IHv]; intros from Hlt; cbn [List.length] in Hlt; [lia|].
    destruct from; cbn [nth skipn]; [reflexivity|]. apply IHv. lia.
Qed.

(** If the checker accepts a schema, then reloading what [to_dict] wrote gives back exactly the fields, for ALL field values. *)
Theorem roundtrip_sound (s : schema) (vals : list fv) :
  roundtrip_ok s = true -> List.length vals = s_arity s -> from_dict s (to_dict s vals) = Some vals.
Proof.
  unfold roundtrip_ok, from_dict, to_dict. intros H Hlen.
  destruct (sym_first_alt (s_from s) (s_to s)) as [l|] eqn:E; [|discriminate].
  apply andb_true_iff in H. destruct H as [Hn Hid]. apply Nat.eqb_eq in Hn.
  rewrite (sym_first_alt_sound vals (s_to s) (s_from s) l E).
  rewrite (identity_eval vals l 0 Hid) by lia. reflexivity.
Qed.

(** ** a list of classes with a dispatch function on the "type" entry (gcp_resource_from_dict / azure_resource_from_dict) *)
Definition classes : Type := list (string * schema).           (* (TYPE constant, schema), in dispatch order *)
Definition resource : Type := (nat * list fv)%type.            (* (index of the class, its fields) *)

Definition res_to_dict (cs : classes) (r : resource) : dict :=
  match nth_error cs (fst r) with Some (_, s) => to_dict s (snd r) | None => [] end.

Fixpoint dispatch (cs : classes) (i : nat) (t : fv) : option (nat * schema) :=
  match cs with
  | [] => None
  | (ty, s) :: r => if fv_eqb t (FStr ty) then Some (i, s) else dispatch r (S i) t
  end.

Definition res_from_dict (cs : classes) (d : dict) : option resource :=
  match lookup "type" d with
  | Some t => match dispatch cs 0 t with
              | Some (i, s) => option_map (pair i) (from_dict s d)
              | None => None
              end
  | None => None
  end.

(** class [i] writes its own TYPE under "type", dispatch sends that TYPE back to class [i], and its schema round-trips *)
Definition class_ok (cs : classes) (i : nat) : bool :=
  match nth_error cs i with
  | Some (ty, s) =>
      roundtrip_ok s
      && match lookup "type" (s_to s) with
         | Some (TConst t) => match dispatch cs 0 t with Some (j, _) => Nat.eqb j i | None => false end
         | _ => false
         end
  | None => false
  end.

Definition classes_ok (cs : classes) : bool := forallb (class_ok cs) (seq 0 (List.length cs)).

Definition resource_wf (cs : classes) (r : resource) : Prop :=
  match nth_error cs (fst r) with Some (_, s) => List.length (snd r) = s_arity s | None => False end.

Lemma dispatch_index cs : forall i t j s, dispatch cs i t = Some (j, s) -> nth_error cs (j - i) = Some (match nth_error cs (j - i) with Some p => fst p | None => "" end, s) /\ (i <= j)%nat.
Proof.
  induction cs as [|[ty s0] cs IH]; intros i t j s H; cbn [dispatch] in H; [discriminate|].
  destruct (fv_eqb t (FStr ty)).
  - inversion H; subst. rewrite Nat.sub_diag. cbn [nth_error fst]. split; [reflexivity | lia].
  - destruct (IH (S i) t j s H) as [H1 H2]. split; [|lia].
    replace (j - i)%nat with (S (j - S i)) by lia. cbn [nth_error]. exact H1.
Qed.

Theorem res_roundtrip (cs : classes) (r : resource) :
  classes_ok cs = true -> resource_wf cs r -> res_from_dict cs (res_to_dict cs r) = Some r.
Proof.
  intros Hok Hwf. destruct r as [i vals]. unfold resource_wf, res_to_dict in *. cbn [fst snd] in *.
  destruct (nth_error cs i) as [[ty s]|] eqn:En; [|destruct Hwf].
  assert (Hi : (i < List.length cs)%nat) by (apply nth_error_Some; rewrite En; discriminate).
  unfold classes_ok in Hok. rewrite forallb_forall in Hok.
  specialize (Hok i ltac:(apply in_seq; lia)). unfold class_ok in Hok. rewrite En in Hok.
  apply andb_true_iff in Hok. destruct Hok as [Hrt Hd].
  unfold res_from_dict. unfold to_dict at 1. rewrite lookup_to_dict.
  destruct (lookup "type" (s_to s)) as [[?|t]|]; try discriminate. cbn [option_map eval_t].
  destruct (dispatch cs 0 t) as [[j s']|] eqn:Ed; [|discriminate].
  apply Nat.eqb_eq in Hd. subst j.
  destruct (dispatch_index cs 0 t i s' Ed) as [H1 _]. rewrite Nat.sub_0_r, En in H1. inversion H1; subst s'.
  rewrite (roundtrip_sound s vals Hrt Hwf). reflexivity.
Qed.

(** ** instance configs: scalar fields by a schema + the list of resources under one key *)
Definition config : Type := (list fv * list resource)%type.
Definition cdict : Type := (dict * list dict)%type.    (* the scalar entries, and the value of the list entry *)

Definition cfg_to_dict (s : schema) (cs : classes) (c : config) : cdict :=
  (to_dict s (fst c), map (res_to_dict cs) (snd c)).

Definition cfg_from_dict (s : schema) (cs : classes) (d : cdict) : option config :=
  match from_dict s (fst d), mapM (res_from_dict cs) (snd d) with
  | Some vals, Some rs => Some (vals, rs)
  | _, _ => None
  end.

Lemma mapM_roundtrip {A B} (f : A -> B) (g : B -> option A) (l : list A) :
  (forall x, In x l -> g (f x) = Some x) -> mapM g (map f l) = Some l.
Proof.
  induction l as [|x l IH]; intros H; cbn [map mapM]; [reflexivity|].
  rewrite (H x (or_introl eq_refl)), IH; [reflexivity | intros y Hy; apply H; right; exact Hy].
Qed.

Theorem cfg_roundtrip (s : schema) (cs : classes) (c : config) :
  roundtrip_ok s = true -> classes_ok cs = true ->
  List.length (fst c) = s_arity s -> Forall (resource_wf cs) (snd c) ->
  cfg_from_dict s cs (cfg_to_dict s cs c) = Some c.
Proof.
  intros Hs Hcs Hlen Hwf. destruct c as [vals rs]. unfold cfg_from_dict, cfg_to_dict. cbn [fst snd] in *.
  rewrite (roundtrip_sound s vals Hs Hlen).
  rewrite (mapM_roundtrip (res_to_dict cs) (res_from_dict cs) rs); [reflexivity|].
  intros r Hr. apply res_roundtrip; [exact Hcs|]. rewrite Forall_forall in Hwf. exact (Hwf r Hr).
Qed.
