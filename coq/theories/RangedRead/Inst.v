(** C23 — the ranged-read model instantiated with the pieces GENERATED from the current sources.  Definitions only. *)
From HailV Require Import Common.Prelude RangedRead.Model.
From Coq Require Import String.
From HailG Require C23.Gen.
Open Scope Z_scope.

Section Inst.
  Context {A : Type}.

  (** <Backend>._open_from on an existing object with content [data] *)
  Definition gcs_open (data : list A) : Z -> option Z -> res (@stream A) := cloud_open C23.Gen.gcs_range_str data.
  Definition s3_open (data : list A) : Z -> option Z -> res (@stream A) := cloud_open C23.Gen.s3_range_str data.
  Definition az_open (data : list A) : Z -> option Z -> res (@stream A) := azure_open C23.Gen.azure_open_args data.
  Definition loc_open (data : list A) : Z -> option Z -> res (@stream A) := local_open data.

  (** AsyncFS.read_range / read_from over a back end *)
  Definition read_range (bo : Z -> option Z -> res (@stream A)) (start stop : Z) (incl : bool) : res (list A) :=
    fs_read_range bo C23.Gen.read_range_n start stop incl.
  Definition read_from (bo : Z -> option Z -> res (@stream A)) (start : Z) : res (list A) := fs_read_from bo start.
  Definition open_from (bo : Z -> option Z -> res (@stream A)) (start : Z) (length : option Z) : res (@stream A) :=
    fs_open_from bo start length.

  (** the local truncated reader, call by call *)
  Definition loc_t_reads (ns : list Z) (st : @tstate A) := t_reads C23.Gen.trunc_request ns st.
End Inst.

(** read(-1) is None, read(k) is Some k *)
Definition req (n : Z) : option Z := if n =? -1 then None else Some n.

(** what the correspondence evaluates: open, then a list of reads *)
Definition open_and_read {A} (bo : Z -> option Z -> res (@stream A)) (start : Z) (length : option Z) (ns : list Z)
  : res (list (list A)) :=
  match open_from bo start length with
  | Ok s => Ok (fst (s_reads (map req ns) s))
  | EOFError => EOFError
  | RangeError => RangeError
  end.

Definition local_open_and_read {A} (data : list A) (start : Z) (length : option Z) (ns : list Z) : list (list A) :=
  match length with
  | None => fst (s_reads (map req ns) (local_open_plain data start))
  | Some l => fst (loc_t_reads ns (local_open_trunc data start l))
  end.
