(** C23 — ranged reads (hailtop/aiotools/fs/fs.py, local_fs.py, the GCS / S3 / Azure back ends).
    Executable definitions only.

    TRUSTED stand-ins for what cannot run here: [serve] is the HTTP Range semantics of RFC 7233 §2.1/§4 as
    implemented by the GCS and S3 object servers (first-byte-pos >= size -> 416; last-byte-pos clamped to size-1;
    an invalid byte-range-spec is ignored); [az_download] is azure-storage-blob's
    BlobClient.download_blob(offset, length).  A stream is represented by the bytes it has not handed out yet. *)
From HailV Require Import Common.Prelude.
From Coq Require Import String Ascii DecimalString.
Open Scope Z_scope.

(** Python str(int) / f'{int}' *)
Definition dec (z : Z) : string := NilEmpty.string_of_int (Z.to_int z).

(* ------------------------------------------------------------------------------------------------ *)
(** * Parsing a Range header (server side, trusted) *)

Definition dash : ascii := "-"%char.

Fixpoint split_dash (s : string) : option (string * string) :=   (* at the first '-' *)
  match s with
  | EmptyString => None
  | String c r =>
      if Ascii.eqb c dash then Some (EmptyString, r)
      else match split_dash r with Some (a, b) => Some (String c a, b) | None => None end
  end.

Fixpoint strip_prefix (p s : string) : option string :=
  match p with
  | EmptyString => Some s
  | String c p' => match s with
                   | String d s' => if Ascii.eqb c d then strip_prefix p' s' else None
                   | EmptyString => None
                   end
  end.

Definition parse_num (s : string) : option Z :=
  match s with
  | EmptyString => None
  | _ => match NilEmpty.uint_of_string s with Some d => Some (Z.of_N (N.of_uint d)) | None => None end
  end.

(** "bytes=<first>-[<last>]"  (suffix ranges and multi-ranges are not produced by the code and are rejected) *)
Definition parse_range (h : string) : option (Z * option Z) :=
  match strip_prefix "bytes=" h with
  | None => None
  | Some r =>
      match split_dash r with
      | None => None
      | Some (a, b) =>
          match parse_num a with
          | None => None
          | Some first =>
              match b with
              | EmptyString => Some (first, None)
              | _ => match parse_num b with Some l => Some (first, Some l) | None => None end
              end
          end
      end
  end.

(** hand-written counterpart of the header construction found in the GCS and S3 back ends *)
Definition range_str (start : Z) (length : option Z) : string :=
  ("bytes=" ++ dec start ++ "-" ++ match length with None => "" | Some l => dec (start + l - 1) end)%string.

Inductive res (T : Type) : Type :=
| Ok (x : T)
| EOFError           (* hailtop.aiotools.fs.exceptions.UnexpectedEOFError *)
| RangeError.        (* start beyond the object, reported at the first read (Azure) *)
Arguments Ok {T} x.
Arguments EOFError {T}.
Arguments RangeError {T}.

Section Bytes.
  Context {A : Type}.                      (* a byte *)

  Definition zlen (l : list A) : Z := Z.of_nat (List.length l).
  Definition ztake (n : Z) (l : list A) : list A := firstn (Z.to_nat n) l.
  Definition zdrop (n : Z) (l : list A) : list A := skipn (Z.to_nat n) l.

  (** SPECIFICATION: the object's bytes from [start], at most [length] of them *)
  Definition slice (data : list A) (start : Z) (length : option Z) : list A :=
    match length with None => zdrop start data | Some l => ztake l (zdrop start data) end.

  (* ---------------------------------------------------------------------------------------------- *)
  (** * Streams: the bytes not handed out yet *)

  Definition stream : Type := list A.

  (** read(n): None = read(-1) = everything left; Some k = at most k bytes *)
  Definition s_read (n : option Z) (s : stream) : list A * stream :=
    match n with None => (s, []) | Some k => (ztake k s, zdrop k s) end.

  Fixpoint s_reads (ns : list (option Z)) (s : stream) : list (list A) * stream :=
    match ns with
    | [] => ([], s)
    | n :: r => let '(b, s') := s_read n s in let '(bs, s'') := s_reads r s' in (b :: bs, s'')
    end.

  Definition s_readexactly (n : Z) (s : stream) : res (list A) :=
    if n <=? zlen s then Ok (ztake n s) else EOFError.

  (* ---------------------------------------------------------------------------------------------- *)
  (** * GCS / S3: HTTP range GET *)

  Inductive response : Type := R206 (body : list A) | R200 (body : list A) | R416.

  Definition serve (data : list A) (hdr : string) : response :=
    match parse_range hdr with
    | None => R200 data                                     (* invalid / absent byte-range-spec: ignored *)
    | Some (first, last) =>
        if zlen data <=? first then R416
        else match last with
             | None => R206 (zdrop first data)
             | Some l => if l <? first then R200 data      (* invalid spec: ignored *)
                         else R206 (ztake (Z.min l (zlen data - 1) - first + 1) (zdrop first data))
             end
    end.

  (** GoogleStorageAsyncFS._open_from / S3AsyncFS._open_from: 416 / InvalidRange -> UnexpectedEOFError *)
  Definition cloud_open (mk_range : Z -> option Z -> string) (data : list A) (start : Z) (length : option Z) : res stream :=
    match serve data (mk_range start length) with
    | R206 b => Ok b
    | R200 b => Ok b
    | R416 => EOFError
    end.

  (* ---------------------------------------------------------------------------------------------- *)
  (** * Azure: BlobClient.download_blob(offset, length) and AzureReadableStream (fixed version) *)

  Definition az_download (data : list A) (offset length : option Z) : option (list A) :=
    match offset with
    | None => Some data
    | Some o => if zlen data <=? o then None              (* 416 InvalidRange *)
                else Some (slice data o length)
    end.

  (** AzureAsyncFS._open_from builds AzureReadableStream(offset, length); the first read downloads that range and
      every later read (sized or -1) hands out what is left of it. *)
  Definition azure_open (args : Z -> option Z -> option Z * option Z) (data : list A) (start : Z) (length : option Z)
    : res stream :=
    let '(o, l) := args start length in
    match az_download data o l with Some d => Ok d | None => RangeError end.

  (* ---------------------------------------------------------------------------------------------- *)
  (** * Local files: seek + TruncatedReadableBinaryIO *)

  Record tstate : Type := mkT { t_off : Z; t_lim : Z; t_file : list A (* file content after the current position *) }.

  Variable trunc_request : Z -> Z -> Z -> Z.      (* TruncatedReadableBinaryIO.read: (offset, limit, n) -> bytes asked of the file *)

  (** BufferedReader.read(k): everything for k = -1, else at most k bytes *)
  Definition file_read (k : Z) (f : list A) : list A * list A :=
    if k =? -1 then (f, []) else (ztake k f, zdrop k f).

  Definition t_read (n : Z) (st : tstate) : list A * tstate :=
    let k := trunc_request (t_off st) (t_lim st) n in
    let '(b, f') := file_read k (t_file st) in
    (b, mkT (t_off st + zlen b) (t_lim st) f').

  Fixpoint t_reads (ns : list Z) (st : tstate) : list (list A) * tstate :=
    match ns with
    | [] => ([], st)
    | n :: r => let '(b, st') := t_read n st in let '(bs, st'') := t_reads r st' in (b :: bs, st'')
    end.

  (** LocalAsyncFS._open_from with a length *)
  Definition local_open_trunc (data : list A) (start length : Z) : tstate := mkT 0 length (zdrop start data).
  (** ... and without: the plain file object positioned at start *)
  Definition local_open_plain (data : list A) (start : Z) : stream := zdrop start data.

  (** what the local back end amounts to as a stream (proved equal to the read-by-read model in Lemmas.v) *)
  Definition local_open (data : list A) (start : Z) (length : option Z) : res stream := Ok (slice data start length).

  (* ---------------------------------------------------------------------------------------------- *)
  (** * AsyncFS.open_from / read_from / read_range on top of a back end *)

  Variable backend_open : Z -> option Z -> res stream.      (* <Backend>._open_from on an existing object *)
  Variable range_n : Z -> Z -> bool -> Z.                     (* read_range: n = (end - start) + bool(end_inclusive) *)

  Definition fs_open_from (start : Z) (length : option Z) : res stream :=
    match length with
    | Some 0 => Ok []                                       (* EmptyReadableStream (the object exists) *)
    | _ => backend_open start length
    end.

  Definition fs_read_from (start : Z) : res (list A) :=
    match fs_open_from start None with
    | Ok s => Ok (fst (s_read None s))
    | EOFError => EOFError
    | RangeError => RangeError
    end.

  Definition fs_read_range (start stop : Z) (end_inclusive : bool) : res (list A) :=
    let n := range_n start stop end_inclusive in
    match fs_open_from start (Some n) with
    | Ok s => s_readexactly n s
    | EOFError => EOFError
    | RangeError => EOFError                                (* AzureReadableStream.read(n): 416 -> UnexpectedEOFError *)
    end.
End Bytes.

Arguments R206 {A} body.
Arguments R200 {A} body.
Arguments R416 {A}.
Arguments mkT {A}.
