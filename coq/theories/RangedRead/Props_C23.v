(** C23 — property theorems only.

    [slice data start length] is the SPECIFICATION: the object's bytes from offset [start], at most [length] of them.
    [gcs_open] / [s3_open] / [az_open] / [loc_open] model <Backend>._open_from on an existing object with content
    [data], using the Range-header construction / AzureReadableStream arguments GENERATED from the sources and the
    trusted RFC 7233 / download_blob server models; [open_from], [read_from], [read_range] are AsyncFS's generic
    methods over a back end (n of read_range generated).  Bytes are an arbitrary type A; all statements are for all
    byte lists, offsets and lengths. *)
From HailV Require Import Common.Prelude RangedRead.Model RangedRead.Inst RangedRead.Lemmas.
From Coq Require Import String.
From HailG Require C23.Gen.
Open Scope Z_scope.

(** The Range header built by the GCS and by the S3 back end parses (RFC 7233 byte-range-spec) to
    first-byte-pos = start and last-byte-pos = start + length - 1 (absent without a length). *)
Theorem C23_range_header_gcs : forall start length,
  0 <= start -> (forall l, length = Some l -> 1 <= l) ->
  parse_range (C23.Gen.gcs_range_str start length)
  = Some (start, match length with None => None | Some l => Some (start + l - 1) end).
Proof. exact gcs_header_parses. Qed.
Print Assumptions C23_range_header_gcs.

Theorem C23_range_header_s3 : forall start length,
  0 <= start -> (forall l, length = Some l -> 1 <= l) ->
  parse_range (C23.Gen.s3_range_str start length)
  = Some (start, match length with None => None | Some l => Some (start + l - 1) end).
Proof. exact s3_header_parses. Qed.
Print Assumptions C23_range_header_s3.

(** Every back end opens exactly the requested range: for every object, every offset inside it and every length
    >= 1 (or none) — including the last byte and lengths that overrun the object — the stream content is the slice;
    an offset at or beyond the end is signalled (cloud) or yields the empty stream (local), never other bytes. *)
Theorem C23_backends_open_exact : forall (A : Type) (data : list A),
  backend_ok data (gcs_open data) /\ backend_ok data (s3_open data) /\
  backend_ok data (az_open data) /\ backend_ok data (loc_open data).
Proof. exact @all_backends_ok. Qed.
Print Assumptions C23_backends_open_exact.

(** AsyncFS.open_from (with the empty-range shortcut, length >= 0) and read_from over such a back end *)
Theorem C23_open_from_exact : forall (A : Type) (data : list A) bo start length,
  backend_ok data bo -> 0 <= start -> start < zlen data -> (forall l, length = Some l -> 0 <= l) ->
  open_from bo start length = Ok (slice data start length).
Proof. exact @open_from_exact. Qed.
Print Assumptions C23_open_from_exact.

Theorem C23_read_from_exact : forall (A : Type) (data : list A) bo start,
  backend_ok data bo -> 0 <= start -> start < zlen data ->
  read_from bo start = Ok (slice data start None).
Proof. exact @read_from_exact. Qed.
Print Assumptions C23_read_from_exact.

(** Any sequence of read(k) / read(-1) calls on a stream hands out, in order, a prefix of its content; the rest is
    still in the stream; after a read(-1), or a sized read that came back short, nothing is left. *)
Theorem C23_stream_reads_exact : forall (A : Type) (ns : list (option Z)) (s : @stream A),
  List.concat (fst (s_reads ns s)) ++ snd (s_reads ns s) = s /\
  (In None ns -> snd (s_reads ns s) = []).
Proof. exact @stream_reads_exact. Qed.
Print Assumptions C23_stream_reads_exact.

Theorem C23_short_read_means_end : forall (A : Type) k (s : @stream A),
  0 <= k -> zlen (fst (s_read (Some k) s)) < k -> snd (s_read (Some k) s) = [].
Proof. exact @s_read_short. Qed.
Print Assumptions C23_short_read_means_end.

(** The local truncated reader (request arithmetic generated from TruncatedReadableBinaryIO.read), for EVERY sequence
    of read(n) (n >= 0) / read(-1) calls, returns call by call what a stream over the slice returns. *)
Theorem C23_local_reads_exact : forall (A : Type) (data : list A) start length ns,
  0 <= start -> (forall l, length = Some l -> 1 <= l) -> Forall (fun n => n = -1 \/ 0 <= n) ns ->
  local_open_and_read data start length ns = fst (s_reads (map req ns) (slice data start length)).
Proof. exact @local_reads_exact. Qed.
Print Assumptions C23_local_reads_exact.

(** read_range, inclusive or exclusive end: with n = (end - start) + [inclusive] >= 0 the result is the empty
    string for n = 0, exactly the n bytes data[start : start+n] when they exist, and UnexpectedEOFError otherwise. *)
Theorem C23_read_range_exact_or_eof : forall (A : Type) (data : list A) bo start stop (incl : bool),
  backend_ok data bo -> 0 <= start ->
  let n := (stop - start) + (if incl then 1 else 0) in
  0 <= n ->
  read_range bo start stop incl =
    if n =? 0 then Ok []
    else if start + n <=? zlen data then Ok (slice data start (Some n))
    else EOFError.
Proof. exact @read_range_spec. Qed.
Print Assumptions C23_read_range_exact_or_eof.

(** ... and the slice returned then has exactly n bytes *)
Theorem C23_slice_length : forall (A : Type) (data : list A) start n,
  0 <= start -> 0 <= n -> zlen (slice data start (Some n)) = Z.min n (Z.max 0 (zlen data - start)).
Proof. exact @zlen_slice. Qed.
Print Assumptions C23_slice_length.
