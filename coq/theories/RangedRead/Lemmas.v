(** C23: proofs about ranged reads. *)
From HailV Require Import Common.Prelude RangedRead.Model RangedRead.Inst.
From Coq Require Import String Ascii DecimalString DecimalZ DecimalN DecimalPos.
From HailG Require C23.Gen.
Open Scope Z_scope.

(* ------------------------------------------------------------------------------------------------ *)
(** * Strings: the generated header constructions equal the hand model; the header parses back *)

Lemma sapp_assoc (a b c : string) : ((a ++ b) ++ c = a ++ (b ++ c))%string.
Proof. induction a as [|x a IH]; cbn [append]; [reflexivity | rewrite IH; reflexivity]. Qed.

Lemma sapp_nil_r (a : string) : (a ++ "" = a)%string.
Proof. induction a as [|x a IH]; cbn [append]; [reflexivity | rewrite IH; reflexivity]. Qed.

Lemma gen_gcs_range_str start length : C23.Gen.gcs_range_str start length = range_str start length.
Proof.
  unfold C23.Gen.gcs_range_str, range_str. cbv zeta. destruct length as [l|]; rewrite ?sapp_assoc; reflexivity.
Qed.

Lemma gen_s3_range_str start length : C23.Gen.s3_range_str start length = range_str start length.
Proof.
  unfold C23.Gen.s3_range_str, range_str. cbv zeta. destruct length as [l|]; rewrite ?sapp_assoc; reflexivity.
Qed.

Lemma gen_read_range_n start stop incl :
  C23.Gen.read_range_n start stop incl = (stop - start) + (if incl then 1 else 0).
Proof. reflexivity. Qed.

Lemma gen_trunc_request o l n :
  C23.Gen.trunc_request o l n = if n =? -1 then l - o else Z.min (l - o) n.
Proof. reflexivity. Qed.

Lemma gen_azure_open_args start length : C23.Gen.azure_open_args start length = (Some start, length).
Proof. reflexivity. Qed.

Fixpoint no_dash (s : string) : Prop :=
  match s with EmptyString => True | String c r => Ascii.eqb c dash = false /\ no_dash r end.

Lemma no_dash_uint d : no_dash (NilEmpty.string_of_uint d).
Proof. induction d; cbn; auto. Qed.

Lemma split_dash_app a b : no_dash a -> split_dash (a ++ String dash b) = Some (a, b).
Proof.
  induction a as [|c a IH]; cbn [append split_dash no_dash]; intros H.
  - rewrite Ascii.eqb_refl. reflexivity.
  - destruct H as (Hc & Ha). rewrite Hc, (IH Ha). reflexivity.
Qed.

Lemma dec_nonneg z : 0 <= z -> dec z = NilEmpty.string_of_uint (N.to_uint (Z.to_N z)).
Proof. intros H. destruct z as [|p|p]; [reflexivity | reflexivity | lia]. Qed.

Lemma string_of_uint_nonnil d : d <> Decimal.Nil -> NilEmpty.string_of_uint d <> EmptyString.
Proof. destruct d; cbn; congruence. Qed.

Lemma to_uint_nonnil n : N.to_uint n <> Decimal.Nil.
Proof. destruct n as [|p]; cbn; [discriminate | apply Unsigned.to_uint_nonnil]. Qed.

Lemma parse_num_dec z : 0 <= z -> parse_num (dec z) = Some z.
Proof.
  intros H. rewrite (dec_nonneg z H). unfold parse_num.
  pose proof (string_of_uint_nonnil _ (to_uint_nonnil (Z.to_N z))) as Hne.
  destruct (NilEmpty.string_of_uint (N.to_uint (Z.to_N z))) eqn:E; [congruence|].
  rewrite <- E, NilEmpty.usu, DecimalN.Unsigned.of_to. f_equal. lia.
Qed.

Lemma dec_nonempty z : 0 <= z -> dec z <> EmptyString.
Proof.
  intros H. rewrite (dec_nonneg z H). apply string_of_uint_nonnil, to_uint_nonnil.
Qed.

Lemma strip_bytes_prefix r : strip_prefix "bytes=" ("bytes=" ++ r) = Some r.
Proof. reflexivity. Qed.

Lemma parse_range_str start length :
  0 <= start -> (forall l, length = Some l -> 0 <= start + l - 1) ->
  parse_range (range_str start length) =
  Some (start, match length with None => None | Some l => Some (start + l - 1) end).
Proof.
  intros Hs Hl. unfold range_str, parse_range. rewrite strip_bytes_prefix.
  assert (Hnd : no_dash (dec start)) by (rewrite (dec_nonneg _ Hs); apply no_dash_uint).
  change ("-" ++ ?x)%string with (String dash x).
  rewrite (split_dash_app _ _ Hnd), (parse_num_dec _ Hs).
  destruct length as [l|]; [|reflexivity].
  specialize (Hl l eq_refl). pose proof (dec_nonempty _ Hl) as Hne.
  destruct (dec (start + l - 1)) eqn:E; [congruence|]. rewrite <- E, (parse_num_dec _ Hl). reflexivity.
Qed.

Lemma gcs_header_parses start length :
  0 <= start -> (forall l, length = Some l -> 1 <= l) ->
  parse_range (C23.Gen.gcs_range_str start length)
  = Some (start, match length with None => None | Some l => Some (start + l - 1) end).
Proof.
  intros Hs Hl. rewrite gen_gcs_range_str. apply parse_range_str; [exact Hs|].
  intros l E. specialize (Hl l E). lia.
Qed.

Lemma s3_header_parses start length :
  0 <= start -> (forall l, length = Some l -> 1 <= l) ->
  parse_range (C23.Gen.s3_range_str start length)
  = Some (start, match length with None => None | Some l => Some (start + l - 1) end).
Proof.
  intros Hs Hl. rewrite gen_s3_range_str. apply parse_range_str; [exact Hs|].
  intros l E. specialize (Hl l E). lia.
Qed.

(* ------------------------------------------------------------------------------------------------ *)
(** * Lists with Z indices *)

Section Lists.
  Context {A : Type}.
  Implicit Types f s data : list A.

  Lemma zlen_nonneg (l : list A) : 0 <= zlen l.
  Proof. unfold zlen; lia. Qed.

  Lemma ztake_ztake a b (l : list A) : 0 <= a -> 0 <= b -> ztake a (ztake b l) = ztake (Z.min a b) l.
  Proof. intros Ha Hb. unfold ztake. rewrite firstn_firstn. f_equal. lia. Qed.

  Lemma zdrop_ztake a b (l : list A) : 0 <= a -> zdrop a (ztake b l) = ztake (b - a) (zdrop a l).
  Proof. intros Ha. unfold ztake, zdrop. rewrite skipn_firstn_comm. f_equal. lia. Qed.

  Lemma zlen_ztake a (l : list A) : 0 <= a -> zlen (ztake a l) = Z.min a (zlen l).
  Proof. intros Ha. unfold zlen, ztake. rewrite firstn_length. lia. Qed.

  Lemma zlen_zdrop a (l : list A) : 0 <= a -> zlen (zdrop a l) = Z.max 0 (zlen l - a).
  Proof. intros Ha. unfold zlen, zdrop. rewrite skipn_length. lia. Qed.

  Lemma ztake_all a (l : list A) : zlen l <= a -> ztake a l = l.
  Proof. intros H. unfold ztake, zlen in *. apply firstn_all2. lia. Qed.

  Lemma zdrop_all a (l : list A) : zlen l <= a -> zdrop a l = [].
  Proof. intros H. unfold zdrop, zlen in *. apply skipn_all2. lia. Qed.

  Lemma ztake_nonpos a (l : list A) : a <= 0 -> ztake a l = [].
  Proof. intros H. unfold ztake. replace (Z.to_nat a) with 0%nat by lia. reflexivity. Qed.

  Lemma ztake_nil a : ztake a (@nil A) = [].
  Proof. unfold ztake. apply firstn_nil. Qed.

  Lemma zdrop_nil a : zdrop a (@nil A) = [].
  Proof. unfold zdrop. apply skipn_nil. Qed.

  Lemma ztake_zdrop a (l : list A) : ztake a l ++ zdrop a l = l.
  Proof. unfold ztake, zdrop. apply firstn_skipn. Qed.

  Lemma zlen_nil_inv (l : list A) : zlen l <= 0 -> l = [].
  Proof. unfold zlen. destruct l; cbn; [reflexivity | lia]. Qed.

  (** length of the specified slice *)
  Lemma zlen_slice data start n :
    0 <= start -> 0 <= n -> zlen (slice data start (Some n)) = Z.min n (Z.max 0 (zlen data - start)).
  Proof. intros Hs Hn. unfold slice. rewrite zlen_ztake, zlen_zdrop by lia. reflexivity. Qed.

  (* ---------------------------------------------------------------------------------------------- *)
  (** * Streams *)

  Lemma s_read_split n (s : @stream A) : fst (s_read n s) ++ snd (s_read n s) = s.
  Proof. destruct n as [k|]; cbn; [apply ztake_zdrop | apply app_nil_r]. Qed.

  Lemma s_reads_nil ns : snd (s_reads ns (@nil A)) = [] /\ List.concat (fst (s_reads ns (@nil A))) = [].
  Proof.
    induction ns as [|n r IH]; cbn [s_reads]; [auto|].
    assert (Hr : s_read n (@nil A) = ([], [])) by (destruct n; cbn; rewrite ?ztake_nil, ?zdrop_nil; reflexivity).
    rewrite Hr. destruct (s_reads r []) as [bs s'']; cbn in *. exact IH.
  Qed.

  (** the reads hand out, in order, a prefix of the stream; what is left is returned *)
  Lemma s_reads_split : forall ns (s : @stream A), List.concat (fst (s_reads ns s)) ++ snd (s_reads ns s) = s.
  Proof.
    induction ns as [|n r IH]; intros s; cbn [s_reads]; [reflexivity|].
    pose proof (s_read_split n s) as Hn. destruct (s_read n s) as [b s']; cbn [fst snd] in Hn.
    specialize (IH s'). destruct (s_reads r s') as [bs s'']; cbn [fst snd List.concat] in *.
    rewrite <- app_assoc, IH. exact Hn.
  Qed.

  (** after a read(-1) nothing is left *)
  Lemma s_reads_all : forall ns (s : @stream A), In None ns -> snd (s_reads ns s) = [].
  Proof.
    induction ns as [|n r IH]; intros s Hin; [destruct Hin|]. cbn [s_reads].
    destruct n as [k|].
    - destruct Hin as [H|H]; [discriminate|]. cbn [s_read].
      specialize (IH (zdrop k s) H). destruct (s_reads r (zdrop k s)); exact IH.
    - cbn [s_read]. pose proof (s_reads_nil r) as (H1 & _). destruct (s_reads r []); exact H1.
  Qed.

  (** a sized read that returns fewer bytes than asked for has reached the end *)
  Lemma s_read_short k (s : @stream A) : 0 <= k -> zlen (fst (s_read (Some k) s)) < k -> snd (s_read (Some k) s) = [].
  Proof.
    intros Hk H. cbn in *. rewrite zlen_ztake in H by lia. apply zdrop_all. lia.
  Qed.

  (* ---------------------------------------------------------------------------------------------- *)
  (** * GCS / S3 *)

  Lemma ztake_clamped data start l :
    0 <= start -> start < zlen data -> 1 <= l ->
    ztake (Z.min (start + l - 1) (zlen data - 1) - start + 1) (zdrop start data) = ztake l (zdrop start data).
  Proof.
    intros Hs Hlt Hl.
    destruct (Z_le_gt_dec (start + l) (zlen data)) as [Hfit|Hover].
    - f_equal. lia.
    - rewrite !ztake_all; [reflexivity | rewrite zlen_zdrop by lia; lia | rewrite zlen_zdrop by lia; lia].
  Qed.

  Lemma cloud_open_exact mk data start length :
    (forall (s0 : Z) (l0 : option Z), mk s0 l0 = range_str s0 l0) ->
    0 <= start -> start < zlen data -> (forall l, length = Some l -> 1 <= l) ->
    cloud_open mk data start length = Ok (slice data start length).
  Proof.
    intros Hmk Hs Hlt Hl. unfold cloud_open, serve. rewrite Hmk, parse_range_str; [|lia|].
    2:{ intros l E. specialize (Hl l E). lia. }
    destruct (zlen data <=? start) eqn:E; [lia|].
    destruct length as [l|]; [|reflexivity].
    specialize (Hl l eq_refl). destruct (start + l - 1 <? start) eqn:E2; [lia|].
    unfold slice. rewrite ztake_clamped by lia. reflexivity.
  Qed.

  Lemma cloud_open_beyond mk data start length :
    (forall (s0 : Z) (l0 : option Z), mk s0 l0 = range_str s0 l0) ->
    0 <= start -> zlen data <= start -> (forall l, length = Some l -> 1 <= l) ->
    cloud_open mk data start length = EOFError.
  Proof.
    intros Hmk Hs Hge Hl. unfold cloud_open, serve. rewrite Hmk, parse_range_str; [|lia|].
    2:{ intros l E. specialize (Hl l E). lia. }
    destruct (zlen data <=? start) eqn:E; [reflexivity | lia].
  Qed.

  (* ---------------------------------------------------------------------------------------------- *)
  (** * Azure *)

  Lemma azure_open_exact data start length :
    0 <= start -> start < zlen data ->
    az_open data start length = Ok (slice data start length).
  Proof.
    intros Hs Hlt. unfold az_open, azure_open. rewrite gen_azure_open_args. unfold az_download.
    destruct (zlen data <=? start) eqn:E; [lia | reflexivity].
  Qed.

  Lemma azure_open_beyond data start length :
    zlen data <= start -> az_open data start length = RangeError.
  Proof.
    intros Hge. unfold az_open, azure_open. rewrite gen_azure_open_args. unfold az_download.
    destruct (zlen data <=? start) eqn:E; [reflexivity | lia].
  Qed.

  (* ---------------------------------------------------------------------------------------------- *)
  (** * Local: the truncated reader, read by read, is the stream over the slice *)

  Definition t_inv (st : @tstate A) (s : @stream A) : Prop :=
    0 <= t_off st <= t_lim st /\ s = ztake (t_lim st - t_off st) (t_file st).

  Lemma t_read_sim n st s :
    t_inv st s -> (n = -1 \/ 0 <= n) ->
    fst (t_read C23.Gen.trunc_request n st) = fst (s_read (req n) s) /\
    t_inv (snd (t_read C23.Gen.trunc_request n st)) (snd (s_read (req n) s)).
  Proof.
    intros ((Ho & Hol) & Hs) Hn. destruct st as [o m f]; cbn [t_off t_lim t_file] in *. subst s.
    unfold t_read, t_inv, req; cbn [t_off t_lim t_file]. rewrite gen_trunc_request.
    destruct (n =? -1) eqn:En.
    - (* read(-1) *)
      unfold file_read. destruct (m - o =? -1) eqn:E1; [lia|]. cbn [fst snd s_read t_off t_lim t_file].
      split; [reflexivity|]. rewrite zlen_ztake by lia. split; [pose proof (zlen_nonneg f); lia|].
      destruct (Z_le_gt_dec (m - o) (zlen f)) as [H|H].
      + rewrite Z.min_l by lia. rewrite ztake_nonpos by lia. reflexivity.
      + rewrite zdrop_all by lia. rewrite ztake_nil. reflexivity.
    - (* read(n), n >= 0 *)
      assert (Hn0 : 0 <= n) by lia. clear Hn.
      unfold file_read. destruct (Z.min (m - o) n =? -1) eqn:E1; [lia|]. cbn [fst snd s_read t_off t_lim t_file].
      rewrite ztake_ztake by lia. rewrite (Z.min_comm n (m - o)). split; [reflexivity|].
      rewrite zlen_ztake by lia. split; [pose proof (zlen_nonneg f); lia|].
      rewrite zdrop_ztake by lia.
      destruct (Z_le_gt_dec n (m - o)) as [Hle|Hgt].
      + rewrite (Z.min_r (m - o) n) by lia.
        destruct (Z_le_gt_dec n (zlen f)) as [H|H].
        * rewrite Z.min_l by lia. f_equal. lia.
        * rewrite (zdrop_all n f) by lia. rewrite !ztake_nil. reflexivity.
      + rewrite (Z.min_l (m - o) n) by lia. rewrite (ztake_nonpos (m - o - n)) by lia.
        destruct (Z_le_gt_dec (m - o) (zlen f)) as [H|H].
        * rewrite Z.min_l by lia. rewrite ztake_nonpos by lia. reflexivity.
        * rewrite (zdrop_all (m - o) f) by lia. rewrite ztake_nil. reflexivity.
  Qed.

  Lemma t_reads_sim : forall ns st s,
    t_inv st s -> Forall (fun n => n = -1 \/ 0 <= n) ns ->
    fst (loc_t_reads ns st) = fst (s_reads (map req ns) s).
  Proof.
    induction ns as [|n r IH]; intros st s Hinv Hns; [reflexivity|].
    unfold loc_t_reads in *. cbn [t_reads s_reads map].
    inversion Hns as [|? ? Hn Hr]; subst.
    destruct (t_read_sim n st s Hinv Hn) as (Hb & Hinv').
    destruct (t_read C23.Gen.trunc_request n st) as [b st']; destruct (s_read (req n) s) as [b2 s'].
    cbn [fst snd] in *. subst b2. specialize (IH st' s' Hinv' Hr).
    destruct (t_reads C23.Gen.trunc_request r st') as [bs st'']; destruct (s_reads (map req r) s') as [bs2 s''].
    cbn [fst snd] in *. subst. reflexivity.
  Qed.

  Lemma local_reads_exact data start length ns :
    0 <= start -> (forall l, length = Some l -> 1 <= l) -> Forall (fun n => n = -1 \/ 0 <= n) ns ->
    local_open_and_read data start length ns = fst (s_reads (map req ns) (slice data start length)).
  Proof.
    intros Hs Hl Hns. unfold local_open_and_read, slice. destruct length as [l|]; [|reflexivity].
    specialize (Hl l eq_refl). apply t_reads_sim; [|exact Hns].
    unfold t_inv, local_open_trunc; cbn. split; [lia|]. f_equal. lia.
  Qed.

  (* ---------------------------------------------------------------------------------------------- *)
  (** * AsyncFS.read_from / read_range over any back end that opens exact ranges *)

  Definition backend_ok (data : list A) (bo : Z -> option Z -> res (@stream A)) : Prop :=
    forall start length, 0 <= start -> (forall l, length = Some l -> 1 <= l) ->
      (start < zlen data -> bo start length = Ok (slice data start length)) /\
      (zlen data <= start -> bo start length = EOFError \/ bo start length = RangeError \/ bo start length = Ok []).

  Lemma gcs_backend_ok data : backend_ok data (gcs_open data).
  Proof.
    intros start length Hs Hl. split; intros H.
    - apply cloud_open_exact; auto using gen_gcs_range_str.
    - left. apply cloud_open_beyond; auto using gen_gcs_range_str.
  Qed.

  Lemma s3_backend_ok data : backend_ok data (s3_open data).
  Proof.
    intros start length Hs Hl. split; intros H.
    - apply cloud_open_exact; auto using gen_s3_range_str.
    - left. apply cloud_open_beyond; auto using gen_s3_range_str.
  Qed.

  Lemma az_backend_ok data : backend_ok data (az_open data).
  Proof.
    intros start length Hs Hl. split; intros H.
    - apply azure_open_exact; assumption.
    - right; left. apply azure_open_beyond; assumption.
  Qed.

  Lemma loc_backend_ok data : backend_ok data (loc_open data).
  Proof.
    intros start length Hs Hl. split; intros H; [reflexivity|].
    right; right. unfold loc_open, local_open. f_equal. unfold slice.
    destruct length; rewrite zdrop_all by lia; rewrite ?ztake_nil; reflexivity.
  Qed.

  Lemma all_backends_ok data :
    backend_ok data (gcs_open data) /\ backend_ok data (s3_open data) /\
    backend_ok data (az_open data) /\ backend_ok data (loc_open data).
  Proof.
    split; [apply gcs_backend_ok|]. split; [apply s3_backend_ok|]. split; [apply az_backend_ok | apply loc_backend_ok].
  Qed.

  Lemma stream_reads_exact (ns : list (option Z)) (s : @stream A) :
    List.concat (fst (s_reads ns s)) ++ snd (s_reads ns s) = s /\
    (In None ns -> snd (s_reads ns s) = []).
  Proof. split; [apply s_reads_split | apply s_reads_all]. Qed.

  Lemma open_from_exact data bo start length :
    backend_ok data bo -> 0 <= start -> start < zlen data -> (forall l, length = Some l -> 0 <= l) ->
    open_from bo start length = Ok (slice data start length).
  Proof.
    intros Hb Hs Hlt Hl. unfold open_from, fs_open_from.
    destruct length as [l|].
    - specialize (Hl l eq_refl). destruct l as [|p|p]; [|apply Hb; auto; intros ? E; inversion E; lia | lia].
      unfold slice. rewrite ztake_nonpos by lia. reflexivity.
    - apply Hb; auto. intros ? E; discriminate.
  Qed.

  Lemma read_from_exact data bo start :
    backend_ok data bo -> 0 <= start -> start < zlen data ->
    read_from bo start = Ok (slice data start None).
  Proof.
    intros Hb Hs Hlt. unfold read_from, fs_read_from.
    change (fs_open_from bo start None) with (open_from bo start None).
    rewrite (open_from_exact data) by (auto; intros ? E; discriminate). reflexivity.
  Qed.

  Lemma read_range_spec data bo start stop (incl : bool) :
    backend_ok data bo -> 0 <= start ->
    let n := (stop - start) + (if incl then 1 else 0) in
    0 <= n ->
    read_range bo start stop incl =
      if n =? 0 then Ok []
      else if start + n <=? zlen data then Ok (slice data start (Some n))
      else EOFError.
  Proof.
    intros Hb Hs n Hn. unfold read_range, fs_read_range. rewrite gen_read_range_n. fold n.
    destruct (n =? 0) eqn:E0.
    - assert (n = 0) by lia. replace n with 0 by lia. cbn. reflexivity.
    - assert (Hn1 : 1 <= n) by lia.
      assert (Hopen : fs_open_from bo start (Some n) = bo start (Some n)).
      { unfold fs_open_from. destruct n; try reflexivity; lia. }
      rewrite Hopen.
      destruct (Hb start (Some n) Hs ltac:(intros ? E; inversion E; lia)) as (Hin & Hout).
      destruct (Z_lt_ge_dec start (zlen data)) as [Hlt|Hge].
      + rewrite (Hin Hlt). unfold s_readexactly. rewrite zlen_slice by lia.
        destruct (start + n <=? zlen data) eqn:Efit.
        * destruct (n <=? Z.min n (Z.max 0 (zlen data - start))) eqn:E1; [|lia].
          f_equal. apply ztake_all. rewrite zlen_slice by lia. lia.
        * destruct (n <=? Z.min n (Z.max 0 (zlen data - start))) eqn:E1; [lia | reflexivity].
      + destruct (start + n <=? zlen data) eqn:Efit; [lia|].
        destruct (Hout ltac:(lia)) as [H|[H|H]]; rewrite H; try reflexivity.
        unfold s_readexactly. cbn. destruct (n <=? 0) eqn:E1; [lia | reflexivity].
  Qed.
End Lists.

(* ------------------------------------------------------------------------------------------------ *)
(** * Concrete instances: the hypotheses are satisfiable, edge cases *)

Definition d10 : list Z := [0; 1; 2; 3; 4; 5; 6; 7; 8; 9].

Example ex_header : C23.Gen.gcs_range_str 2 (Some 3) = "bytes=2-4"%string /\ C23.Gen.s3_range_str 7 None = "bytes=7-"%string.
Proof. split; vm_compute; reflexivity. Qed.

Example ex_last_byte : gcs_open d10 9 (Some 1) = Ok [9] /\ read_range (s3_open d10) 9 9 true = Ok [9]
                       /\ read_range (az_open d10) 9 10 false = Ok [9] /\ read_range (loc_open d10) 9 9 true = Ok [9].
Proof. repeat split; vm_compute; reflexivity. Qed.

Example ex_overrun : gcs_open d10 8 (Some 5) = Ok [8; 9] /\ read_range (gcs_open d10) 8 12 true = EOFError
                     /\ read_range (az_open d10) 10 10 true = EOFError /\ read_range (loc_open d10) 12 11 true = Ok [].
Proof. repeat split; vm_compute; reflexivity. Qed.

Example ex_empty_range : read_range (gcs_open d10) 4 4 false = Ok [] /\ read_range (az_open d10) 4 3 true = Ok [].
Proof. split; vm_compute; reflexivity. Qed.

Example ex_local_reads : local_open_and_read d10 2 (Some 5) [2; 0; 7; 3; -1] = [[2; 3]; []; [4; 5; 6]; []; []]
                         /\ local_open_and_read d10 2 None [3; -1; 4] = [[2; 3; 4]; [5; 6; 7; 8; 9]; []].
Proof. split; vm_compute; reflexivity. Qed.
