(** C27 — the transaction model instantiated with the pieces GENERATED from the current gear/gear/database.py
    (retry classification, commit-or-rollback choice, rollback guard).  Definitions only. *)
From HailV Require Import Common.Prelude DbTx.Model.
From HailG Require C27.Gen.
Open Scope Z_scope.

(** aiomysql: any command on a connection that was lost raises InterfaceError("(0, 'Not connected')") — args[0] is a str *)
Definition lost_err : err := mkErr InterfaceError None.

Definition gen_attempt {W} (stmts : list W) (f : faults) (w : @world W) : option err * world :=
  attempt lost_err C27.Gen.on_exit C27.Gen.rollback_guarded stmts f w.

Definition gen_run {W} (stmts : list W) (hist : list faults) (w : @world W) : option err * world * list (option err * list W) :=
  run lost_err C27.Gen.on_exit C27.Gen.rollback_guarded C27.Gen.retryable stmts hist w.

(** the literal specification of "transient": deadlock 1213, lock-wait timeout 1205, lost connection 2013,
    too many connections 1040, cannot connect 2003 — as the pymysql classes MySQL reports them with *)
Definition transient_spec (e : err) : bool :=
  match e_class e, e_code e with
  | OperationalError, Some c => (c =? 1040) || (c =? 1213) || (c =? 2003) || (c =? 2013)
  | InternalError, Some c => c =? 1205
  | _, _ => false
  end.

(** the same loop with the UNGUARDED rollback of the unfixed source (used only to document the defect) *)
Definition unguarded_run {W} (stmts : list W) (hist : list faults) (w : @world W) :=
  run lost_err C27.Gen.on_exit false C27.Gen.retryable stmts hist w.

(** instance evaluated by the correspondence: writes are integers, the pool starts empty or with one clean connection *)
Definition run_Z (stmts : list Z) (hist : list faults) (init : list Z) (dirty : bool) :=
  let w := mkWorld init (if dirty then Some (mkConn [(-99)] true true) else None) in
  let '(r, w', tr) := gen_run stmts hist w in (r, committed w', tr).
