(** C27 — the transaction model instantiated with the pieces GENERATED from the current gear/gear/database.py
    (retry classification, commit-or-rollback choice, rollback guard).  Definitions only. *)
From HailV Require Import Common.Prelude DbTx.Model.
From HailG Require C27.Gen.
Open Scope Z_scope.

(** aiomysql: any command on a connection that was lost raises InterfaceError("(0, 'Not connected')") — args[0] is a str *)
Definition lost_err : err := mkErr InterfaceError None.

Definition gen_attempt {W} (stmts : list W) (f : faults) (w : @world W) : option err * world :=
  attempt lost_err C27.Gen.on_exit C27.Gen.rollback_guarded stmts f w.

Definition gen_run {W} (stmts : list W) (hist : list faults) (w : @world W) : option err * world * list (option err * list W) :=
  run lost_err C27.Gen.on_exit C27.Gen.rollback_guarded C27.Gen.retryable stmts hist w.

(** the literal specification of "transient": deadlock 1213, lock-wait timeout 1205, lost connection 2013,
    too many connections 1040, cannot connect 2003 — as the pymysql classes MySQL reports them with *)
Definition transient_spec (e : err) : bool :=
  match e_class e, e_code e with
  | OperationalError, Some c => (c =? 1040) || (c =? 1213) || (c =? 2003) || (c =? 2013)
  | InternalError, Some c => c =? 1205
  | _, _ => false
  end.

(** the same loop with the UNGUARDED rollback of the unfixed source (used only to document the defect) *)
Definition unguarded_run {W} (stmts : list W) (hist : list faults) (w : @world W) :=
  run lost_err C27.Gen.on_exit false C27.Gen.retryable stmts hist w.

(** instance evaluated by the correspondence: writes are integers, the pool starts empty or with one clean connection *)
Definition run_Z (stmts : list Z) (hist : list faults) (init : list Z) (dirty : bool) :=
  let w := mkWorld init (if dirty then Some (mkConn [(-99)] true true) else None) in
  let '(r, w', tr) := gen_run stmts hist w in (r, committed w', tr).

(* ------------------------------------------------------------------------------------------------ *)
(** * The Database.* helpers *)

(** a helper call = the retry wrapper around ONE transaction running the plan GENERATED from the helper's source *)
Definition gen_helper_run {W} (c : helper_call W) (hist : list faults) (w : @world W) :=
  gen_run (C27.Gen.helper_plan c) hist w.

Definition stmt_fault (i : nat) (e : err) (eff : effect) : faults := mkFaults None None (Some (i, e, eff)) None None.
Definition commit_fault (e : err) (lost : bool) : faults := mkFaults None None None (Some (e, lost)) None.

Definition stmt_out_of_range (n : nat) (f : faults) : Prop :=
  match f_stmt f with None => True | Some (i, _, _) => (n <= i)%nat end.

(** "the plan [f] makes error [e] happen in an attempt on [n] statements": where the adversary can strike — at acquire,
    at START TRANSACTION, at ANY statement index below n (with any of the three effects), or at COMMIT *)
Inductive fault_site (n : nat) (f : faults) (e : err) : Prop :=
| AtAcquire : f_acquire f = Some e -> fault_site n f e
| AtStart l : f_acquire f = None -> f_start f = Some (e, l) -> fault_site n f e
| AtStatement i eff : f_acquire f = None -> f_start f = None -> f_stmt f = Some (i, e, eff) -> (i < n)%nat -> fault_site n f e
| AtCommit l : f_acquire f = None -> f_start f = None -> stmt_out_of_range n f -> f_commit f = Some (e, l) -> fault_site n f e.

(** [x] occurs in [final] exactly as often as in [init], plus [k] times its occurrences among [rows] *)
Definition occurs_plus {W} (dec : forall a b : W, {a = b} + {a <> b}) (final init rows : list W) (k : nat) : Prop :=
  forall x, count_occ dec final x = (count_occ dec init x + k * count_occ dec rows x)%nat.

(** instances evaluated by the correspondence for long argument arrays: rows 0 .. n-1, logs printed as runs *)
Definition zrange (n : Z) : list Z := map Z.of_nat (seq 0 (Z.to_nat n)).

Definition run_many_Z (n : Z) (hist : list faults) (init : list Z) :=
  let '(r, w', tr) := gen_helper_run (HExecuteMany (zrange n)) hist (mkWorld init None) in
  (r, runs (committed w'), map (fun x => (fst x, runs (snd x))) tr).

(** the bulk path: wire statements of k rows each; a statement's effect is its list of rows, the table is the concatenation *)
Definition run_chunks_Z (n k : Z) (hist : list faults) (init : list Z) :=
  let rows := zrange n in
  let '(r, w', tr) := gen_helper_run (HExecuteMany (chunks_of (length rows) (Z.to_nat k) rows)) hist (mkWorld [init] None) in
  (r, runs (concat (committed w')), map (fun x => (fst x, runs (concat (snd x)))) tr).

Definition run_helper_Z (c : helper_call Z) (hist : list faults) (init : list Z) :=
  let '(r, w', tr) := gen_helper_run c hist (mkWorld init None) in (r, committed w', tr).
