(** C27: the generated classification equals the literal specification; invariants of the transaction wrapper. *)
From HailV Require Import Common.Prelude DbTx.Model DbTx.Inst.
From HailG Require C27.Gen.
Open Scope Z_scope.

(* ------------------------------------------------------------------------------------------------ *)
(** * Generated pieces *)

Lemma gen_retryable_spec e : C27.Gen.retryable e = transient_spec e.
Proof.
  destruct e as [cls code].
  unfold C27.Gen.retryable, C27.Gen.exception_log_level_if_retryable, transient_spec.
  unfold code_in, dict_get, truthy_level, C27.Gen.internal_error_retry_codes, C27.Gen.operational_error_retry_codes,
    C27.Gen.operational_error_log_level.
  cbn [e_class e_code].
  destruct cls; cbn [is_instance eclass_eqb parent orb andb existsb assoc_get]; try reflexivity;
    destruct code as [c|]; try reflexivity;
    repeat match goal with
           | |- context [Z.eqb c ?b] => let H := fresh "H" in destruct (Z.eqb c b) eqn:H
           end; reflexivity.
Qed.

Lemma gen_exit_exc : C27.Gen.on_exit true = DoRollback.
Proof. reflexivity. Qed.

Lemma gen_exit_ok : C27.Gen.on_exit false = DoCommit.
Proof. reflexivity. Qed.

Lemma gen_rollback_guarded : C27.Gen.rollback_guarded = true.
Proof. reflexivity. Qed.

(* ------------------------------------------------------------------------------------------------ *)
(** * One attempt and the retry loop, for any guard flag / classification *)

Section Proofs.
  Context {W : Type}.
  Variable lost : err.
  Variable on_exit : bool -> exit_action.
  Hypothesis exit_exc : on_exit true = DoRollback.
  Hypothesis exit_ok : on_exit false = DoCommit.
  Variable guarded : bool.
  Variable retryable : err -> bool.

  Definition clean (c : @conn W) : Prop := pending c = [] /\ in_trans c = false /\ alive c = true.
  Definition clean_pool (w : @world W) : Prop := match free w with Some c => clean c | None => True end.

  Lemma exec_all_mk (xs : list W) : forall p t a, exec_all (mkConn p t a) xs = mkConn (p ++ xs) t a.
  Proof.
    induction xs as [|x xs IH]; intros p t a; cbn [exec_all].
    - rewrite app_nil_r. reflexivity.
    - unfold srv_exec; cbn [pending in_trans alive]. rewrite IH, <- app_assoc. reflexivity.
  Qed.

  Lemma acquire_clean w : clean_pool w -> clean (pool_acquire w).
  Proof.
    unfold clean_pool, pool_acquire. destruct (free w) as [c|]; intros H; [exact H|].
    unfold clean, fresh; cbn. auto.
  Qed.

  Notation att := (attempt lost on_exit guarded).

  Lemma attempt_atomic (stmts : list W) f w :
    clean_pool w ->
    clean_pool (snd (att stmts f w)) /\
    match fst (att stmts f w) with
    | None => committed (snd (att stmts f w)) = committed w ++ stmts
    | Some _ => committed (snd (att stmts f w)) = committed w
    end.
  Proof.
    intros Hc. unfold attempt.
    destruct (f_acquire f) as [ea|]; [cbn; split; [exact Hc|reflexivity]|].
    destruct (acquire_clean w Hc) as (Hp & Ht & Ha).
    destruct (pool_acquire w) as [p t a]; cbn in Hp, Ht, Ha; subst p t a.
    destruct (f_start f) as [[es ls]|].
    { destruct ls; cbn; unfold clean_pool, clean; cbn; auto. }
    unfold srv_begin; cbn [pending alive]. rewrite app_nil_r.
    destruct (f_stmt f) as [[[i e] eff]|].
    - destruct (i <? length stmts)%nat.
      + rewrite exec_all_mk. unfold leave. rewrite exit_exc.
        destruct eff; cbn; destruct (f_rollback f) as [er|]; cbn; destruct guarded; cbn;
          unfold clean_pool, clean; cbn; auto.
      + rewrite exec_all_mk. unfold leave. rewrite exit_ok. cbn.
        destruct (f_commit f) as [[ec lc]|]; cbn.
        * destruct lc; cbn; unfold clean_pool; cbn; auto.
        * unfold clean_pool, clean; cbn; auto.
    - rewrite exec_all_mk. unfold leave. rewrite exit_ok. cbn.
      destruct (f_commit f) as [[ec lc]|]; cbn.
      + destruct lc; cbn; unfold clean_pool; cbn; auto.
      + unfold clean_pool, clean; cbn; auto.
  Qed.

  Lemma attempt_no_faults (stmts : list W) w : clean_pool w -> fst (att stmts no_faults w) = None.
  Proof.
    intros Hc. unfold attempt, no_faults; cbn [f_acquire f_start f_stmt].
    destruct (acquire_clean w Hc) as (Hp & Ht & Ha).
    destruct (pool_acquire w) as [p t a]; cbn in Hp, Ht, Ha; subst p t a.
    unfold srv_begin; cbn [pending alive]. rewrite exec_all_mk. unfold leave. rewrite exit_ok. cbn. reflexivity.
  Qed.

  (** with the guard, the exception that ends an attempt whose body failed is the body's exception *)
  Lemma attempt_body_error (stmts : list W) f w i e eff :
    guarded = true ->
    f_acquire f = None -> f_start f = None -> f_stmt f = Some (i, e, eff) -> (i < length stmts)%nat ->
    fst (att stmts f w) = Some e.
  Proof.
    intros Hg Ha Hs Hst Hi. unfold attempt. rewrite Ha, Hs, Hst.
    apply Nat.ltb_lt in Hi. rewrite Hi.
    destruct (srv_begin (pool_acquire w) (committed w)) as [c1 log1].
    match goal with |- context [leave ?l ?o ?c ?lg ?b ?ff] => destruct (leave l o c lg b ff) as [[xe c3] log3] end.
    rewrite Hg. destruct xe; reflexivity.
  Qed.

  (** failures before the body: the exception is the injected one *)
  Lemma attempt_acquire_error (stmts : list W) f w e : f_acquire f = Some e -> att stmts f w = (Some e, w).
  Proof. intros H. unfold attempt. rewrite H. reflexivity. Qed.

  Lemma attempt_start_error (stmts : list W) f w e l :
    f_acquire f = None -> f_start f = Some (e, l) -> fst (att stmts f w) = Some e.
  Proof. intros Ha Hs. unfold attempt. rewrite Ha, Hs. reflexivity. Qed.

  Notation rn := (run lost on_exit guarded retryable).

  Lemma run_atomic (stmts : list W) : forall hist w,
    clean_pool w ->
    clean_pool (snd (fst (rn stmts hist w))) /\
    match fst (fst (rn stmts hist w)) with
    | None => committed (snd (fst (rn stmts hist w))) = committed w ++ stmts
    | Some _ => committed (snd (fst (rn stmts hist w))) = committed w
    end.
  Proof.
    induction hist as [|f rest IH]; intros w Hc; cbn [run].
    - pose proof (attempt_atomic stmts no_faults w Hc) as Hat.
      destruct (att stmts no_faults w) as [r w1]; cbn in *. exact Hat.
    - pose proof (attempt_atomic stmts f w Hc) as Hat.
      destruct (att stmts f w) as [r w1]; cbn [fst snd] in Hat. destruct Hat as (Hc1 & Hlog).
      destruct r as [e|]; [|cbn; auto].
      destruct (retryable e); [|cbn; auto].
      specialize (IH w1 Hc1). destruct (rn stmts rest w1) as [[r2 w2] tr]; cbn [fst snd] in *.
      rewrite Hlog in IH. exact IH.
  Qed.

  (** shape of the trace: retried attempts (retryable exception, log unchanged) then the last attempt *)
  Definition trace_ok (init stmts : list W) (r : option err) (tr : list (option err * list W)) : Prop :=
    exists pre last,
      tr = pre ++ [last] /\ fst last = r /\
      Forall (fun x => exists e, fst x = Some e /\ retryable e = true /\ snd x = init) pre /\
      match r with
      | None => snd last = init ++ stmts
      | Some e => retryable e = false /\ snd last = init
      end.

  Lemma run_trace (stmts : list W) : forall hist w,
    clean_pool w ->
    trace_ok (committed w) stmts (fst (fst (rn stmts hist w))) (snd (rn stmts hist w)) /\
    (length (snd (rn stmts hist w)) <= S (length hist))%nat.
  Proof.
    induction hist as [|f rest IH]; intros w Hc; cbn [run].
    - pose proof (attempt_atomic stmts no_faults w Hc) as Hat.
      pose proof (attempt_no_faults stmts w Hc) as Hnf.
      destruct (att stmts no_faults w) as [r w1]; cbn [fst snd] in *. subst r. destruct Hat as (_ & Hlog).
      split; [|cbn; lia].
      exists [], (None, committed w1). cbn. repeat split; auto.
    - pose proof (attempt_atomic stmts f w Hc) as Hat.
      destruct (att stmts f w) as [r w1]; cbn [fst snd] in Hat. destruct Hat as (Hc1 & Hlog).
      destruct r as [e|].
      + destruct (retryable e) eqn:Hre.
        * specialize (IH w1 Hc1). destruct (rn stmts rest w1) as [[r2 w2] tr]; cbn [fst snd] in *.
          destruct IH as ((pre & last & Htr & Hlast & Hpre & Hr) & Hlen). rewrite Hlog in *.
          split; [|cbn [length]; lia].
          exists ((Some e, committed w) :: pre), last. subst tr. cbn [app]. repeat split; auto.
          constructor; [|exact Hpre]. exists e. cbn. auto.
        * cbn [fst snd]. split; [|cbn; lia].
          exists [], (Some e, committed w1). cbn. repeat split; auto.
      + cbn [fst snd]. split; [|cbn; lia].
        exists [], (None, committed w1). cbn. repeat split; auto.
  Qed.
End Proofs.

(* ------------------------------------------------------------------------------------------------ *)
(** * Instantiated with the generated pieces *)

Section Gen.
  Context {W : Type}.

  Lemma gen_run_atomic (stmts : list W) hist w :
    clean_pool w ->
    let '(r, w', _) := gen_run stmts hist w in
    clean_pool w' /\
    match r with None => committed w' = committed w ++ stmts | Some _ => committed w' = committed w end.
  Proof.
    intros Hc.
    pose proof (run_atomic lost_err C27.Gen.on_exit gen_exit_exc gen_exit_ok C27.Gen.rollback_guarded C27.Gen.retryable
                           stmts hist w Hc) as H.
    unfold gen_run. destruct (run _ _ _ _ stmts hist w) as [[r w'] tr]. exact H.
  Qed.

  (** trace shape with the literal transient specification *)
  Definition trace_spec (init stmts : list W) (r : option err) (tr : list (option err * list W)) : Prop :=
    exists pre last,
      tr = pre ++ [last] /\ fst last = r /\
      Forall (fun x => exists e, fst x = Some e /\ transient_spec e = true /\ snd x = init) pre /\
      match r with
      | None => snd last = init ++ stmts
      | Some e => transient_spec e = false /\ snd last = init
      end.

  Lemma gen_run_trace (stmts : list W) hist w :
    clean_pool w ->
    let '(r, _, tr) := gen_run stmts hist w in
    trace_spec (committed w) stmts r tr /\ (length tr <= S (length hist))%nat.
  Proof.
    intros Hc.
    pose proof (run_trace lost_err C27.Gen.on_exit gen_exit_exc gen_exit_ok C27.Gen.rollback_guarded C27.Gen.retryable
                          stmts hist w Hc) as H.
    unfold gen_run. destruct (run _ _ _ _ stmts hist w) as [[r w'] tr]. cbn [fst snd] in H.
    destruct H as ((pre & last & Htr & Hlast & Hpre & Hr) & Hlen). split; [|exact Hlen].
    exists pre, last. repeat split; auto.
    - eapply Forall_impl; [|exact Hpre]. intros x (e & He & Hre & Hx). exists e.
      rewrite gen_retryable_spec in Hre. auto.
    - destruct r as [e|]; [|exact Hr]. rewrite gen_retryable_spec in Hr. exact Hr.
  Qed.

  Lemma gen_attempt_body_error (stmts : list W) f w i e eff :
    f_acquire f = None -> f_start f = None -> f_stmt f = Some (i, e, eff) -> (i < length stmts)%nat ->
    fst (gen_attempt stmts f w) = Some e.
  Proof. apply attempt_body_error. exact gen_rollback_guarded. Qed.

  Lemma gen_attempt_acquire_error (stmts : list W) f w e :
    f_acquire f = Some e -> gen_attempt stmts f w = (Some e, w).
  Proof. apply attempt_acquire_error. Qed.

  Lemma gen_attempt_start_error (stmts : list W) f w e l :
    f_acquire f = None -> f_start f = Some (e, l) -> fst (gen_attempt stmts f w) = Some e.
  Proof. apply attempt_start_error. Qed.

  Lemma gen_attempt_atomic (stmts : list W) f w :
    clean_pool w ->
    clean_pool (snd (gen_attempt stmts f w)) /\
    match fst (gen_attempt stmts f w) with
    | None => committed (snd (gen_attempt stmts f w)) = committed w ++ stmts
    | Some _ => committed (snd (gen_attempt stmts f w)) = committed w
    end.
  Proof. apply attempt_atomic; [exact gen_exit_exc | exact gen_exit_ok]. Qed.
End Gen.

(* ------------------------------------------------------------------------------------------------ *)
(** * Concrete runs; the hypotheses are satisfiable; the defect of the unguarded rollback *)

Definition e2013 : err := mkErr OperationalError (Some 2013).
Definition e1213 : err := mkErr OperationalError (Some 1213).
Definition e1205 : err := mkErr InternalError (Some 1205).
Definition e1062 : err := mkErr IntegrityError (Some 1062).
Definition stmt_fault (i : nat) (e : err) (eff : effect) : faults := mkFaults None None (Some (i, e, eff)) None None.

Example ex_clean_pool : clean_pool (mkWorld [100] (@None (@conn Z))) /\ clean_pool (mkWorld [100] (Some (@fresh Z))).
Proof. split; unfold clean_pool, clean; cbn; auto. Qed.

(** lost connection at statement #1: with the guard the 2013 reaches the wrapper and the transaction is retried ... *)
Example ex_lost_connection_retried :
  gen_run [1; 2; 3] [stmt_fault 1 e2013 ConnLost] (mkWorld [100] None)
  = (None, mkWorld [100; 1; 2; 3] (Some fresh), [(Some e2013, [100]); (None, [100; 1; 2; 3])]).
Proof. vm_compute. reflexivity. Qed.

(** ... whereas the unguarded rollback (unfixed source) lets aiomysql's "Not connected" InterfaceError replace it:
    the lost connection is NOT retried. *)
Example ex_unguarded_lost_connection_not_retried :
  unguarded_run [1; 2; 3] [stmt_fault 1 e2013 ConnLost] (mkWorld [100] None)
  = (Some lost_err, mkWorld [100] None, [(Some lost_err, [100])]).
Proof. vm_compute. reflexivity. Qed.

(** ... and a non-transient failure whose rollback hits a lost connection IS retried by the unguarded version *)
Example ex_unguarded_duplicate_key_retried :
  unguarded_run [1; 2] [mkFaults None None (Some (1%nat, e1062, StmtOnly)) None (Some e2013)] (mkWorld [] None)
  = (None, mkWorld [1; 2] (Some fresh), [(Some e2013, []); (None, [1; 2])]).
Proof. vm_compute. reflexivity. Qed.

Example ex_deadlock_timeout_commit_loss :
  gen_run [1; 2; 3]
    [stmt_fault 1 e1213 TxnRolledBack; stmt_fault 2 e1205 StmtOnly; mkFaults None None None (Some (e2013, true)) None]
    (mkWorld [100] None)
  = (None, mkWorld [100; 1; 2; 3] (Some fresh),
     [(Some e1213, [100]); (Some e1205, [100]); (Some e2013, [100]); (None, [100; 1; 2; 3])]).
Proof. vm_compute. reflexivity. Qed.

Example ex_duplicate_key_not_retried :
  gen_run [1; 2] [stmt_fault 1 e1062 StmtOnly] (mkWorld [] None)
  = (Some e1062, mkWorld [] (Some fresh), [(Some e1062, [])]).
Proof. vm_compute. reflexivity. Qed.

(** why the invariant matters: a dirty connection in the pool would have its writes committed by START TRANSACTION *)
Example ex_dirty_pool_leaks :
  gen_run [1] [] (mkWorld [] (Some (mkConn [(-99)] true true))) = (None, mkWorld [(-99); 1] (Some fresh), [(None, [(-99); 1])]).
Proof. vm_compute. reflexivity. Qed.
