(** C27: the generated classification equals the literal specification; invariants of the transaction wrapper. *)
From HailV Require Import Common.Prelude DbTx.Model DbTx.Inst.
From HailG Require C27.Gen.
Open Scope Z_scope.

(* ------------------------------------------------------------------------------------------------ *)
(** * Generated pieces *)

Lemma gen_retryable_spec e : C27.Gen.retryable e = transient_spec e.
Proof.
  destruct e as [cls code].
  unfold C27.Gen.retryable, C27.Gen.exception_log_level_if_retryable, transient_spec.
  unfold code_in, dict_get, truthy_level, C27.Gen.internal_error_retry_codes, C27.Gen.operational_error_retry_codes,
    C27.Gen.operational_error_log_level.
  cbn [e_class e_code].
  destruct cls; cbn [is_instance eclass_eqb parent orb andb existsb assoc_get]; try reflexivity;
    destruct code as [c|]; try reflexivity;
    repeat match goal with
           | |- context [Z.eqb c ?b] => let H := fresh "H" in destruct (Z.eqb c b) eqn:H
           end; reflexivity.
Qed.

Lemma gen_exit_exc : C27.Gen.on_exit true = DoRollback.
Proof. reflexivity. Qed.

Lemma gen_exit_ok : C27.Gen.on_exit false = DoCommit.
Proof. reflexivity. Qed.

Lemma gen_rollback_guarded : C27.Gen.rollback_guarded = true.
Proof. reflexivity. Qed.

(* ------------------------------------------------------------------------------------------------ *)
(** * One attempt and the retry loop, for any guard flag / classification *)

Section Proofs.
  Context {W : Type}.
  Variable lost : err.
  Variable on_exit : bool -> exit_action.
  Hypothesis exit_exc : on_exit true = DoRollback.
  Hypothesis exit_ok : on_exit false = DoCommit.
  Variable guarded : bool.
  Variable retryable : err -> bool.

  Definition clean (c : @conn W) : Prop := pending c = [] /\ in_trans c = false /\ alive c = true.
  Definition clean_pool (w : @world W) : Prop := match free w with Some c => clean c | None => True end.

  Lemma exec_all_mk (xs : list W) : forall p t a, exec_all (mkConn p t a) xs = mkConn (p ++ xs) t a.
  Proof.
    induction xs as [|x xs IH]; intros p t a; cbn [exec_all].
    - rewrite app_nil_r. reflexivity.
    - unfold srv_exec; cbn [pending in_trans alive]. rewrite IH, <- app_assoc. reflexivity.
  Qed.

  Lemma acquire_clean w : clean_pool w -> clean (pool_acquire w).
  Proof.
    unfold clean_pool, pool_acquire. destruct (free w) as [c|]; intros H; [exact H|].
    unfold clean, fresh; cbn. auto.
  Qed.

  Notation att := (attempt lost on_exit guarded).

  Lemma attempt_atomic (stmts : list W) f w :
    clean_pool w ->
    clean_pool (snd (att stmts f w)) /\
    match fst (att stmts f w) with
    | None => committed (snd (att stmts f w)) = committed w ++ stmts
    | Some _ => committed (snd (att stmts f w)) = committed w
    end.
  Proof.
    intros Hc. unfold attempt.
    destruct (f_acquire f) as [ea|]; [cbn; split; [exact Hc|reflexivity]|].
    destruct (acquire_clean w Hc) as (Hp & Ht & Ha).
    destruct (pool_acquire w) as [p t a]; cbn in Hp, Ht, Ha; subst p t a.
    destruct (f_start f) as [[es ls]|].
    { destruct ls; cbn; unfold clean_pool, clean; cbn; auto. }
    unfold srv_begin; cbn [pending alive]. rewrite app_nil_r.
    destruct (f_stmt f) as [[[i e] eff]|].
    - destruct (i <? length stmts)%nat.
      + rewrite exec_all_mk. unfold leave. rewrite exit_exc.
        destruct eff; cbn; destruct (f_rollback f) as [er|]; cbn; destruct guarded; cbn;
          unfold clean_pool, clean; cbn; auto.
      + rewrite exec_all_mk. unfold leave. rewrite exit_ok. cbn.
        destruct (f_commit f) as [[ec lc]|]; cbn.
        * destruct lc; cbn; unfold clean_pool; cbn; auto.
        * unfold clean_pool, clean; cbn; auto.
    - rewrite exec_all_mk. unfold leave. rewrite exit_ok. cbn.
      destruct (f_commit f) as [[ec lc]|]; cbn.
      + destruct lc; cbn; unfold clean_pool; cbn; auto.
      + unfold clean_pool, clean; cbn; auto.
  Qed.

  Lemma attempt_no_faults (stmts : list W) w : clean_pool w -> fst (att stmts no_faults w) = None.
  Proof.
    intros Hc. unfold attempt, no_faults; cbn [f_acquire f_start f_stmt].
    destruct (acquire_clean w Hc) as (Hp & Ht & Ha).
    destruct (pool_acquire w) as [p t a]; cbn in Hp, Ht, Ha; subst p t a.
    unfold srv_begin; cbn [pending alive]. rewrite exec_all_mk. unfold leave. rewrite exit_ok. cbn. reflexivity.
  Qed.

  (** with the guard, the exception that ends an attempt whose body failed is the body's exception *)
  Lemma attempt_body_error (stmts : list W) f w i e eff :
    guarded = true ->
    f_acquire f = None -> f_start f = None -> f_stmt f = Some (i, e, eff) -> (i < length stmts)%nat ->
    fst (att stmts f w) = Some e.
  Proof.
    intros Hg Ha Hs Hst Hi. unfold attempt. rewrite Ha, Hs, Hst.
    apply Nat.ltb_lt in Hi. rewrite Hi.
    destruct (srv_begin (pool_acquire w) (committed w)) as [c1 log1].
    match goal with |- context [leave ?l ?o ?c ?lg ?b ?ff] => destruct (leave l o c lg b ff) as [[xe c3] log3] end.
    rewrite Hg. destruct xe; reflexivity.
  Qed.

  (** failures before the body: the exception is the injected one *)
  Lemma attempt_acquire_error (stmts : list W) f w e : f_acquire f = Some e -> att stmts f w = (Some e, w).
  Proof. intros H. unfold attempt. rewrite H. reflexivity. Qed.

  Lemma attempt_start_error (stmts : list W) f w e l :
    f_acquire f = None -> f_start f = Some (e, l) -> fst (att stmts f w) = Some e.
  Proof. intros Ha Hs. unfold attempt. rewrite Ha, Hs. reflexivity. Qed.

  Notation rn := (run lost on_exit guarded retryable).

  Lemma run_atomic (stmts : list W) : forall hist w,
    clean_pool w ->
    clean_pool (snd (fst (rn stmts hist w))) /\
    match fst (fst (rn stmts hist w)) with
    | None => committed (snd (fst (rn stmts hist w))) = committed w ++ stmts
    | Some _ => committed (snd (fst (rn stmts hist w))) = committed w
    end.
  Proof.
    induction hist as [|f rest IH]; intros w Hc; cbn [run].
    - pose proof (attempt_atomic stmts no_faults w Hc) as Hat.
      destruct (att stmts no_faults w) as [r w1]; cbn in *. exact Hat.
    - pose proof (attempt_atomic stmts f w Hc) as Hat.
      destruct (att stmts f w) as [r w1]; cbn [fst snd] in Hat. destruct Hat as (Hc1 & Hlog).
      destruct r as [e|]; [|cbn; auto].
      destruct (retryable e); [|cbn; auto].
      specialize (IH w1 Hc1). destruct (rn stmts rest w1) as [[r2 w2] tr]; cbn [fst snd] in *.
      rewrite Hlog in IH. exact IH.
  Qed.

  (** shape of the trace: retried attempts (retryable exception, log unchanged) then the last attempt *)
  Definition trace_ok (init stmts : list W) (r : option err) (tr : list (option err * list W)) : Prop :=
    exists pre last,
      tr = pre ++ [last] /\ fst last = r /\
      Forall (fun x => exists e, fst x = Some e /\ retryable e = true /\ snd x = init) pre /\
      match r with
      | None => snd last = init ++ stmts
      | Some e => retryable e = false /\ snd last = init
      end.

  Lemma run_trace (stmts : list W) : forall hist w,
    clean_pool w ->
    trace_ok (committed w) stmts (fst (fst (rn stmts hist w))) (snd (rn stmts hist w)) /\
    (length (snd (rn stmts hist w)) <= S (length hist))%nat.
  Proof.
    induction hist as [|f rest IH]; intros w Hc; cbn [run].
    - pose proof (attempt_atomic stmts no_faults w Hc) as Hat.
      pose proof (attempt_no_faults stmts w Hc) as Hnf.
      destruct (att stmts no_faults w) as [r w1]; cbn [fst snd] in *. subst r. destruct Hat as (_ & Hlog).
      split; [|cbn; lia].
      exists [], (None, committed w1). cbn. repeat split; auto.
    - pose proof (attempt_atomic stmts f w Hc) as Hat.
      destruct (att stmts f w) as [r w1]; cbn [fst snd] in Hat. destruct Hat as (Hc1 & Hlog).
      destruct r as [e|].
      + destruct (retryable e) eqn:Hre.
        * specialize (IH w1 Hc1). destruct (rn stmts rest w1) as [[r2 w2] tr]; cbn [fst snd] in *.
          destruct IH as ((pre & last & Htr & Hlast & Hpre & Hr) & Hlen). rewrite Hlog in *.
          split; [|cbn [length]; lia].
          exists ((Some e, committed w) :: pre), last. subst tr. cbn [app]. repeat split; auto.
          constructor; [|exact Hpre]. exists e. cbn. auto.
        * cbn [fst snd]. split; [|cbn; lia].
          exists [], (Some e, committed w1). cbn. repeat split; auto.
      + cbn [fst snd]. split; [|cbn; lia].
        exists [], (None, committed w1). cbn. repeat split; auto.
  Qed.

  (** a fault at COMMIT (no earlier fault fires) is the exception of the attempt *)
  Lemma attempt_commit_error (stmts : list W) f w e l :
    clean_pool w ->
    f_acquire f = None -> f_start f = None -> stmt_out_of_range (length stmts) f -> f_commit f = Some (e, l) ->
    fst (att stmts f w) = Some e.
  Proof.
    intros Hc Ha Hs Hr Hcm. unfold attempt. rewrite Ha, Hs.
    destruct (acquire_clean w Hc) as (Hp & Ht & Hal).
    destruct (pool_acquire w) as [p t a]; cbn in Hp, Ht, Hal; subst p t a.
    unfold srv_begin; cbn [pending alive].
    unfold stmt_out_of_range in Hr.
    destruct (f_stmt f) as [[[i e'] eff]|].
    - apply Nat.ltb_ge in Hr. rewrite Hr. rewrite exec_all_mk. unfold leave. rewrite exit_ok. cbn. rewrite Hcm.
      destruct l; reflexivity.
    - rewrite exec_all_mk. unfold leave. rewrite exit_ok. cbn. rewrite Hcm. destruct l; reflexivity.
  Qed.

  (** wherever the adversary strikes (acquire, START TRANSACTION, ANY statement index, COMMIT), the injected error is the
      exception that reaches the retry wrapper ... *)
  Lemma attempt_fault_site (stmts : list W) f w e :
    guarded = true -> clean_pool w -> fault_site (length stmts) f e -> fst (att stmts f w) = Some e.
  Proof.
    intros Hg Hc Hsite. destruct Hsite as [Ha | l Ha Hs | i eff Ha Hs Hst Hi | l Ha Hs Hr Hcm].
    - rewrite (attempt_acquire_error stmts f w e Ha). reflexivity.
    - exact (attempt_start_error stmts f w e l Ha Hs).
    - exact (attempt_body_error stmts f w i e eff Hg Ha Hs Hst Hi).
    - exact (attempt_commit_error stmts f w e l Hc Ha Hs Hr Hcm).
  Qed.

  (** ... and when no fault fires the attempt succeeds *)
  Lemma attempt_no_fault_site (stmts : list W) f w :
    clean_pool w -> (forall e, ~ fault_site (length stmts) f e) -> fst (att stmts f w) = None.
  Proof.
    intros Hc Hno.
    destruct (f_acquire f) as [ea|] eqn:Ha; [exfalso; exact (Hno ea (AtAcquire _ _ _ Ha))|].
    destruct (f_start f) as [[es ls]|] eqn:Hs; [exfalso; exact (Hno es (AtStart _ _ _ ls Ha Hs))|].
    unfold attempt. rewrite Ha, Hs.
    destruct (acquire_clean w Hc) as (Hp & Ht & Hal).
    destruct (pool_acquire w) as [p t a]; cbn in Hp, Ht, Hal; subst p t a.
    unfold srv_begin; cbn [pending alive].
    destruct (f_stmt f) as [[[i e'] eff]|] eqn:Hst.
    - destruct (i <? length stmts)%nat eqn:Hi.
      + apply Nat.ltb_lt in Hi. exfalso. exact (Hno e' (AtStatement _ _ _ i eff Ha Hs Hst Hi)).
      + apply Nat.ltb_ge in Hi.
        rewrite exec_all_mk. unfold leave. rewrite exit_ok. cbn.
        destruct (f_commit f) as [[ec lc]|] eqn:Hcm; [|reflexivity].
        exfalso. apply (Hno ec). apply (AtCommit _ _ _ lc Ha Hs); [|exact Hcm].
        unfold stmt_out_of_range. rewrite Hst. exact Hi.
    - rewrite exec_all_mk. unfold leave. rewrite exit_ok. cbn.
      destruct (f_commit f) as [[ec lc]|] eqn:Hcm; [|reflexivity].
      exfalso. apply (Hno ec). apply (AtCommit _ _ _ lc Ha Hs); [|exact Hcm].
      unfold stmt_out_of_range. rewrite Hst. exact I.
  Qed.

  Lemma run_cons_final (stmts : list W) f rest w e :
    fst (att stmts f w) = Some e -> retryable e = false ->
    rn stmts (f :: rest) w = (Some e, snd (att stmts f w), [(Some e, committed (snd (att stmts f w)))]).
  Proof.
    intros H Hr. cbn [run]. destruct (att stmts f w) as [r w1]; cbn [fst snd] in *. subst r. rewrite Hr. reflexivity.
  Qed.

  Lemma run_cons_retry (stmts : list W) f rest w e :
    fst (att stmts f w) = Some e -> retryable e = true ->
    rn stmts (f :: rest) w =
    (let '(r2, w2, tr) := rn stmts rest (snd (att stmts f w)) in (r2, w2, (Some e, committed (snd (att stmts f w))) :: tr)).
  Proof.
    intros H Hr. cbn [run]. destruct (att stmts f w) as [r w1]; cbn [fst snd] in *. subst r. rewrite Hr. reflexivity.
  Qed.

  (** the first attempt is hit by a fault anywhere: nothing is committed by it; a non-retryable error ends the call at once
      (log = initial), a retryable one makes the WHOLE statement list run again from an unchanged log and a clean pool *)
  Lemma run_fault_first (stmts : list W) f rest w e :
    guarded = true -> clean_pool w -> fault_site (length stmts) f e ->
    exists w1, clean_pool w1 /\ committed w1 = committed w /\
      rn stmts (f :: rest) w =
      if retryable e
      then (let '(r2, w2, tr) := rn stmts rest w1 in (r2, w2, (Some e, committed w) :: tr))
      else (Some e, w1, [(Some e, committed w)]).
  Proof.
    intros Hg Hc Hsite.
    pose proof (attempt_fault_site stmts f w e Hg Hc Hsite) as Hfst.
    pose proof (attempt_atomic stmts f w Hc) as (Hc1 & Hlog). rewrite Hfst in Hlog.
    exists (snd (att stmts f w)). split; [exact Hc1|]. split; [exact Hlog|].
    destruct (retryable e) eqn:Hre.
    - rewrite (run_cons_retry stmts f rest w e Hfst Hre). rewrite Hlog. reflexivity.
    - rewrite (run_cons_final stmts f rest w e Hfst Hre). rewrite Hlog. reflexivity.
  Qed.

  (** one retryable fault anywhere, then no further fault: every statement is committed exactly once *)
  Lemma run_single_retry (stmts : list W) f w e :
    guarded = true -> clean_pool w -> fault_site (length stmts) f e -> retryable e = true ->
    exists w2, clean_pool w2 /\ committed w2 = committed w ++ stmts /\
      rn stmts [f] w = (None, w2, [(Some e, committed w); (None, committed w ++ stmts)]).
  Proof.
    intros Hg Hc Hsite Hre.
    destruct (run_fault_first stmts f [] w e Hg Hc Hsite) as (w1 & Hc1 & Hlog1 & Hrun).
    rewrite Hre in Hrun. rewrite Hrun. clear Hrun. cbn [run].
    pose proof (attempt_atomic stmts no_faults w1 Hc1) as (Hc2 & Hlog2).
    pose proof (attempt_no_faults stmts w1 Hc1) as Hnf.
    destruct (att stmts no_faults w1) as [r w2]; cbn [fst snd] in *. subst r.
    exists w2. rewrite Hlog1 in Hlog2. split; [exact Hc2|]. split; [exact Hlog2|].
    rewrite Hlog2. reflexivity.
  Qed.
End Proofs.

(* ------------------------------------------------------------------------------------------------ *)
(** * Instantiated with the generated pieces *)

Section Gen.
  Context {W : Type}.

  Lemma gen_run_atomic (stmts : list W) hist w :
    clean_pool w ->
    let '(r, w', _) := gen_run stmts hist w in
    clean_pool w' /\
    match r with None => committed w' = committed w ++ stmts | Some _ => committed w' = committed w end.
  Proof.
    intros Hc.
    pose proof (run_atomic lost_err C27.Gen.on_exit gen_exit_exc gen_exit_ok C27.Gen.rollback_guarded C27.Gen.retryable
                           stmts hist w Hc) as H.
    unfold gen_run. destruct (run _ _ _ _ stmts hist w) as [[r w'] tr]. exact H.
  Qed.

  (** trace shape with the literal transient specification *)
  Definition trace_spec (init stmts : list W) (r : option err) (tr : list (option err * list W)) : Prop :=
    exists pre last,
      tr = pre ++ [last] /\ fst last = r /\
      Forall (fun x => exists e, fst x = Some e /\ transient_spec e = true /\ snd x = init) pre /\
      match r with
      | None => snd last = init ++ stmts
      | Some e => transient_spec e = false /\ snd last = init
      end.

  Lemma gen_run_trace (stmts : list W) hist w :
    clean_pool w ->
    let '(r, _, tr) := gen_run stmts hist w in
    trace_spec (committed w) stmts r tr /\ (length tr <= S (length hist))%nat.
  Proof.
    intros Hc.
    pose proof (run_trace lost_err C27.Gen.on_exit gen_exit_exc gen_exit_ok C27.Gen.rollback_guarded C27.Gen.retryable
                          stmts hist w Hc) as H.
    unfold gen_run. destruct (run _ _ _ _ stmts hist w) as [[r w'] tr]. cbn [fst snd] in H.
    destruct H as ((pre & last & Htr & Hlast & Hpre & Hr) & Hlen). split; [|exact Hlen].
    exists pre, last. repeat split; auto.
    - eapply Forall_impl; [|exact Hpre]. intros x (e & He & Hre & Hx). exists e.
      rewrite gen_retryable_spec in Hre. auto.
    - destruct r as [e|]; [|exact Hr]. rewrite gen_retryable_spec in Hr. exact Hr.
  Qed.

  Lemma gen_attempt_body_error (stmts : list W) f w i e eff :
    f_acquire f = None -> f_start f = None -> f_stmt f = Some (i, e, eff) -> (i < length stmts)%nat ->
    fst (gen_attempt stmts f w) = Some e.
  Proof. apply attempt_body_error. exact gen_rollback_guarded. Qed.

  Lemma gen_attempt_acquire_error (stmts : list W) f w e :
    f_acquire f = Some e -> gen_attempt stmts f w = (Some e, w).
  Proof. apply attempt_acquire_error. Qed.

  Lemma gen_attempt_start_error (stmts : list W) f w e l :
    f_acquire f = None -> f_start f = Some (e, l) -> fst (gen_attempt stmts f w) = Some e.
  Proof. apply attempt_start_error. Qed.

  Lemma gen_attempt_atomic (stmts : list W) f w :
    clean_pool w ->
    clean_pool (snd (gen_attempt stmts f w)) /\
    match fst (gen_attempt stmts f w) with
    | None => committed (snd (gen_attempt stmts f w)) = committed w ++ stmts
    | Some _ => committed (snd (gen_attempt stmts f w)) = committed w
    end.
  Proof. apply attempt_atomic; [exact gen_exit_exc | exact gen_exit_ok]. Qed.

  Lemma gen_attempt_fails_iff_fault (stmts : list W) f w :
    clean_pool w ->
    (forall e, fault_site (length stmts) f e -> fst (gen_attempt stmts f w) = Some e) /\
    ((forall e, ~ fault_site (length stmts) f e) -> fst (gen_attempt stmts f w) = None).
  Proof.
    intros Hc. split.
    - intros e Hsite. exact (attempt_fault_site lost_err C27.Gen.on_exit gen_exit_ok C27.Gen.rollback_guarded
                                                stmts f w e gen_rollback_guarded Hc Hsite).
    - intros Hno. exact (attempt_no_fault_site lost_err C27.Gen.on_exit gen_exit_ok C27.Gen.rollback_guarded
                                               stmts f w Hc Hno).
  Qed.

  (** ** the Database.* helpers *)

  (** the plan regenerated from the helpers' source is the hand specification: one transaction, the single statement,
      resp. the WHOLE argument array of execute_many *)
  Lemma gen_helper_plan_spec (c : helper_call W) : C27.Gen.helper_plan c = helper_stmts c.
  Proof. destruct c; reflexivity. Qed.

  Lemma gen_helper_trace (c : helper_call W) hist w :
    clean_pool w ->
    let '(r, _, tr) := gen_helper_run c hist w in
    trace_spec (committed w) (helper_stmts c) r tr /\ (length tr <= S (length hist))%nat.
  Proof. intros Hc. unfold gen_helper_run. rewrite gen_helper_plan_spec. exact (gen_run_trace (helper_stmts c) hist w Hc). Qed.

  Lemma gen_helper_atomic (c : helper_call W) hist w :
    clean_pool w ->
    let '(r, w', _) := gen_helper_run c hist w in
    clean_pool w' /\
    match r with None => committed w' = committed w ++ helper_stmts c | Some _ => committed w' = committed w end.
  Proof. intros Hc. unfold gen_helper_run. rewrite gen_helper_plan_spec. exact (gen_run_atomic (helper_stmts c) hist w Hc). Qed.

  Lemma gen_fault_first (stmts : list W) f rest w e :
    clean_pool w -> fault_site (length stmts) f e ->
    exists w1, clean_pool w1 /\ committed w1 = committed w /\
      gen_run stmts (f :: rest) w =
      if transient_spec e
      then (let '(r2, w2, tr) := gen_run stmts rest w1 in (r2, w2, (Some e, committed w) :: tr))
      else (Some e, w1, [(Some e, committed w)]).
  Proof.
    intros Hc Hsite. unfold gen_run. rewrite <- gen_retryable_spec.
    exact (run_fault_first lost_err C27.Gen.on_exit gen_exit_exc gen_exit_ok C27.Gen.rollback_guarded C27.Gen.retryable
                           stmts f rest w e gen_rollback_guarded Hc Hsite).
  Qed.

  Lemma gen_execute_many_fault_first (rows : list W) f rest w e :
    clean_pool w -> fault_site (length rows) f e ->
    exists w1, clean_pool w1 /\ committed w1 = committed w /\
      gen_helper_run (HExecuteMany rows) (f :: rest) w =
      if transient_spec e
      then (let '(r2, w2, tr) := gen_helper_run (HExecuteMany rows) rest w1 in (r2, w2, (Some e, committed w) :: tr))
      else (Some e, w1, [(Some e, committed w)]).
  Proof. intros Hc Hsite. unfold gen_helper_run. rewrite gen_helper_plan_spec. exact (gen_fault_first rows f rest w e Hc Hsite). Qed.

  Lemma gen_execute_many_retried_once (rows : list W) f w e :
    clean_pool w -> fault_site (length rows) f e -> transient_spec e = true ->
    exists w2, clean_pool w2 /\ committed w2 = committed w ++ rows /\
      gen_helper_run (HExecuteMany rows) [f] w = (None, w2, [(Some e, committed w); (None, committed w ++ rows)]).
  Proof.
    intros Hc Hsite Htr. unfold gen_helper_run. rewrite gen_helper_plan_spec. cbn [helper_stmts]. unfold gen_run.
    rewrite <- gen_retryable_spec in Htr.
    exact (run_single_retry lost_err C27.Gen.on_exit gen_exit_exc gen_exit_ok C27.Gen.rollback_guarded C27.Gen.retryable
                            rows f w e gen_rollback_guarded Hc Hsite Htr).
  Qed.

  (** row-level reading: every row is in the table exactly once more after success, exactly as often as before after failure *)
  Lemma gen_helper_exactly_once (dec : forall a b : W, {a = b} + {a <> b}) (c : helper_call W) hist w :
    clean_pool w ->
    let '(r, w', _) := gen_helper_run c hist w in
    occurs_plus dec (committed w') (committed w) (helper_stmts c) (match r with None => 1 | Some _ => 0 end).
  Proof.
    intros Hc. pose proof (gen_helper_atomic c hist w Hc) as H.
    destruct (gen_helper_run c hist w) as [[r w'] tr]. destruct H as (_ & Hlog).
    unfold occurs_plus. intros x. destruct r as [e|]; rewrite Hlog.
    - cbn. lia.
    - rewrite count_occ_app. lia.
  Qed.
End Gen.

(** aiomysql's bulk path sends the argument array as a sequence of multi-row statements: however the array is cut into
    statements, the table (concatenation of the committed statements' rows) gains all rows once or nothing *)
Lemma gen_execute_many_chunked {W} (chunks : list (list W)) hist (w : @world (list W)) :
  clean_pool w ->
  let '(r, w', _) := gen_helper_run (HExecuteMany chunks) hist w in
  clean_pool w' /\
  concat (committed w') = concat (committed w) ++ match r with None => concat chunks | Some _ => [] end.
Proof.
  intros Hc. pose proof (gen_helper_atomic (HExecuteMany chunks) hist w Hc) as H.
  destruct (gen_helper_run (HExecuteMany chunks) hist w) as [[r w'] tr]. destruct H as (Hc' & Hlog).
  split; [exact Hc'|]. destruct r as [e|]; rewrite Hlog.
  - rewrite app_nil_r. reflexivity.
  - cbn [helper_stmts]. apply concat_app.
Qed.

Lemma concat_chunks_of {A} (k : nat) : (1 <= k)%nat -> forall fuel (l : list A), (length l <= fuel)%nat -> concat (chunks_of fuel k l) = l.
Proof.
  intros Hk. induction fuel as [|fuel IH]; intros l Hl.
  - destruct l; [reflexivity|cbn in Hl; lia].
  - destruct l as [|x l']; [reflexivity|].
    cbn [chunks_of concat]. rewrite IH.
    + apply firstn_skipn.
    + rewrite skipn_length. cbn [length] in *. lia.
Qed.

(* ------------------------------------------------------------------------------------------------ *)
(** * Concrete runs; the hypotheses are satisfiable; the defect of the unguarded rollback *)

Definition e2013 : err := mkErr OperationalError (Some 2013).
Definition e1213 : err := mkErr OperationalError (Some 1213).
Definition e1205 : err := mkErr InternalError (Some 1205).
Definition e1062 : err := mkErr IntegrityError (Some 1062).

Example ex_clean_pool : clean_pool (mkWorld [100] (@None (@conn Z))) /\ clean_pool (mkWorld [100] (Some (@fresh Z))).
Proof. split; unfold clean_pool, clean; cbn; auto. Qed.

(** lost connection at statement #1: with the guard the 2013 reaches the wrapper and the transaction is retried ... *)
Example ex_lost_connection_retried :
  gen_run [1; 2; 3] [stmt_fault 1 e2013 ConnLost] (mkWorld [100] None)
  = (None, mkWorld [100; 1; 2; 3] (Some fresh), [(Some e2013, [100]); (None, [100; 1; 2; 3])]).
Proof. vm_compute. reflexivity. Qed.

(** ... whereas the unguarded rollback (unfixed source) lets aiomysql's "Not connected" InterfaceError replace it:
    the lost connection is NOT retried. *)
Example ex_unguarded_lost_connection_not_retried :
  unguarded_run [1; 2; 3] [stmt_fault 1 e2013 ConnLost] (mkWorld [100] None)
  = (Some lost_err, mkWorld [100] None, [(Some lost_err, [100])]).
Proof. vm_compute. reflexivity. Qed.

(** ... and a non-transient failure whose rollback hits a lost connection IS retried by the unguarded version *)
Example ex_unguarded_duplicate_key_retried :
  unguarded_run [1; 2] [mkFaults None None (Some (1%nat, e1062, StmtOnly)) None (Some e2013)] (mkWorld [] None)
  = (None, mkWorld [1; 2] (Some fresh), [(Some e2013, []); (None, [1; 2])]).
Proof. vm_compute. reflexivity. Qed.

Example ex_deadlock_timeout_commit_loss :
  gen_run [1; 2; 3]
    [stmt_fault 1 e1213 TxnRolledBack; stmt_fault 2 e1205 StmtOnly; mkFaults None None None (Some (e2013, true)) None]
    (mkWorld [100] None)
  = (None, mkWorld [100; 1; 2; 3] (Some fresh),
     [(Some e1213, [100]); (Some e1205, [100]); (Some e2013, [100]); (None, [100; 1; 2; 3])]).
Proof. vm_compute. reflexivity. Qed.

Example ex_duplicate_key_not_retried :
  gen_run [1; 2] [stmt_fault 1 e1062 StmtOnly] (mkWorld [] None)
  = (Some e1062, mkWorld [] (Some fresh), [(Some e1062, [])]).
Proof. vm_compute. reflexivity. Qed.

(** why the invariant matters: a dirty connection in the pool would have its writes committed by START TRANSACTION *)
Example ex_dirty_pool_leaks :
  gen_run [1] [] (mkWorld [] (Some (mkConn [(-99)] true true))) = (None, mkWorld [(-99); 1] (Some fresh), [(None, [(-99); 1])]).
Proof. vm_compute. reflexivity. Qed.

(** the helpers: the fault-site hypothesis is satisfiable at a row far inside a long argument array and at COMMIT *)
Definition row2200 : nat := Z.to_nat 2200.        (* unary literals in the thousands are slow to elaborate *)

Example ex_fault_site_row_2200 : fault_site (length (zrange 2500)) (stmt_fault row2200 e1062 StmtOnly) e1062.
Proof.
  apply (AtStatement _ _ _ row2200 StmtOnly); [reflexivity | reflexivity | reflexivity |].
  apply Nat.ltb_lt. vm_compute. reflexivity.
Qed.

Example ex_fault_site_commit : fault_site (length (zrange 2500)) (commit_fault e2013 true) e2013.
Proof. apply (AtCommit _ _ _ true); [reflexivity | reflexivity | exact I | reflexivity]. Qed.

(** Database.execute_many over 2500 rows: duplicate key at row 2200 — nothing is left behind *)
Example ex_execute_many_2500_duplicate_key :
  run_many_Z 2500 [stmt_fault row2200 e1062 StmtOnly] [7] = (Some e1062, [(7, 1)], [(Some e1062, [(7, 1)])]).
Proof. vm_compute. reflexivity. Qed.

(** ... deadlock at row 2200, then a lost connection at COMMIT: retried as a whole, rows 0..2499 exactly once *)
Example ex_execute_many_2500_deadlock_then_commit_loss :
  run_many_Z 2500 [stmt_fault row2200 e1213 TxnRolledBack; commit_fault e2013 true] [7]
  = (None, [(7, 1); (0, 2500)], [(Some e1213, [(7, 1)]); (Some e2013, [(7, 1)]); (None, [(7, 1); (0, 2500)])]).
Proof. vm_compute. reflexivity. Qed.

(** the bulk path with 1000-row wire statements: lock-wait timeout at the third statement (rows 2000..2499) *)
Example ex_execute_many_chunked :
  run_chunks_Z 2500 1000 [stmt_fault 2 e1205 StmtOnly] [7]
  = (None, [(7, 1); (0, 2500)], [(Some e1205, [(7, 1)]); (None, [(7, 1); (0, 2500)])]).
Proof. vm_compute. reflexivity. Qed.
