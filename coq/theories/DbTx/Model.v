(** C27 — hand model of gear/gear/database.py transactions over a (trusted) model of aiomysql + MySQL/InnoDB.
    Executable definitions only.

    The MySQL side ([srv_*], [pool_release]) is a TRUSTED stand-in: InnoDB makes COMMIT/ROLLBACK atomic, a
    deadlock victim's transaction is rolled back by the server, a lock-wait timeout / ordinary statement error
    rolls back the statement only, a lost connection discards the open transaction, START TRANSACTION implicitly
    commits an open transaction, an error reported by COMMIT means nothing was committed, aiomysql's pool closes
    a connection that is released while still in a transaction, and every command on a connection that was lost
    raises a (non-retryable) InterfaceError.  The same semantics is implemented by the fake pool in
    harness/impl/c27_dbtx.py against which the REAL gear.database code runs. *)
From HailV Require Import Common.Prelude.
Open Scope Z_scope.

(** pymysql.err exception classes (leaves and inner nodes) and an application (non-pymysql) exception *)
Inductive eclass : Type :=
| MySQLError | PyWarning | Error | InterfaceError | DatabaseError | DataError | OperationalError
| IntegrityError | InternalError | ProgrammingError | NotSupportedError | AppException.

Definition eclass_eqb (a b : eclass) : bool :=
  match a, b with
  | MySQLError, MySQLError | PyWarning, PyWarning | Error, Error | InterfaceError, InterfaceError
  | DatabaseError, DatabaseError | DataError, DataError | OperationalError, OperationalError
  | IntegrityError, IntegrityError | InternalError, InternalError | ProgrammingError, ProgrammingError
  | NotSupportedError, NotSupportedError | AppException, AppException => true
  | _, _ => false
  end.

(** direct base class inside pymysql.err (None = derives from Exception directly) *)
Definition parent (c : eclass) : option eclass :=
  match c with
  | MySQLError | AppException => None
  | PyWarning | Error => Some MySQLError
  | InterfaceError | DatabaseError => Some Error
  | DataError | OperationalError | IntegrityError | InternalError | ProgrammingError | NotSupportedError => Some DatabaseError
  end.

(** isinstance(e, K) for an exception whose class is c  (the hierarchy has depth 4) *)
Definition is_instance (c k : eclass) : bool :=
  eclass_eqb c k ||
  match parent c with
  | None => false
  | Some p1 => eclass_eqb p1 k ||
      match parent p1 with
      | None => false
      | Some p2 => eclass_eqb p2 k ||
          match parent p2 with None => false | Some p3 => eclass_eqb p3 k end
      end
  end.

(** an exception as database.py looks at it: its class and args[0] when that is an int *)
Record err : Type := mkErr { e_class : eclass; e_code : option Z }.

Definition code_in (code : option Z) (codes : list Z) : bool :=
  match code with Some c => existsb (Z.eqb c) codes | None => false end.

Fixpoint assoc_get (c : Z) (d : list (Z * Z)) (default : Z) : Z :=
  match d with [] => default | (k, v) :: r => if c =? k then v else assoc_get c r default end.

Definition dict_get (code : option Z) (d : list (Z * Z)) (default : Z) : Z :=
  match code with Some c => assoc_get c d default | None => default end.

(** Python truthiness of `if loglevel := exception_log_level_if_retryable(exc)` *)
Definition truthy_level (l : option Z) : bool :=
  match l with Some v => negb (v =? 0) | None => false end.

(* ------------------------------------------------------------------------------------------------ *)
(** * Connection, pool and server (trusted stand-in) *)

Section Tx.
  Context {W : Type}.                        (* one write (statement effect); the database is the log of committed writes *)

  Record conn : Type := mkConn { pending : list W; in_trans : bool; alive : bool }.
  Definition fresh : conn := mkConn [] false true.

  (** committed log * the connection sitting in the pool's free list (if any) *)
  Record world : Type := mkWorld { committed : list W; free : option conn }.

  Definition srv_begin (c : conn) (log : list W) : conn * list W :=
    (mkConn [] true (alive c), log ++ pending c).            (* implicit commit of an open transaction *)
  Definition srv_exec (c : conn) (x : W) : conn := mkConn (pending c ++ [x]) (in_trans c) (alive c).
  Definition srv_commit (c : conn) (log : list W) : conn * list W := (mkConn [] false (alive c), log ++ pending c).
  Definition srv_rollback (c : conn) : conn := mkConn [] false (alive c).
  Definition srv_txn_rolled_back (c : conn) : conn := mkConn [] (in_trans c) (alive c).   (* ERR packets carry no status *)
  Definition srv_lose (c : conn) : conn := mkConn [] (in_trans c) false.

  (** aiomysql Pool.release: closed connections are dropped, connections still in a transaction are closed
      (the server then discards the transaction), clean ones go back to the free list *)
  Definition pool_release (c : conn) : option conn :=
    if alive c && negb (in_trans c) then Some c else None.

  Definition pool_acquire (w : world) : conn := match free w with Some c => c | None => fresh end.

  (** what the adversary may do to ONE attempt *)
  Inductive effect : Type := StmtOnly | TxnRolledBack | ConnLost.
  Record faults : Type := mkFaults {
    f_acquire : option err;                    (* pool.acquire() fails (1040 too many connections, 2003 cannot connect) *)
    f_start : option (err * bool);             (* START TRANSACTION fails; true = the connection is lost *)
    f_stmt : option (nat * err * effect);      (* statement #i (or the application code right before it) fails *)
    f_commit : option (err * bool);            (* COMMIT fails: nothing is committed; true = connection lost *)
    f_rollback : option err                    (* ROLLBACK fails: the connection is lost *)
  }.
  Definition no_faults : faults := mkFaults None None None None None.

  Inductive exit_action : Type := DoCommit | DoRollback.

  Variable lost_err : err.                     (* raised by any command on a lost connection *)
  Variable on_exit : bool -> exit_action.      (* Transaction._aexit_1: exc_type set? -> action *)
  Variable rollback_guarded : bool.            (* a failing rollback() does not replace the body's exception *)

  (** statements before the failing one *)
  Fixpoint exec_all (c : conn) (xs : list W) : conn :=
    match xs with [] => c | x :: r => exec_all (srv_exec c x) r end.

  (** leave the `async with db.start() as tx` block: returns (exception raised by __aexit__, connection, log) *)
  Definition leave (c : conn) (log : list W) (body_failed : bool) (f : faults) : option err * conn * list W :=
    match on_exit body_failed with
    | DoRollback =>
        if alive c then
          match f_rollback f with
          | Some e => (Some e, srv_lose c, log)
          | None => (None, srv_rollback c, log)
          end
        else (Some lost_err, c, log)
    | DoCommit =>
        if alive c then
          match f_commit f with
          | Some (e, lost) => (Some e, (if lost then srv_lose c else srv_txn_rolled_back c), log)
          | None => let '(c', log') := srv_commit c log in (None, c', log')
          end
        else (Some lost_err, c, log)
    end.

  (** one attempt = one execution of `async with db.start() as tx: return await fun(tx)`.
      Result: the exception that propagates to the retry wrapper (None = returned normally) and the new world. *)
  Definition attempt (stmts : list W) (f : faults) (w : world) : option err * world :=
    match f_acquire f with
    | Some e => (Some e, w)
    | None =>
        let c0 := pool_acquire w in
        match f_start f with
        | Some (e, lost) =>
            let c := if lost then srv_lose c0 else c0 in
            (Some e, mkWorld (committed w) (pool_release c))
        | None =>
            let '(c1, log1) := srv_begin c0 (committed w) in
            let body :=                         (* (exception of the body, connection after the body) *)
              match f_stmt f with
              | Some (i, e, eff) =>
                  if (i <? length stmts)%nat then
                    let c := exec_all c1 (firstn i stmts) in
                    (Some e, match eff with
                             | StmtOnly => c
                             | TxnRolledBack => srv_txn_rolled_back c
                             | ConnLost => srv_lose c
                             end)
                  else (None, exec_all c1 stmts)
              | None => (None, exec_all c1 stmts)
              end in
            let '(body_exc, c2) := body in
            let '(exit_exc, c3, log3) := leave c2 log1 (match body_exc with Some _ => true | None => false end) f in
            let propagated :=
              match body_exc, exit_exc with
              | Some be, Some xe => if rollback_guarded then Some be else Some xe
              | Some be, None => Some be
              | None, x => x
              end in
            (propagated, mkWorld log3 (pool_release c3))
        end
    end.

  Variable retryable : err -> bool.            (* truthy_level (exception_log_level_if_retryable exc) *)

  (** retry_transient_mysql_errors around the attempt; the adversary's plan for the successive attempts is [hist]
      (attempts beyond the plan are fault-free).  Returns (final exception or None, final world,
      trace = for every attempt the exception that reached the wrapper and the committed log right after it). *)
  Fixpoint run (stmts : list W) (hist : list faults) (w : world) : option err * world * list (option err * list W) :=
    match hist with
    | [] => let '(r, w') := attempt stmts no_faults w in (r, w', [(r, committed w')])
    | f :: rest =>
        let '(r, w') := attempt stmts f w in
        match r with
        | None => (None, w', [(None, committed w')])
        | Some e =>
            if retryable e
            then let '(r2, w2, tr) := run stmts rest w' in (r2, w2, (Some e, committed w') :: tr)
            else (Some e, w', [(Some e, committed w')])
        end
    end.
End Tx.

Arguments mkConn {W}.
Arguments mkWorld {W}.

(* ------------------------------------------------------------------------------------------------ *)
(** * The Database.* convenience methods

    Each of them is `@retry_transient_mysql_errors async def h(self, sql, args...):
                       async with self.start(...) as tx: [return] await tx.<method>(sql, args...)`
    i.e. ONE transaction of the model above around the statements the Transaction method issues, retried as a whole.
    The single-statement methods issue one statement; `execute_many(sql, args_array)` hands the WHOLE argument array
    to `cursor.executemany`, which aiomysql sends as one statement per row (or, for INSERT ... VALUES, as a sequence of
    multi-row statements bounded by max_stmt_length — see [chunks_of]).  A call is described by what it is asked to do. *)
Inductive helper_call (W : Type) : Type :=
| HJustExecute (x : W)
| HExecuteUpdate (x : W)
| HExecuteInsertone (x : W)
| HExecuteAndFetchone (x : W)
| HSelectAndFetchone (x : W)
| HCheckCallProcedure (x : W)
| HExecuteMany (rows : list W).                (* an argument array of ANY length *)
Arguments HJustExecute {W}. Arguments HExecuteUpdate {W}. Arguments HExecuteInsertone {W}.
Arguments HExecuteAndFetchone {W}. Arguments HSelectAndFetchone {W}. Arguments HCheckCallProcedure {W}.
Arguments HExecuteMany {W}.

(** the statements of the helper's single transaction (hand specification; the generated [helper_plan] is proved equal) *)
Definition helper_stmts {W} (c : helper_call W) : list W :=
  match c with
  | HJustExecute x | HExecuteUpdate x | HExecuteInsertone x | HExecuteAndFetchone x | HSelectAndFetchone x
  | HCheckCallProcedure x => [x]
  | HExecuteMany rows => rows
  end.

(** aiomysql's bulk path: the argument array cut into wire statements of (at most) k rows; [fuel] >= length suffices *)
Fixpoint chunks_of {A} (fuel k : nat) (l : list A) : list (list A) :=
  match fuel with
  | O => []
  | S fuel' => match l with [] => [] | _ :: _ => firstn k l :: chunks_of fuel' k (skipn k l) end
  end.

(** lossless run-length view of an integer log (maximal runs a, a+1, ..., a+len-1), used to print long logs *)
Fixpoint runs_aux (l : list Z) (a len : Z) : list (Z * Z) :=
  match l with
  | [] => [(a, len)]
  | x :: r => if x =? a + len then runs_aux r a (len + 1) else (a, len) :: runs_aux r x 1
  end.
Definition runs (l : list Z) : list (Z * Z) := match l with [] => [] | x :: r => runs_aux r x 1 end.
